//! Engine B: preemption-bounded exhaustive exploration of the real threads under shuttle, plus the
//! deterministic default schedule used by the sequential engines.
//!
//! One shuttle `Runner` per execution; an execution is a pure function of the list of choices made
//! at its decision points. `explore` enumerates every choice list whose number of preemptions is
//! within the bound (iterative context bounding, prefix replay + default suffix).

use crate::common::n_threads;
use shuttle::scheduler::{Schedule, Scheduler, Task, TaskId};
use shuttle::{Config, FailurePersistence, MaxSteps, Runner};
use std::cell::{Cell, RefCell};
use std::collections::BTreeMap;
use std::panic::{catch_unwind, AssertUnwindSafe};
use std::sync::atomic::{AtomicBool, AtomicU64, AtomicUsize, Ordering};
use std::sync::{Arc, Condvar, Mutex, Once};

pub type Label = (&'static str, u64);

#[derive(Clone, Copy, PartialEq, Eq, Debug)]
pub enum Mode {
    /// branch only at named schedule points and when the running task blocks
    Macro,
    /// branch at every synchronisation operation
    Fine,
}

#[derive(Clone, Debug)]
pub struct Point {
    /// enabled tasks in canonical order (logical current first if enabled, then ascending id),
    /// each with the named point it is parked at, if any
    pub enabled: Vec<(usize, Option<Label>)>,
    pub current_enabled: bool,
    pub chosen: usize,
    pub phase: u32,
}

thread_local! {
    static PHASE: Cell<u32> = const { Cell::new(0) };
    static LAST_PANIC: RefCell<Option<String>> = const { RefCell::new(None) };
    static QUIET_PANICS: Cell<bool> = const { Cell::new(false) };
}

/// Harness-side marker: decision points are branched on only while the phase is in the window.
pub fn set_phase(p: u32) {
    PHASE.with(|c| c.set(p));
}

pub fn phase() -> u32 {
    PHASE.with(|c| c.get())
}

static HOOK: Once = Once::new();

fn install_hook() {
    HOOK.call_once(|| {
        let prev = std::panic::take_hook();
        std::panic::set_hook(Box::new(move |info| {
            let msg = if let Some(s) = info.payload().downcast_ref::<&str>() {
                s.to_string()
            } else if let Some(s) = info.payload().downcast_ref::<String>() {
                s.clone()
            } else {
                "<non-string panic>".to_string()
            };
            let loc = info
                .location()
                .map(|l| format!("{}:{}", l.file(), l.line()))
                .unwrap_or_default();
            let quiet = QUIET_PANICS.with(|q| q.get());
            LAST_PANIC.with(|p| {
                let mut p = p.borrow_mut();
                if p.is_none() {
                    *p = Some(format!("{msg} @ {loc}"));
                }
            });
            if !quiet || std::env::var("VERIF_VERBOSE").is_ok() {
                prev(info);
            }
        }));
    });
}

struct SchedState {
    mode: Mode,
    window: (u32, u32),
    prefix: Vec<usize>,
    step: usize,
    points: Vec<Point>,
    started: Vec<bool>,
    logical_current: Option<usize>,
    parked: BTreeMap<usize, Label>,
    log: Vec<(usize, Label)>,
    error: Option<String>,
    sched_calls: u64,
    executed: bool,
    keep_log: bool,
}

struct Sched(Arc<Mutex<SchedState>>);

impl Scheduler for Sched {
    fn new_execution(&mut self) -> Option<Schedule> {
        let mut st = self.0.lock().unwrap();
        if st.executed {
            None
        } else {
            st.executed = true;
            let _ = similari::verif::take_labels();
            Some(Schedule::new(0))
        }
    }

    fn next_task(
        &mut self,
        runnable: &[&Task],
        current: Option<TaskId>,
        is_yielding: bool,
    ) -> Option<TaskId> {
        let mut st = self.0.lock().unwrap();
        st.sched_calls += 1;
        let labels = similari::verif::take_labels();
        let cur: Option<usize> = current.map(usize::from);
        if let Some(c) = cur {
            if is_yielding {
                if let Some(l) = labels.last() {
                    st.parked.insert(c, *l);
                }
            } else {
                st.parked.remove(&c);
            }
            if st.keep_log {
                for l in &labels {
                    st.log.push((c, *l));
                }
            }
        }
        let mut en: Vec<usize> = runnable.iter().map(|t| usize::from(t.id())).collect();
        en.sort_unstable();
        let max_id = *en.last().unwrap();
        if st.started.len() <= max_id {
            st.started.resize(max_id + 1, false);
        }
        let cur_enabled = cur.map_or(false, |c| en.contains(&c));
        let lc: Option<usize>;
        if st.mode == Mode::Macro {
            if !is_yielding && cur_enabled {
                let c = cur.unwrap();
                st.started[c] = true;
                return Some(TaskId::from(c));
            }
            if let Some(&t) = en.iter().find(|t| !st.started[**t]) {
                // start-up of a fresh task up to its first named point or block: invisible to the others
                st.started[t] = true;
                if st.logical_current.is_none() {
                    st.logical_current = Some(t);
                }
                return Some(TaskId::from(t));
            }
            lc = st.logical_current.filter(|c| en.contains(c));
        } else {
            lc = cur.filter(|_| cur_enabled);
        }
        let mut order: Vec<usize> = Vec::with_capacity(en.len());
        if let Some(c) = lc {
            order.push(c);
        }
        for t in &en {
            if Some(*t) != lc {
                order.push(*t);
            }
        }
        let ph = PHASE.with(|c| c.get());
        let in_window = ph >= st.window.0 && ph <= st.window.1;
        let idx = if order.len() > 1 && in_window {
            let i = if st.step < st.prefix.len() {
                st.prefix[st.step]
            } else {
                0
            };
            if i >= order.len() {
                st.error = Some(format!(
                    "replay prefix does not fit: step {} wants choice {} of {}",
                    st.step,
                    i,
                    order.len()
                ));
                return None;
            }
            st.step += 1;
            let enabled = order
                .iter()
                .map(|t| (*t, st.parked.get(t).copied()))
                .collect();
            st.points.push(Point {
                enabled,
                current_enabled: lc.is_some(),
                chosen: i,
                phase: ph,
            });
            i
        } else {
            0
        };
        let chosen = order[idx];
        st.logical_current = Some(chosen);
        st.started[chosen] = true;
        Some(TaskId::from(chosen))
    }

    fn next_u64(&mut self) -> u64 {
        0
    }
}

#[derive(Clone, Debug)]
pub enum Outcome<O> {
    Done(O),
    Panic(String),
    Deadlock(String),
    StepCap(String),
    /// the harness / scheduler itself misbehaved: never a verdict
    Machinery(String),
}

#[derive(Clone, Debug)]
pub struct Exec<O> {
    pub choices: Vec<usize>,
    pub points: Vec<Point>,
    pub log: Vec<(usize, Label)>,
    pub sched_calls: u64,
    pub outcome: Outcome<O>,
}

impl<O> Exec<O> {
    pub fn preemptions(&self) -> usize {
        self.points
            .iter()
            .filter(|p| p.current_enabled && p.chosen != 0)
            .count()
    }

    pub fn schedule_json(&self) -> serde_json::Value {
        serde_json::json!({
            "choices": self.choices,
            "points": self.points.iter().map(|p| serde_json::json!({
                "phase": p.phase,
                "enabled": p.enabled.iter().map(|(t,l)| match l {
                    Some((s,a)) => format!("t{t}@{s}({a})"),
                    None => format!("t{t}"),
                }).collect::<Vec<_>>(),
                "current_enabled": p.current_enabled,
                "chosen": p.chosen,
            })).collect::<Vec<_>>(),
        })
    }
}

#[derive(Clone)]
pub struct ExploreCfg {
    pub mode: Mode,
    pub window: (u32, u32),
    pub bound: usize,
    pub max_execs: u64,
    pub threads: usize,
    pub stack: usize,
    pub max_steps: usize,
    pub keep_log: bool,
    /// stop pushing new work once this returns true (wall cap)
    pub deadline: Option<std::time::Instant>,
}

impl Default for ExploreCfg {
    fn default() -> Self {
        ExploreCfg {
            mode: Mode::Macro,
            window: (0, u32::MAX),
            bound: 2,
            max_execs: u64::MAX,
            threads: n_threads(),
            stack: 1 << 20,
            max_steps: 400_000,
            keep_log: false,
            deadline: None,
        }
    }
}

fn shuttle_config(stack: usize, max_steps: usize) -> Config {
    let mut c = Config::new();
    c.stack_size = stack;
    c.failure_persistence = FailurePersistence::None;
    c.max_steps = MaxSteps::FailAfter(max_steps);
    c.silence_warnings = true;
    c
}

/// Run `f` once under the schedule given by `prefix` (then default choices).
pub fn run_one<O, F>(cfg: &ExploreCfg, prefix: &[usize], f: &Arc<F>) -> Exec<O>
where
    O: Send + 'static,
    F: Fn() -> O + Send + Sync + 'static,
{
    install_hook();
    let st = Arc::new(Mutex::new(SchedState {
        mode: cfg.mode,
        window: cfg.window,
        prefix: prefix.to_vec(),
        step: 0,
        points: vec![],
        started: vec![],
        logical_current: None,
        parked: BTreeMap::new(),
        log: vec![],
        error: None,
        sched_calls: 0,
        executed: false,
        keep_log: cfg.keep_log,
    }));
    let slot: Arc<Mutex<Option<O>>> = Arc::new(Mutex::new(None));
    let runner = Runner::new(Sched(st.clone()), shuttle_config(cfg.stack, cfg.max_steps));
    let f2 = f.clone();
    let slot2 = slot.clone();
    set_phase(0);
    LAST_PANIC.with(|p| *p.borrow_mut() = None);
    QUIET_PANICS.with(|q| q.set(true));
    let res = catch_unwind(AssertUnwindSafe(move || {
        runner.run(move || {
            let o = f2();
            *slot2.lock().unwrap() = Some(o);
        })
    }));
    QUIET_PANICS.with(|q| q.set(false));
    let _ = similari::verif::take_labels();
    let mut s = st.lock().unwrap();
    let points = std::mem::take(&mut s.points);
    let log = std::mem::take(&mut s.log);
    let choices: Vec<usize> = points.iter().map(|p| p.chosen).collect();
    let outcome = if let Some(e) = s.error.take() {
        Outcome::Machinery(e)
    } else {
        match res {
            Ok(_) => match slot.lock().unwrap().take() {
                Some(o) => {
                    if s.step < s.prefix.len() {
                        Outcome::Machinery(format!(
                            "replay prefix longer than execution: {} of {} used",
                            s.step,
                            s.prefix.len()
                        ))
                    } else {
                        Outcome::Done(o)
                    }
                }
                None => Outcome::Machinery("execution produced no observation".into()),
            },
            Err(_) => {
                let msg = LAST_PANIC
                    .with(|p| p.borrow_mut().take())
                    .unwrap_or_else(|| "<panic>".into());
                if msg.contains("deadlock!") {
                    Outcome::Deadlock(msg)
                } else if msg.contains("exceeded max_steps") {
                    Outcome::StepCap(msg)
                } else if msg.contains("ExecutionState") || msg.contains("no task was scheduled") {
                    Outcome::Machinery(msg)
                } else {
                    Outcome::Panic(msg)
                }
            }
        }
    };
    Exec {
        choices,
        points,
        log,
        sched_calls: s.sched_calls,
        outcome,
    }
}

#[derive(Default, Debug, Clone)]
pub struct Stats {
    pub executions: u64,
    pub decision_points: u64,
    pub max_points: usize,
    pub sched_calls: u64,
    pub truncated: bool,
    pub bound: usize,
}

struct Work {
    prefix: Vec<usize>,
    cost: usize,
}

/// Enumerate all schedules of `f` with at most `cfg.bound` preemptions; `on_exec` sees every execution.
pub fn explore<O, F, C>(cfg: &ExploreCfg, f: F, on_exec: C) -> Stats
where
    O: Send + 'static,
    F: Fn() -> O + Send + Sync + 'static,
    C: Fn(&Exec<O>) + Sync,
{
    let f = Arc::new(f);
    let stack: Mutex<Vec<Work>> = Mutex::new(vec![Work {
        prefix: vec![],
        cost: 0,
    }]);
    let cv = Condvar::new();
    let active = AtomicUsize::new(0);
    let execs = AtomicU64::new(0);
    let dpoints = AtomicU64::new(0);
    let scalls = AtomicU64::new(0);
    let maxp = AtomicUsize::new(0);
    let truncated = AtomicBool::new(false);
    let threads = cfg.threads.max(1);
    std::thread::scope(|s| {
        for _ in 0..threads {
            s.spawn(|| loop {
                let w = {
                    let mut g = stack.lock().unwrap();
                    loop {
                        if let Some(w) = g.pop() {
                            active.fetch_add(1, Ordering::SeqCst);
                            break Some(w);
                        }
                        if active.load(Ordering::SeqCst) == 0 {
                            cv.notify_all();
                            break None;
                        }
                        g = cv.wait(g).unwrap();
                    }
                };
                let Some(w) = w else { break };
                let over = execs.load(Ordering::Relaxed) >= cfg.max_execs
                    || cfg
                        .deadline
                        .map_or(false, |d| std::time::Instant::now() > d);
                if over {
                    truncated.store(true, Ordering::Relaxed);
                    active.fetch_sub(1, Ordering::SeqCst);
                    cv.notify_all();
                    continue;
                }
                let x = run_one(cfg, &w.prefix, &f);
                execs.fetch_add(1, Ordering::Relaxed);
                dpoints.fetch_add(x.points.len() as u64, Ordering::Relaxed);
                scalls.fetch_add(x.sched_calls, Ordering::Relaxed);
                maxp.fetch_max(x.points.len(), Ordering::Relaxed);
                on_exec(&x);
                // children: deviate at every later decision point
                let mut kids: Vec<Work> = vec![];
                let mut cost = w.cost;
                for i in w.prefix.len()..x.points.len() {
                    let p = &x.points[i];
                    // cost so far counts preemptions strictly before i (beyond the prefix all choices are 0)
                    let c = cost + if p.current_enabled { 1 } else { 0 };
                    if c <= cfg.bound {
                        for alt in 1..p.enabled.len() {
                            let mut pre = x.choices[..i].to_vec();
                            pre.push(alt);
                            kids.push(Work {
                                prefix: pre,
                                cost: c,
                            });
                        }
                    }
                    let _ = &mut cost;
                }
                {
                    let mut g = stack.lock().unwrap();
                    g.extend(kids);
                    active.fetch_sub(1, Ordering::SeqCst);
                }
                cv.notify_all();
            });
        }
    });
    Stats {
        executions: execs.load(Ordering::Relaxed),
        decision_points: dpoints.load(Ordering::Relaxed),
        max_points: maxp.load(Ordering::Relaxed),
        sched_calls: scalls.load(Ordering::Relaxed),
        truncated: truncated.load(Ordering::Relaxed),
        bound: cfg.bound,
    }
}

/// Sequential engines: run `f` inside the shuttle runtime under the deterministic default
/// schedule (keep the running task while it can run, else the lowest runnable id).
pub fn in_shuttle<O, F>(f: F) -> Result<O, String>
where
    O: Send + 'static,
    F: Fn() -> O + Send + Sync + 'static,
{
    let cfg = ExploreCfg {
        mode: Mode::Macro,
        window: (1, 0), // empty window: never branch
        bound: 0,
        max_steps: usize::MAX / 4,
        ..Default::default()
    };
    let x = run_one(&cfg, &[], &Arc::new(f));
    match x.outcome {
        Outcome::Done(o) => Ok(o),
        Outcome::Panic(m) => Err(format!("panic: {m}")),
        Outcome::Deadlock(m) => Err(format!("deadlock: {m}")),
        Outcome::StepCap(m) => Err(format!("step cap: {m}")),
        Outcome::Machinery(m) => Err(format!("machinery: {m}")),
    }
}

/// Drop guard for objects that own shuttle threads: skip the destructor while unwinding, so a
/// panic inside the subject cannot turn into a double panic (process abort) in its `Drop`.
pub struct Guarded<T>(std::mem::ManuallyDrop<T>);

impl<T> Guarded<T> {
    pub fn new(t: T) -> Self {
        Guarded(std::mem::ManuallyDrop::new(t))
    }
}

impl<T> std::ops::Deref for Guarded<T> {
    type Target = T;
    fn deref(&self) -> &T {
        &self.0
    }
}

impl<T> std::ops::DerefMut for Guarded<T> {
    fn deref_mut(&mut self) -> &mut T {
        &mut self.0
    }
}

impl<T> Drop for Guarded<T> {
    fn drop(&mut self) {
        if !std::thread::panicking() {
            unsafe { std::mem::ManuallyDrop::drop(&mut self.0) }
        }
    }
}
