//! Engine B: preemption-bounded exhaustive exploration of the real threads under shuttle, plus the
//! deterministic default schedule used by the sequential engines.
//!
//! One shuttle `Runner` per execution; an execution is a pure function of the list of choices made
//! at its decision points. `explore` enumerates every choice list whose number of preemptions is
//! within the bound (iterative context bounding, prefix replay + default suffix).

use crate::common::n_threads;
use shuttle::scheduler::{Schedule, Scheduler, Task, TaskId};
use shuttle::{Config, FailurePersistence, MaxSteps, Runner};
use std::cell::{Cell, RefCell};
use std::collections::BTreeMap;
use std::panic::{catch_unwind, AssertUnwindSafe};
use std::sync::atomic::{AtomicBool, AtomicU64, AtomicUsize, Ordering};
use std::sync::{Arc, Condvar, Mutex, Once};

pub type Label = (&'static str, u64);

#[derive(Clone, Copy, PartialEq, Eq, Debug)]
pub enum Mode {
    /// branch only at named schedule points and when the running task blocks
    Macro,
    /// branch at every synchronisation operation
    Fine,
}

#[derive(Clone, Debug)]
pub struct Point {
    /// enabled tasks in canonical order (logical current first if enabled, then ascending id),
    /// each with the named point it is parked at, if any
    pub enabled: Vec<(usize, Option<Label>)>,
    pub current_enabled: bool,
    pub chosen: usize,
    pub phase: u32,
}

thread_local! {
    static PHASE: Cell<u32> = const { Cell::new(0) };
    static LAST_PANIC: RefCell<Option<String>> = const { RefCell::new(None) };
    static QUIET_PANICS: Cell<bool> = const { Cell::new(false) };
}

/// Harness-side marker: decision points are branched on only while the phase is in the window.
pub fn set_phase(p: u32) {
    PHASE.with(|c| c.set(p));
}

pub fn phase() -> u32 {
    PHASE.with(|c| c.get())
}

static HOOK: Once = Once::new();

fn install_hook() {
    HOOK.call_once(|| {
        let prev = std::panic::take_hook();
        std::panic::set_hook(Box::new(move |info| {
            let msg = if let Some(s) = info.payload().downcast_ref::<&str>() {
                s.to_string()
            } else if let Some(s) = info.payload().downcast_ref::<String>() {
                s.clone()
            } else {
                "<non-string panic>".to_string()
            };
            let loc = info
                .location()
                .map(|l| format!("{}:{}", l.file(), l.line()))
                .unwrap_or_default();
            if msg.contains("panic in a destructor during cleanup") {
                let first = LAST_PANIC.with(|p| p.borrow().clone()).unwrap_or_else(|| "<unknown>".into());
                crate::common::abort_verdict(&first);
            }
            let quiet = QUIET_PANICS.with(|q| q.get());
            LAST_PANIC.with(|p| {
                let mut p = p.borrow_mut();
                if p.is_none() {
                    *p = Some(format!("{msg} @ {loc}"));
                }
            });
            if !quiet || std::env::var("VERIF_VERBOSE").is_ok() {
                prev(info);
            }
        }));
    });
}

struct SchedState {
    mode: Mode,
    window: (u32, u32),
    prefix: Vec<usize>,
    step: usize,
    points: Vec<Point>,
    started: Vec<bool>,
    logical_current: Option<usize>,
    parked: BTreeMap<usize, Label>,
    log: Vec<(usize, Label)>,
    error: Option<String>,
    sched_calls: u64,
    executed: bool,
    keep_log: bool,
}

fn decide(st: &mut SchedState, runnable: &[&Task], current: Option<TaskId>, is_yielding: bool) -> Option<TaskId> {

        st.sched_calls += 1;
        // fast path (macro mode): the running task is not at a named point and can continue
        if st.mode == Mode::Macro && !is_yielding && !st.keep_log {
            if let Some(c) = current {
                if runnable.iter().any(|t| t.id() == c) {
                    return Some(c);
                }
            }
        }
        let labels = similari::verif::take_labels();
        let cur: Option<usize> = current.map(usize::from);
        if let Some(c) = cur {
            if is_yielding {
                if let Some(l) = labels.last() {
                    st.parked.insert(c, *l);
                }
            } else {
                st.parked.remove(&c);
            }
            if st.keep_log {
                for l in &labels {
                    st.log.push((c, *l));
                }
            }
        }
        let mut en: Vec<usize> = runnable.iter().map(|t| usize::from(t.id())).collect();
        en.sort_unstable();
        let max_id = *en.last().unwrap();
        if st.started.len() <= max_id {
            st.started.resize(max_id + 1, false);
        }
        let cur_enabled = cur.map_or(false, |c| en.contains(&c));
        let lc: Option<usize>;
        if st.mode == Mode::Macro {
            if !is_yielding && cur_enabled {
                let c = cur.unwrap();
                st.started[c] = true;
                return Some(TaskId::from(c));
            }
            if let Some(&t) = en.iter().find(|t| !st.started[**t]) {
                // start-up of a fresh task up to its first named point or block: invisible to the others
                st.started[t] = true;
                if st.logical_current.is_none() {
                    st.logical_current = Some(t);
                }
                return Some(TaskId::from(t));
            }
            lc = st.logical_current.filter(|c| en.contains(c));
        } else {
            lc = cur.filter(|_| cur_enabled);
        }
        let mut order: Vec<usize> = Vec::with_capacity(en.len());
        if let Some(c) = lc {
            order.push(c);
        }
        for t in &en {
            if Some(*t) != lc {
                order.push(*t);
            }
        }
        let ph = PHASE.with(|c| c.get());
        let in_window = ph >= st.window.0 && ph <= st.window.1;
        let idx = if order.len() > 1 && in_window {
            let i = if st.step < st.prefix.len() {
                st.prefix[st.step]
            } else {
                0
            };
            if i >= order.len() {
                st.error = Some(format!(
                    "replay prefix does not fit: step {} wants choice {} of {}",
                    st.step,
                    i,
                    order.len()
                ));
                return None;
            }
            st.step += 1;
            let enabled = order
                .iter()
                .map(|t| (*t, st.parked.get(t).copied()))
                .collect();
            st.points.push(Point {
                enabled,
                current_enabled: lc.is_some(),
                chosen: i,
                phase: ph,
            });
            i
        } else {
            0
        };
        let chosen = order[idx];
        st.logical_current = Some(chosen);
        st.started[chosen] = true;
        Some(TaskId::from(chosen))
    }

#[derive(Clone, Debug)]
pub enum Outcome<O> {
    Done(O),
    Panic(String),
    Deadlock(String),
    StepCap(String),
    /// the harness / scheduler itself misbehaved: never a verdict
    Machinery(String),
}

#[derive(Clone, Debug)]
pub struct Exec<O> {
    pub choices: Vec<usize>,
    pub points: Vec<Point>,
    pub log: Vec<(usize, Label)>,
    pub sched_calls: u64,
    pub outcome: Outcome<O>,
}

impl<O> Exec<O> {
    pub fn preemptions(&self) -> usize {
        self.points
            .iter()
            .filter(|p| p.current_enabled && p.chosen != 0)
            .count()
    }

    pub fn schedule_json(&self) -> serde_json::Value {
        serde_json::json!({
            "choices": self.choices,
            "points": self.points.iter().map(|p| serde_json::json!({
                "phase": p.phase,
                "enabled": p.enabled.iter().map(|(t,l)| match l {
                    Some((s,a)) => format!("t{t}@{s}({a})"),
                    None => format!("t{t}"),
                }).collect::<Vec<_>>(),
                "current_enabled": p.current_enabled,
                "chosen": p.chosen,
            })).collect::<Vec<_>>(),
        })
    }
}

#[derive(Clone)]
pub struct ExploreCfg {
    pub mode: Mode,
    pub window: (u32, u32),
    pub bound: usize,
    pub max_execs: u64,
    pub threads: usize,
    pub stack: usize,
    pub max_steps: usize,
    pub keep_log: bool,
    /// stop pushing new work once this returns true (wall cap)
    pub deadline: Option<std::time::Instant>,
    /// count every departure from the default choice against the bound (not only preemptions)
    pub count_all_deviations: bool,
}

impl Default for ExploreCfg {
    fn default() -> Self {
        ExploreCfg {
            mode: Mode::Macro,
            window: (0, u32::MAX),
            bound: 2,
            max_execs: u64::MAX,
            threads: n_threads(),
            stack: 1 << 20,
            max_steps: 400_000,
            keep_log: false,
            deadline: None,
            count_all_deviations: false,
        }
    }
}

fn shuttle_config(stack: usize, max_steps: usize) -> Config {
    let mut c = Config::new();
    c.stack_size = stack;
    c.failure_persistence = FailurePersistence::None;
    c.max_steps = MaxSteps::FailAfter(max_steps);
    c.silence_warnings = true;
    c
}

/// One unit of work for a pooled runner: job index (what to run) and schedule prefix (how).
#[derive(Clone, Debug)]
pub struct WorkItem {
    pub job: usize,
    pub prefix: Vec<usize>,
    pub cost: usize,
    /// Some(h): this is a determinism re-run of an earlier execution whose schedule signature was h
    pub expect: Option<u64>,
}

/// Where pooled runners get work from and deliver finished executions to.
pub trait WorkSource<O>: Sync {
    /// blocks until work is available; None = no more work ever
    fn next(&self) -> Option<WorkItem>;
    fn complete(&self, item: WorkItem, exec: Exec<O>);
}

struct PoolSched<'a, O> {
    st: SchedState,
    src: &'a dyn WorkSource<O>,
    current: Arc<Mutex<Option<WorkItem>>>,
    slot: Arc<Mutex<Option<O>>>,
    cfg: ExploreCfg,
}

fn fresh_state(cfg: &ExploreCfg, prefix: Vec<usize>) -> SchedState {
    SchedState {
        mode: cfg.mode,
        window: cfg.window,
        prefix,
        step: 0,
        points: vec![],
        started: vec![],
        logical_current: None,
        parked: BTreeMap::new(),
        log: vec![],
        error: None,
        sched_calls: 0,
        executed: false,
        keep_log: cfg.keep_log,
    }
}

fn finish_exec<O>(st: &mut SchedState, outcome_ok: Option<O>, panic_msg: Option<String>) -> Exec<O> {
    let points = std::mem::take(&mut st.points);
    let log = std::mem::take(&mut st.log);
    let choices: Vec<usize> = points.iter().map(|p| p.chosen).collect();
    let outcome = if let Some(e) = st.error.take() {
        Outcome::Machinery(e)
    } else if let Some(msg) = panic_msg {
        if msg.contains("deadlock!") {
            Outcome::Deadlock(msg)
        } else if msg.contains("exceeded max_steps") {
            Outcome::StepCap(msg)
        } else if msg.contains("ExecutionState") || msg.contains("no task was scheduled") {
            Outcome::Machinery(msg)
        } else {
            Outcome::Panic(msg)
        }
    } else {
        match outcome_ok {
            Some(o) => {
                if st.step < st.prefix.len() {
                    Outcome::Machinery(format!("replay prefix longer than execution: {} of {} used", st.step, st.prefix.len()))
                } else {
                    Outcome::Done(o)
                }
            }
            None => Outcome::Machinery("execution produced no observation".into()),
        }
    };
    Exec { choices, points, log, sched_calls: st.sched_calls, outcome }
}

impl<'a, O> PoolSched<'a, O> {
    fn finalize_previous(&mut self) {
        let item = self.current.lock().unwrap().take();
        if let Some(item) = item {
            let o = self.slot.lock().unwrap().take();
            let exec = finish_exec(&mut self.st, o, None);
            self.src.complete(item, exec);
        }
    }
}

impl<'a, O> Scheduler for PoolSched<'a, O> {
    fn new_execution(&mut self) -> Option<Schedule> {
        self.finalize_previous();
        let item = self.src.next()?;
        self.st = fresh_state(&self.cfg, item.prefix.clone());
        *self.current.lock().unwrap() = Some(item);
        let _ = similari::verif::take_labels();
        set_phase(0);
        LAST_PANIC.with(|p| *p.borrow_mut() = None);
        Some(Schedule::new(0))
    }

    fn next_task(&mut self, runnable: &[&Task], current: Option<TaskId>, is_yielding: bool) -> Option<TaskId> {
        decide(&mut self.st, runnable, current, is_yielding)
    }

    fn next_u64(&mut self) -> u64 {
        0
    }
}

/// One OS thread: keep a single shuttle Runner alive over many executions (its continuation pool
/// is reused, so no stack is mapped / unmapped per execution); a panicking execution ends the
/// Runner, is recorded, and a new Runner takes over.
fn worker_loop<O, F>(cfg: &ExploreCfg, f: &Arc<F>, src: &dyn WorkSource<O>)
where
    O: Send + 'static,
    F: Fn(&WorkItem) -> O + Send + Sync + 'static,
{
    install_hook();
    QUIET_PANICS.with(|q| q.set(true));
    loop {
        let current: Arc<Mutex<Option<WorkItem>>> = Arc::new(Mutex::new(None));
        let slot: Arc<Mutex<Option<O>>> = Arc::new(Mutex::new(None));
        // the scheduler borrows `src`; shuttle wants 'static: erase the lifetime (the Runner never outlives this call)
        let src_static: &'static dyn WorkSource<O> = unsafe { std::mem::transmute::<&dyn WorkSource<O>, &'static dyn WorkSource<O>>(src) };
        let sched = PoolSched { st: fresh_state(cfg, vec![]), src: src_static, current: current.clone(), slot: slot.clone(), cfg: cfg.clone() };
        // keep a handle on the scheduler state for the panic path
        let shared_sched = Arc::new(Mutex::new(sched));
        let runner = Runner::new(SharedSched(shared_sched.clone()), shuttle_config(cfg.stack, cfg.max_steps));
        let (f2, cur2, slot2) = (f.clone(), current.clone(), slot.clone());
        let res = catch_unwind(AssertUnwindSafe(move || {
            runner.run(move || {
                let item = cur2.lock().unwrap().clone().expect("work item set by new_execution");
                let o = f2(&item);
                *slot2.lock().unwrap() = Some(o);
            })
        }));
        match res {
            Ok(_) => break,
            Err(_) => {
                let msg = LAST_PANIC.with(|p| p.borrow_mut().take()).unwrap_or_else(|| "<panic>".into());
                let _ = similari::verif::take_labels();
                let mut g = shared_sched.lock().unwrap();
                let item = g.current.lock().unwrap().take();
                if let Some(item) = item {
                    let exec = finish_exec::<O>(&mut g.st, None, Some(msg));
                    src.complete(item, exec);
                } else {
                    // panic outside any execution: nothing sensible to attribute it to
                    QUIET_PANICS.with(|q| q.set(false));
                    crate::common::machinery_error(&format!("shuttle runner failed outside an execution: {msg}"));
                }
            }
        }
    }
    QUIET_PANICS.with(|q| q.set(false));
}

struct SharedSched<'a, O>(Arc<Mutex<PoolSched<'a, O>>>);

impl<'a, O> Scheduler for SharedSched<'a, O> {
    fn new_execution(&mut self) -> Option<Schedule> {
        self.0.lock().unwrap().new_execution()
    }
    fn next_task(&mut self, runnable: &[&Task], current: Option<TaskId>, is_yielding: bool) -> Option<TaskId> {
        self.0.lock().unwrap().next_task(runnable, current, is_yielding)
    }
    fn next_u64(&mut self) -> u64 {
        0
    }
}

fn drive<O, F>(cfg: &ExploreCfg, f: Arc<F>, src: &dyn WorkSource<O>, threads: usize)
where
    O: Send + 'static,
    F: Fn(&WorkItem) -> O + Send + Sync + 'static,
{
    if threads <= 1 {
        worker_loop(cfg, &f, src);
    } else {
        std::thread::scope(|s| {
            for _ in 0..threads {
                let f = f.clone();
                s.spawn(move || worker_loop(cfg, &f, src));
            }
        });
    }
}

/// a single execution
struct OneShot<O> {
    item: Mutex<Option<WorkItem>>,
    out: Mutex<Option<Exec<O>>>,
}

impl<O: Send> WorkSource<O> for OneShot<O> {
    fn next(&self) -> Option<WorkItem> {
        self.item.lock().unwrap().take()
    }
    fn complete(&self, _item: WorkItem, exec: Exec<O>) {
        *self.out.lock().unwrap() = Some(exec);
    }
}

/// Run `f` once under the schedule given by `prefix` (then default choices).
pub fn run_one<O, F>(cfg: &ExploreCfg, prefix: &[usize], f: &Arc<F>) -> Exec<O>
where
    O: Send + 'static,
    F: Fn() -> O + Send + Sync + 'static,
{
    let src = OneShot { item: Mutex::new(Some(WorkItem { job: 0, prefix: prefix.to_vec(), cost: 0, expect: None })), out: Mutex::new(None) };
    let f2 = f.clone();
    drive(cfg, Arc::new(move |_: &WorkItem| f2()), &src, 1);
    src.out.into_inner().unwrap().expect("execution completed")
}

#[derive(Default, Debug, Clone)]
pub struct Stats {
    pub executions: u64,
    pub decision_points: u64,
    pub max_points: usize,
    pub sched_calls: u64,
    pub truncated: bool,
    pub bound: usize,
    /// executions re-run to prove that a schedule determines the execution
    pub replays: u64,
}

struct ExploreSrc<'a, O, C: Fn(&Exec<O>) + Sync> {
    cfg: &'a ExploreCfg,
    stack: Mutex<Vec<WorkItem>>,
    cv: Condvar,
    active: AtomicUsize,
    execs: AtomicU64,
    dpoints: AtomicU64,
    scalls: AtomicU64,
    maxp: AtomicUsize,
    truncated: AtomicBool,
    nondeterministic: AtomicBool,
    replays: AtomicU64,
    on_exec: C,
    _o: std::marker::PhantomData<fn(O)>,
}

impl<'a, O: Send, C: Fn(&Exec<O>) + Sync> WorkSource<O> for ExploreSrc<'a, O, C> {
    fn next(&self) -> Option<WorkItem> {
        let mut g = self.stack.lock().unwrap();
        loop {
            let over = self.execs.load(Ordering::Relaxed) >= self.cfg.max_execs || self.cfg.deadline.map_or(false, |d| std::time::Instant::now() > d);
            if over && !g.is_empty() {
                self.truncated.store(true, Ordering::Relaxed);
                g.clear();
            }
            if let Some(w) = g.pop() {
                self.active.fetch_add(1, Ordering::SeqCst);
                return Some(w);
            }
            if self.active.load(Ordering::SeqCst) == 0 {
                self.cv.notify_all();
                return None;
            }
            g = self.cv.wait(g).unwrap();
        }
    }

    fn complete(&self, w: WorkItem, x: Exec<O>) {
        // ownership of nondeterminism, proved: the first executions are run twice and must take the same
        // decisions over the same enabled sets with the same labels
        let sig = crate::common::hash_of(&format!("{:?}", x.points.iter().map(|p| (&p.enabled, p.chosen, p.current_enabled)).collect::<Vec<_>>()));
        if let Some(h) = w.expect {
            if h != sig {
                self.nondeterministic.store(true, Ordering::SeqCst);
            }
            self.replays.fetch_add(1, Ordering::Relaxed);
            let mut g = self.stack.lock().unwrap();
            self.active.fetch_sub(1, Ordering::SeqCst);
            drop(g.len());
            drop(g);
            self.cv.notify_all();
            return;
        }
        let dup = if self.execs.load(Ordering::Relaxed) < 24 { Some(WorkItem { job: 0, prefix: x.choices.clone(), cost: w.cost, expect: Some(sig) }) } else { None };
        self.execs.fetch_add(1, Ordering::Relaxed);
        self.dpoints.fetch_add(x.points.len() as u64, Ordering::Relaxed);
        self.scalls.fetch_add(x.sched_calls, Ordering::Relaxed);
        self.maxp.fetch_max(x.points.len(), Ordering::Relaxed);
        (self.on_exec)(&x);
        // children: deviate at every later decision point (beyond the prefix all choices were 0)
        let mut kids: Vec<WorkItem> = vec![];
        for i in w.prefix.len()..x.points.len() {
            let p = &x.points[i];
            let c = w.cost + if p.current_enabled || self.cfg.count_all_deviations { 1 } else { 0 };
            if c <= self.cfg.bound {
                for alt in 1..p.enabled.len() {
                    let mut pre = x.choices[..i].to_vec();
                    pre.push(alt);
                    kids.push(WorkItem { job: 0, prefix: pre, cost: c, expect: None });
                }
            }
        }
        {
            let mut g = self.stack.lock().unwrap();
            g.extend(kids);
            if let Some(d) = dup {
                g.push(d);
            }
            self.active.fetch_sub(1, Ordering::SeqCst);
        }
        self.cv.notify_all();
    }
}

/// Enumerate all schedules of `f` with at most `cfg.bound` preemptions; `on_exec` sees every execution.
pub fn explore<O, F, C>(cfg: &ExploreCfg, f: F, on_exec: C) -> Stats
where
    O: Send + 'static,
    F: Fn() -> O + Send + Sync + 'static,
    C: Fn(&Exec<O>) + Sync,
{
    let src = ExploreSrc {
        cfg,
        stack: Mutex::new(vec![WorkItem { job: 0, prefix: vec![], cost: 0, expect: None }]),
        cv: Condvar::new(),
        active: AtomicUsize::new(0),
        execs: AtomicU64::new(0),
        dpoints: AtomicU64::new(0),
        scalls: AtomicU64::new(0),
        maxp: AtomicUsize::new(0),
        truncated: AtomicBool::new(false),
        nondeterministic: AtomicBool::new(false),
        replays: AtomicU64::new(0),
        on_exec,
        _o: std::marker::PhantomData,
    };
    drive(cfg, Arc::new(move |_: &WorkItem| f()), &src, cfg.threads.max(1));
    if src.nondeterministic.load(Ordering::SeqCst) {
        crate::common::machinery_error("replaying a recorded schedule took different decisions: some source of nondeterminism is not owned by the scheduler");
    }
    Stats {
        replays: src.replays.load(Ordering::Relaxed),
        executions: src.execs.load(Ordering::Relaxed),
        decision_points: src.dpoints.load(Ordering::Relaxed),
        max_points: src.maxp.load(Ordering::Relaxed),
        sched_calls: src.scalls.load(Ordering::Relaxed),
        truncated: src.truncated.load(Ordering::Relaxed),
        bound: cfg.bound,
    }
}

struct JobsSrc<O> {
    n: usize,
    next: AtomicUsize,
    out: Mutex<Vec<Option<Result<O, String>>>>,
}

impl<O: Send> WorkSource<O> for JobsSrc<O> {
    fn next(&self) -> Option<WorkItem> {
        let i = self.next.fetch_add(1, Ordering::Relaxed);
        if i < self.n {
            Some(WorkItem { job: i, prefix: vec![], cost: 0, expect: None })
        } else {
            None
        }
    }
    fn complete(&self, item: WorkItem, exec: Exec<O>) {
        let r = match exec.outcome {
            Outcome::Done(o) => Ok(o),
            Outcome::Panic(m) => Err(format!("panic: {m}")),
            Outcome::Deadlock(m) => Err(format!("deadlock: {m}")),
            Outcome::StepCap(m) => Err(format!("step cap: {m}")),
            Outcome::Machinery(m) => Err(format!("machinery: {m}")),
        };
        self.out.lock().unwrap()[item.job] = Some(r);
    }
}

fn seq_cfg() -> ExploreCfg {
    ExploreCfg {
        mode: Mode::Macro,
        window: (1, 0), // empty window: never branch
        bound: 0,
        max_steps: usize::MAX / 4,
        ..Default::default()
    }
}

/// Sequential engines: run jobs `0..n` each inside the shuttle runtime under the deterministic
/// default schedule (keep the running task while it can run, else the lowest runnable id), on a
/// pool of OS threads. Results in job order.
pub fn run_jobs<O, F>(n: usize, f: F) -> Vec<Result<O, String>>
where
    O: Send + 'static,
    F: Fn(usize) -> O + Send + Sync + 'static,
{
    let cfg = seq_cfg();
    let src = JobsSrc { n, next: AtomicUsize::new(0), out: Mutex::new((0..n).map(|_| None).collect()) };
    drive(&cfg, Arc::new(move |w: &WorkItem| f(w.job)), &src, cfg.threads.min(n.max(1)));
    src.out.into_inner().unwrap().into_iter().map(|r| r.unwrap_or_else(|| Err("machinery: job not executed".into()))).collect()
}

/// One closure inside the shuttle runtime under the default schedule.
pub fn in_shuttle<O, F>(f: F) -> Result<O, String>
where
    O: Send + 'static,
    F: Fn() -> O + Send + Sync + 'static,
{
    let cfg = seq_cfg();
    let src = JobsSrc { n: 1, next: AtomicUsize::new(0), out: Mutex::new(vec![None]) };
    drive(&cfg, Arc::new(move |_: &WorkItem| f()), &src, 1);
    src.out.into_inner().unwrap().pop().unwrap().unwrap_or_else(|| Err("machinery: job not executed".into()))
}

/// Drop guard for objects that own shuttle threads: skip the destructor while unwinding, so a
/// panic inside the subject cannot turn into a double panic (process abort) in its `Drop`.
pub struct Guarded<T>(std::mem::ManuallyDrop<T>);

impl<T> Guarded<T> {
    pub fn new(t: T) -> Self {
        Guarded(std::mem::ManuallyDrop::new(t))
    }
}

impl<T> std::ops::Deref for Guarded<T> {
    type Target = T;
    fn deref(&self) -> &T {
        &self.0
    }
}

impl<T> std::ops::DerefMut for Guarded<T> {
    fn deref_mut(&mut self) -> &mut T {
        &mut self.0
    }
}

impl<T> Drop for Guarded<T> {
    fn drop(&mut self) {
        if !std::thread::panicking() {
            unsafe { std::mem::ManuallyDrop::drop(&mut self.0) }
        }
    }
}
