//! C14 — NMS keeps a maximal independent set in rank order. Engine C.

use crate::common::*;
use crate::geom::{self, RBox};
use serde_json::json;
use similari::utils::bbox::Universal2DBox;
use similari::utils::nms::nms;
use std::sync::atomic::{AtomicU64, Ordering};

fn menu() -> Vec<Universal2DBox> {
    let b = |l: f32, t: f32, w: f32, h: f32| Universal2DBox::ltwh(l, t, w, h);
    vec![
        b(0.0, 0.0, 10.0, 20.0),                               // 0 base
        b(1.0, 1.0, 10.0, 21.0),                               // 1 shifted, slightly taller
        b(4.0, 0.0, 10.0, 19.0),                               // 2 shifted more
        b(2.0, 4.0, 5.0, 8.0),                                 // 3 nested in 0
        b(0.0, 0.0, 10.0, 20.0),                               // 4 exact duplicate of 0
        Universal2DBox::new(5.0, 10.0, Some(0.4), 0.5, 22.0),  // 5 rotated over 0
        b(100.0, 100.0, 10.0, 18.0),                           // 6 disjoint
        Universal2DBox::new(5.0, 5.0, None, 0.5, -3.0),        // 7 invalid: negative height
        Universal2DBox::new(5.0, 5.0, None, 0.0, 10.0),        // 8 invalid: zero aspect
        b(8.9, 17.8, 3.0, 6.0),                                // 9 small box poking into the corner of 0 (13% covered)
        b(7.5, 15.0, 10.0, 19.5),                              // 10 diagonal neighbour of 0 (corner overlap, 6% covered)
    ]
}

fn valid(b: &Universal2DBox) -> bool {
    b.height > 0.0 && b.aspect > 0.0
}

/// fraction of `b`'s area covered by `a`
fn coverage(a: &Universal2DBox, b: &Universal2DBox) -> f64 {
    let (ra, rb) = (RBox::from_u(a), RBox::from_u(b));
    geom::inter_area(&ra, &rb) / rb.area()
}

const MARGIN: f64 = 1e-4;

fn judge(dets: &[(Universal2DBox, Option<f32>)], nms_thr: f32, score_thr: Option<f32>) -> Result<usize, (&'static str, String)> {
    judge_m(dets, nms_thr, score_thr, MARGIN)
}

/// `margin` = 0: exact family (all quantities dyadic, so every correctly rounded computation is exact)
fn judge_m(dets: &[(Universal2DBox, Option<f32>)], nms_thr: f32, score_thr: Option<f32>, margin: f64) -> Result<usize, (&'static str, String)> {
    let out = nms(dets, nms_thr, score_thr);
    // identify returned references by address
    let base = dets.as_ptr() as usize;
    let stride = std::mem::size_of::<(Universal2DBox, Option<f32>)>();
    let mut idx: Vec<usize> = vec![];
    for r in &out {
        let p = *r as *const Universal2DBox as usize;
        if p < base || (p - base) / stride >= dets.len() {
            return Err(("nms/foreign-reference", "returned reference is not into the input slice".into()));
        }
        let i = (p - base) / stride;
        if !std::ptr::eq(&dets[i].0, *r) {
            return Err(("nms/foreign-reference", "returned reference is not a box of the input slice".into()));
        }
        idx.push(i);
    }
    let rank = |i: usize| dets[i].1.unwrap_or(dets[i].0.height);
    let passes = |i: usize| valid(&dets[i].0) && score_thr.map_or(true, |t| dets[i].1.map_or(true, |s| s > t));
    let filtered: Vec<usize> = (0..dets.len()).filter(|i| passes(*i)).collect();
    let mut seen = vec![false; dets.len()];
    for &i in &idx {
        if !passes(i) {
            return Err(("nms/kept-filtered-out-box", format!("box {i} does not pass the score/validity filter")));
        }
        if seen[i] {
            return Err(("nms/duplicate-output", format!("box {i} returned twice")));
        }
        seen[i] = true;
    }
    for w in idx.windows(2) {
        if rank(w[1]) > rank(w[0]) {
            return Err(("nms/not-rank-ordered", format!("ranks {} then {}", rank(w[0]), rank(w[1]))));
        }
    }
    if !filtered.is_empty() {
        let maxr = filtered.iter().map(|i| rank(*i)).fold(f32::MIN, f32::max);
        if !idx.iter().any(|i| rank(*i) == maxr) {
            return Err(("nms/top-ranked-dropped", format!("no box of maximal rank {maxr} kept")));
        }
    } else if !idx.is_empty() {
        return Err(("nms/output-from-empty-filter", String::new()));
    }
    let thr = nms_thr as f64;
    // kept boxes are independent: no kept box covered > thr by an earlier kept box
    for (pj, &j) in idx.iter().enumerate() {
        for &i in &idx[..pj] {
            let c = coverage(&dets[i].0, &dets[j].0);
            if c > thr + margin {
                return Err(("nms/kept-box-covered", format!("kept box {j} is covered {c:.4} > {thr} by earlier kept box {i}")));
            }
        }
    }
    // dropped boxes are justified: covered > thr by a kept box of rank >= theirs
    for &d in &filtered {
        if seen[d] {
            continue;
        }
        let mut best = 0.0f64;
        for &k in &idx {
            if rank(k) >= rank(d) {
                best = best.max(coverage(&dets[k].0, &dets[d].0));
            }
        }
        if (margin > 0.0 && best < thr - margin) || (margin == 0.0 && best <= thr) {
            return Err(("nms/dropped-without-cover", format!("dropped box {d} is covered at most {best:.4} <= {thr} by kept boxes of higher or equal rank")));
        }
    }
    // idempotent: applying NMS to its own output (scores carried over) changes nothing
    let again: Vec<(Universal2DBox, Option<f32>)> = idx.iter().map(|i| (dets[*i].0.clone(), dets[*i].1)).collect();
    let out2 = nms(&again, nms_thr, score_thr);
    let base2 = again.as_ptr() as usize;
    let idx2: Vec<usize> = out2.iter().map(|r| (*r as *const Universal2DBox as usize - base2) / stride).collect();
    let ident: Vec<usize> = (0..again.len()).collect();
    if idx2 != ident {
        // boundary cases within the margin may legitimately flip
        let mut near = false;
        for (pj, _) in again.iter().enumerate() {
            for pi in 0..pj {
                let c = coverage(&again[pi].0, &again[pj].0);
                if margin > 0.0 && (c - thr).abs() <= margin {
                    near = true;
                }
            }
        }
        if !near {
            return Err(("nms/not-idempotent", format!("second application returns positions {idx2:?} of {} boxes", again.len())));
        }
    }
    Ok(idx.len())
}

fn dj(d: &[(Universal2DBox, Option<f32>)]) -> serde_json::Value {
    json!(d.iter().map(|(b, s)| json!({"xc":b.xc,"yc":b.yc,"angle":b.angle,"aspect":b.aspect,"height":b.height,"score":s})).collect::<Vec<_>>())
}

pub fn run(tier: Tier) -> Report {
    let rep = Report::new("C14", tier);
    rep.set_rule("every list of n <= 4 (quick) / 5 (thorough) boxes drawn with repetition from an 11-box menu (cluster of shifted boxes, nested, exact duplicate, rotated, disjoint, two corner overlaps, two invalid) x score patterns (all None; every distinct permutation of a prefix of {.9,.5,.5,.1,.7}) x nms threshold {.05,.2,.3,.5,.7} x score threshold {None, below, inside, above the scores, above every box height}; plus every list of 2-3 boxes from 6 small boxes at map coordinates (1e7; 448250 / 5411900), one f32 grid step apart; plus every list of 2-3 boxes of the menu in a small unit (3e-4 and 1e-3: areas down to 1e-6); plus every list of 2-3 boxes from 7 elongated boxes that all carry the same non-zero angle (3 angles; offsets along and across the long side); plus every list of 2-3 boxes from a 5-box rotated cluster in which at least one box had its polygon generated (gen_vertices) before it was moved / turned in place; plus chain / ladder / grid families of k boxes for every k <= 40; plus valid frames judged right after a call that failed on the same thread (a box with its public confidence field outside [0,1] overlapping the top box, every placement in lists of 3..6); plus an exact family: every list of 2 (thorough: 3) boxes from 60 axis-aligned boxes with dyadic corners and sizes x thresholds {1/8,1/4,1/2,3/4}, decided with zero margin (coverage exactly at the threshold must not suppress). Non-trivial = at least two valid boxes.");
    rep.assume("own coverage computation (engine/src/geom.rs); keep/drop decisions asserted outside a 1e-4 margin around the threshold");
    let m = menu();
    let nmax = tier.pick(4usize, 5usize);
    let evals = AtomicU64::new(0);
    let nontrivial = AtomicU64::new(0);
    let kept_hist: Vec<AtomicU64> = (0..8).map(|_| AtomicU64::new(0)).collect();
    let score_base = [0.9f32, 0.5, 0.5, 0.1, 0.7];
    let nms_thrs = [0.05f32, 0.2, 0.3, 0.5, 0.7];
    // 25 lies above every score AND above every box height: an unscored box is ranked by its height but is not
    // subject to the score filter
    let score_thrs = [None, Some(0.05f32), Some(0.5), Some(0.95), Some(25.0)];
    for n in 0..=nmax {
        let total = m.len().pow(n as u32);
        // distinct score patterns
        let mut pats: Vec<Vec<Option<f32>>> = vec![vec![None; n]];
        if n > 0 {
            let mut seen = std::collections::BTreeSet::new();
            for p in super::hung::permutations(n) {
                let s: Vec<u32> = p.iter().map(|i| score_base[*i].to_bits()).collect();
                if seen.insert(s) {
                    pats.push(p.iter().map(|i| Some(score_base[*i])).collect());
                }
            }
            if n == 5 && tier == Tier::Thorough {
                pats.truncate(1 + 12);
            }
            // mixed: some boxes without a score
            let mut mixed: Vec<Option<f32>> = (0..n).map(|i| if i % 2 == 0 { None } else { Some(score_base[i]) }).collect();
            pats.push(mixed.clone());
            mixed.reverse();
            pats.push(mixed);
        }
        par_for(total, 64, |code| {
            let mut k = code;
            let mut boxes = vec![];
            for _ in 0..n {
                boxes.push(m[k % m.len()].clone());
                k /= m.len();
            }
            let nvalid = boxes.iter().filter(|b| valid(b)).count();
            for pat in &pats {
                let dets: Vec<(Universal2DBox, Option<f32>)> = boxes.iter().cloned().zip(pat.iter().cloned()).collect();
                for &nt in &nms_thrs {
                    for &st in &score_thrs {
                        evals.fetch_add(1, Ordering::Relaxed);
                        if nvalid >= 2 {
                            nontrivial.fetch_add(1, Ordering::Relaxed);
                        }
                        match judge(&dets, nt, st) {
                            Ok(kept) => {
                                kept_hist[kept.min(7)].fetch_add(1, Ordering::Relaxed);
                            }
                            Err((key, what)) => rep.violation(Violation { key: key.into(), what, replay: json!({"detections":dj(&dets),"nms_threshold":nt,"score_threshold":st}) }),
                        }
                    }
                }
            }
            if rep.want_sample(code as u64) && n >= 3 {
                rep.sample(json!({"detections":dj(&boxes.iter().cloned().map(|b| (b, None)).collect::<Vec<_>>()),"score_patterns":pats.len()}));
            }
        });
    }
    // exact family: axis-aligned boxes whose corners, sizes, areas and overlap ratios are dyadic
    // rationals, thresholds dyadic: coverage == threshold happens exactly and "more than" is decided
    // with zero margin (any correctly rounded f32 computation is exact on these inputs)
    {
        let mut em: Vec<Universal2DBox> = vec![];
        for (w, h) in [(2.0f32, 2.0f32), (4.0, 4.0), (2.0, 4.0), (4.0, 2.0), (8.0, 2.0)] {
            for l in 0..4 {
                for t in 0..3 {
                    em.push(Universal2DBox::ltwh(l as f32, t as f32, w, h));
                }
            }
        }
        let exact_thrs = [0.125f32, 0.25, 0.5, 0.75];
        let ties = AtomicU64::new(0);
        let nmax = tier.pick(2usize, 3usize);
        for n in 2..=nmax {
            let total = em.len().pow(n as u32);
            par_for(total, 256, |code| {
                let mut k = code;
                let mut boxes = vec![];
                for _ in 0..n {
                    boxes.push(em[k % em.len()].clone());
                    k /= em.len();
                }
                for scores in 0..2 {
                    let dets: Vec<(Universal2DBox, Option<f32>)> = boxes.iter().enumerate().map(|(i, b)| (b.clone(), if scores == 0 { None } else { Some(0.875 - 0.125 * i as f32) })).collect();
                    for &nt in &exact_thrs {
                        evals.fetch_add(1, Ordering::Relaxed);
                        nontrivial.fetch_add(1, Ordering::Relaxed);
                        if (0..n).any(|i| (0..n).any(|j| i != j && coverage(&boxes[i], &boxes[j]) == nt as f64)) {
                            ties.fetch_add(1, Ordering::Relaxed);
                        }
                        if let Err((key, what)) = judge_m(&dets, nt, None, 0.0) {
                            rep.violation(Violation { key: format!("{key}/exact"), what, replay: json!({"family":"exact","detections":dj(&dets),"nms_threshold":nt,"score_threshold":null}) });
                        }
                    }
                }
            });
        }
        rep.extra("exact_family", json!({"menu":em.len(),"max_list_length":nmax,"lists_with_a_coverage_exactly_at_the_threshold":ties.load(Ordering::Relaxed)}));
    }
    // prepared-then-changed boxes: rotated boxes whose polygon was generated (gen_vertices) before they were
    // moved / turned in place; suppression is judged on the boxes as they are when nms() is called
    {
        let rm: Vec<Universal2DBox> = vec![
            Universal2DBox::new(5.0, 10.0, Some(0.4), 0.5, 22.0),
            Universal2DBox::new(6.0, 11.0, Some(0.5), 0.5, 20.0),
            Universal2DBox::new(5.0, 10.0, Some(1.2), 0.4, 24.0),
            Universal2DBox::new(9.0, 14.0, Some(-0.3), 0.6, 18.0),
            Universal2DBox::new(5.5, 10.0, Some(0.4 + std::f32::consts::PI / 2.0), 2.0, 10.0),
        ];
        let prep = |t: &Universal2DBox, how: usize| -> Universal2DBox {
            match how {
                0 => t.clone(),
                1 => {
                    let mut b = Universal2DBox::new(t.xc + 40.0, t.yc - 25.0, t.angle, t.aspect, t.height);
                    b.gen_vertices();
                    b.xc = t.xc;
                    b.yc = t.yc;
                    b
                }
                2 => {
                    let mut b = Universal2DBox::new(t.xc, t.yc, Some(t.angle.unwrap_or(0.0) + 1.3), t.aspect, t.height);
                    b.gen_vertices();
                    b.rotate_mut(t.angle.unwrap_or(0.0));
                    b
                }
                _ => {
                    let mut b = t.clone();
                    b.gen_vertices();
                    b
                }
            }
        };
        let mut lists = 0u64;
        for n in 2..=3usize {
            let total = (rm.len() * 4).pow(n as u32);
            par_for(total, 64, |code| {
                let mut k = code;
                let mut spec = vec![];
                let mut changed = false;
                for _ in 0..n {
                    let (bi, how) = (k % rm.len(), (k / rm.len()) % 4);
                    k /= rm.len() * 4;
                    changed |= how == 1 || how == 2;
                    spec.push((bi, how));
                }
                if !changed {
                    return;
                }
                for scores in 0..2 {
                    // (Universal2DBox::clone drops the cached polygon, so every list is prepared anew)
                    let dets: Vec<(Universal2DBox, Option<f32>)> = spec.iter().enumerate().map(|(i, (bi, how))| (prep(&rm[*bi], *how), if scores == 0 { None } else { Some(0.9 - 0.2 * i as f32) })).collect();
                    for &nt in &[0.2f32, 0.5] {
                        evals.fetch_add(1, Ordering::Relaxed);
                        nontrivial.fetch_add(1, Ordering::Relaxed);
                        if let Err((key, what)) = judge(&dets, nt, None) {
                            rep.violation(Violation { key: format!("{key}/prepared-then-changed-box"), what, replay: json!({"family":"prepared-then-changed","detections":dj(&dets),"nms_threshold":nt,"code":code}) });
                        }
                    }
                }
            });
            lists += total as u64;
        }
        rep.extra("prepared_then_changed_lists", json!(lists));
    }
    // map coordinates: plain (angle None) 3x3 boxes at x = y = 1e7 and 1.5 m objects at (448250, 5411900), one
    // f32 grid step apart: coverage 2/3, 1/3 ... decided by the usual margin
    {
        let mut lists = 0u64;
        for (cx, cy, sp, w) in [(1e7f32, 1e7f32, 1.0f32, 3.0f32), (448250.0, 5411900.0, 0.5, 1.5)] {
            for ang in [None, Some(0.0f32)] {
                let mm: Vec<Universal2DBox> = [(0, 0), (1, 0), (2, 0), (1, 1), (0, 2), (5, 5)].iter().map(|(i, j)| Universal2DBox::new(cx + *i as f32 * sp, cy + *j as f32 * sp, ang, 1.0, w)).collect();
                for n in 2..=3usize {
                    let total = mm.len().pow(n as u32);
                    par_for(total, 32, |code| {
                        let mut k = code;
                        let mut boxes = vec![];
                        for _ in 0..n {
                            boxes.push(mm[k % mm.len()].clone());
                            k /= mm.len();
                        }
                        let dets: Vec<(Universal2DBox, Option<f32>)> = boxes.iter().enumerate().map(|(i, b)| (b.clone(), Some(0.9 - 0.2 * i as f32))).collect();
                        for &nt in &[0.2f32, 0.5, 0.7] {
                            evals.fetch_add(1, Ordering::Relaxed);
                            nontrivial.fetch_add(1, Ordering::Relaxed);
                            if let Err((key, what)) = judge(&dets, nt, None) {
                                rep.violation(Violation { key: format!("{key}/map-coordinates"), what, replay: json!({"family":"map coordinates","detections":dj(&dets),"nms_threshold":nt}) });
                            }
                        }
                    });
                    lists += total as u64;
                }
            }
        }
        rep.extra("map_coordinate_lists", json!(lists));
    }
    // the menu in a small unit (coordinates normalised to the frame: an object a few pixels across has an area of
    // 1e-5 and less): coverage is a ratio of areas and has no absolute scale
    {
        let mut lists = 0u64;
        for unit in [3.0e-4f32, 1.0e-3] {
            let sm: Vec<Universal2DBox> = m.iter().filter(|b| valid(b)).map(|b| Universal2DBox::new_with_confidence(b.xc * unit, b.yc * unit, b.angle, b.aspect, b.height * unit, b.confidence)).collect();
            for n in 2..=3usize {
                let total = sm.len().pow(n as u32);
                par_for(total, 32, |code| {
                    let mut k = code;
                    let mut boxes = vec![];
                    for _ in 0..n {
                        boxes.push(sm[k % sm.len()].clone());
                        k /= sm.len();
                    }
                    for scored in [true, false] {
                        let dets: Vec<(Universal2DBox, Option<f32>)> = boxes.iter().enumerate().map(|(i, b)| (b.clone(), if scored { Some(0.9 - 0.2 * i as f32) } else { None })).collect();
                        for &nt in &[0.2f32, 0.5, 0.7] {
                            evals.fetch_add(1, Ordering::Relaxed);
                            nontrivial.fetch_add(1, Ordering::Relaxed);
                            if let Err((key, what)) = judge(&dets, nt, None) {
                                rep.violation(Violation { key: format!("{key}/small-unit"), what, replay: json!({"family":"small unit","unit":unit,"detections":dj(&dets),"nms_threshold":nt}) });
                            }
                        }
                    }
                });
                lists += total as u64;
            }
        }
        rep.extra("small_unit_lists", json!(lists));
    }
    // equally oriented boxes: elongated boxes that all carry the SAME non-zero angle (an oriented detector's
    // output for parallel objects); centres offset along and across the long side
    {
        let mut lists = 0u64;
        for ang in [0.4f32, std::f32::consts::FRAC_PI_2, 2.0] {
            let (s, c) = (ang as f64).sin_cos();
            // offsets (u along the width axis, v along the height axis) in the box frame; box 2 wide, 10 high
            let offs: Vec<(f64, f64)> = vec![(0.0, 0.0), (0.0, 2.0), (0.0, 6.0), (1.0, 0.0), (3.0, 0.0), (1.0, 4.0), (0.5, 9.0)];
            let sm: Vec<Universal2DBox> = offs.iter().map(|(u, v)| Universal2DBox::new((50.0 + u * c - v * s) as f32, (20.0 + u * s + v * c) as f32, Some(ang), 0.2, 10.0)).collect();
            for n in 2..=3usize {
                let total = sm.len().pow(n as u32);
                par_for(total, 32, |code| {
                    let mut k = code;
                    let mut boxes = vec![];
                    for _ in 0..n {
                        boxes.push(sm[k % sm.len()].clone());
                        k /= sm.len();
                    }
                    for scores in 0..2 {
                        let dets: Vec<(Universal2DBox, Option<f32>)> = boxes.iter().enumerate().map(|(i, b)| (b.clone(), if scores == 0 { None } else { Some(0.9 - 0.2 * i as f32) })).collect();
                        for &nt in &[0.2f32, 0.3, 0.5, 0.7] {
                            evals.fetch_add(1, Ordering::Relaxed);
                            nontrivial.fetch_add(1, Ordering::Relaxed);
                            if let Err((key, what)) = judge(&dets, nt, None) {
                                rep.violation(Violation { key: format!("{key}/equally-oriented-boxes"), what, replay: json!({"family":"equally-oriented","detections":dj(&dets),"nms_threshold":nt}) });
                            }
                        }
                    }
                });
                lists += total as u64;
            }
        }
        rep.extra("equally_oriented_lists", json!(lists));
    }
    // valid frames after a frame on which nms() failed: a box whose public `confidence` field was set outside [0, 1]
    // makes the intersection computation panic half-way through the suppression loop; a caller that recovers
    // (catch_unwind, the Python layer's exception) goes on with valid frames on the same thread - what those return
    // is a function of their input alone
    {
        let prev_hook = std::panic::take_hook();
        std::panic::set_hook(Box::new(|_| {}));
        let mut failed_calls = 0u64;
        let mut follow_ups = 0u64;
        for n_poison in 3..=6usize {
            for dup_at in 0..n_poison {
                for bad_at in 0..n_poison {
                    for top_at in 0..n_poison {
                        if dup_at == bad_at || dup_at == top_at || bad_at == top_at {
                            continue;
                        }
                        // top box, its near-duplicate (suppressed first), a box with an invalid confidence that
                        // overlaps the top box, everything else far away
                        let mut poison: Vec<(Universal2DBox, Option<f32>)> = (0..n_poison).map(|i| (Universal2DBox::ltwh(500.0 + 60.0 * i as f32, 300.0, 10.0, 20.0), Some(0.3 + 0.01 * i as f32))).collect();
                        poison[top_at] = (Universal2DBox::ltwh(0.0, 0.0, 10.0, 20.0), Some(0.95));
                        poison[dup_at] = (Universal2DBox::ltwh(0.5, 0.0, 10.0, 20.0), Some(0.9));
                        let mut bad = Universal2DBox::ltwh(6.0, 0.0, 10.0, 20.0);
                        bad.confidence = 1.5;
                        poison[bad_at] = (bad, Some(0.85));
                        let r = std::panic::catch_unwind(std::panic::AssertUnwindSafe(|| nms(&poison, 0.5, None).len()));
                        if r.is_err() {
                            failed_calls += 1;
                        }
                        // valid follow-up frames on the same thread: disjoint boxes (all kept), and a frame with one
                        // real suppression
                        for n in [2usize, 4, 7] {
                            let disjoint: Vec<(Universal2DBox, Option<f32>)> = (0..n).map(|i| (Universal2DBox::ltwh(40.0 * i as f32, 10.0, 10.0, 20.0), Some(0.99 - 0.1 * i as f32))).collect();
                            let mut one_pair = disjoint.clone();
                            one_pair.push((Universal2DBox::ltwh(1.0, 10.0, 10.0, 20.0), Some(0.2)));
                            for dets in [disjoint, one_pair] {
                                follow_ups += 1;
                                evals.fetch_add(1, Ordering::Relaxed);
                                nontrivial.fetch_add(1, Ordering::Relaxed);
                                if let Err((key, what)) = judge(&dets, 0.5, None) {
                                    rep.violation(Violation { key: format!("{key}/after-a-failed-call"), what: format!("after a call that {} on this thread: {what}", if r.is_err() { "panicked" } else { "returned" }), replay: json!({"family":"valid frames after a failed call","failed_call":dj(&poison),"invalid_confidence_at":bad_at,"detections":dj(&dets),"nms_threshold":0.5,"score_threshold":null}) });
                                }
                            }
                        }
                    }
                }
            }
        }
        std::panic::set_hook(prev_hook);
        rep.extra("valid_frames_after_a_failed_call", json!({"calls_that_failed":failed_calls,"follow_up_frames":follow_ups}));
    }
    // families for every k <= 40
    for k in 1..=40usize {
        let mut fams: Vec<(&str, Vec<Universal2DBox>)> = vec![];
        // chain: each box overlaps the next by 60%
        fams.push(("chain", (0..k).map(|i| Universal2DBox::ltwh(i as f32 * 4.0, 0.0, 10.0, 20.0 + (i % 3) as f32)).collect()));
        // ladder: nested boxes growing
        fams.push(("ladder", (0..k).map(|i| Universal2DBox::ltwh(-(i as f32), -(i as f32), 4.0 + 2.0 * i as f32, 6.0 + 2.0 * i as f32)).collect()));
        // grid: sparse, non-overlapping
        let side = (k as f64).sqrt().ceil() as usize;
        fams.push(("grid", (0..k).map(|i| Universal2DBox::ltwh((i % side) as f32 * 30.0, (i / side) as f32 * 30.0, 10.0, 15.0 + (i % 4) as f32)).collect()));
        // rotated fan around one centre
        fams.push(("fan", (0..k).map(|i| Universal2DBox::new(0.0, 0.0, Some(i as f32 * 0.17 + 0.05), 0.3, 20.0 + i as f32 * 0.25)).collect()));
        for (name, boxes) in fams {
            for scores in 0..3 {
                let dets: Vec<(Universal2DBox, Option<f32>)> = boxes
                    .iter()
                    .enumerate()
                    .map(|(i, b)| {
                        (b.clone(), match scores {
                            0 => None,
                            1 => Some(0.1 + 0.02 * i as f32),
                            _ => Some(0.95 - 0.02 * i as f32),
                        })
                    })
                    .collect();
                for &nt in &nms_thrs {
                    for &st in &[None, Some(0.3f32)] {
                        evals.fetch_add(1, Ordering::Relaxed);
                        if k >= 2 {
                            nontrivial.fetch_add(1, Ordering::Relaxed);
                        }
                        if let Err((key, what)) = judge(&dets, nt, st) {
                            rep.violation(Violation { key: key.into(), what, replay: json!({"family":name,"k":k,"scores":scores,"detections":dj(&dets),"nms_threshold":nt,"score_threshold":st}) });
                        }
                    }
                }
            }
        }
    }
    let e = evals.load(Ordering::Relaxed);
    rep.add(e, e, e, e);
    rep.distinct_count(nontrivial.load(Ordering::Relaxed));
    rep.extra("kept_count_histogram", json!(kept_hist.iter().map(|a| a.load(Ordering::Relaxed)).collect::<Vec<_>>()));
    rep
}
