//! Uniform driver over the four trackers (Sort, BatchSort, VisualSort, BatchVisualSort): detection
//! menus, canonical records / wasted records / store dumps. Used by the tracker-level checks.

use similari::prelude::*;
use similari::track::utils::FromVec;
use similari::track::Track;
use similari::trackers::batch::{PredictionBatchRequest, PredictionBatchResult};
use similari::trackers::kalman_prediction::TrackAttributesKalmanPrediction;
use similari::trackers::sort::batch_api::BatchSort as BSortT;
use similari::trackers::sort::metric::SortMetric;
use similari::trackers::sort::{SortAttributes, VotingType, WastedSortTrack};
use similari::trackers::tracker_api::TrackerAPI;
use similari::trackers::visual_sort::batch_api::BatchVisualSort;
use similari::trackers::visual_sort::metric::VisualMetric;
use similari::trackers::visual_sort::observation_attributes::VisualObservationAttributes;
use similari::trackers::visual_sort::track_attributes::VisualAttributes;
use similari::trackers::visual_sort::WastedVisualSortTrack;

pub type BoxR = [u32; 6]; // xc, yc, angle (u32::MAX = None), aspect, height, confidence

pub fn box_r(b: &Universal2DBox) -> BoxR {
    [
        b.xc.to_bits(),
        b.yc.to_bits(),
        b.angle.map(|a| a.to_bits()).unwrap_or(u32::MAX),
        b.aspect.to_bits(),
        b.height.to_bits(),
        b.confidence.to_bits(),
    ]
}

pub fn box_f(r: &BoxR) -> [f32; 6] {
    [
        f32::from_bits(r[0]),
        f32::from_bits(r[1]),
        if r[2] == u32::MAX { 0.0 } else { f32::from_bits(r[2]) },
        f32::from_bits(r[3]),
        f32::from_bits(r[4]),
        f32::from_bits(r[5]),
    ]
}

pub fn box_u(r: &BoxR) -> Universal2DBox {
    Universal2DBox::new_with_confidence(
        f32::from_bits(r[0]),
        f32::from_bits(r[1]),
        if r[2] == u32::MAX { None } else { Some(f32::from_bits(r[2])) },
        f32::from_bits(r[3]),
        f32::from_bits(r[4]),
        f32::from_bits(r[5]),
    )
}

#[derive(Clone, Debug, PartialEq)]
pub struct Det {
    pub bbox: Universal2DBox,
    pub custom_id: Option<i64>,
    pub feature: Option<Vec<f32>>,
    pub quality: Option<f32>,
}

impl Det {
    pub fn ltwh(l: f32, t: f32, w: f32, h: f32) -> Det {
        Det { bbox: Universal2DBox::ltwh(l, t, w, h), custom_id: None, feature: None, quality: None }
    }
    pub fn conf(mut self, c: f32) -> Det {
        self.bbox = Universal2DBox::new_with_confidence(self.bbox.xc, self.bbox.yc, self.bbox.angle, self.bbox.aspect, self.bbox.height, c);
        self
    }
    pub fn rot(mut self, a: f32) -> Det {
        self.bbox = self.bbox.rotate(a);
        self
    }
    pub fn cid(mut self, c: i64) -> Det {
        self.custom_id = Some(c);
        self
    }
    pub fn feat(mut self, f: &[f32], q: f32) -> Det {
        self.feature = Some(f.to_vec());
        self.quality = Some(q);
        self
    }
    pub fn shift(&self, dx: f32, dy: f32) -> Det {
        let mut d = self.clone();
        d.bbox = Universal2DBox::new_with_confidence(d.bbox.xc + dx, d.bbox.yc + dy, d.bbox.angle, d.bbox.aspect, d.bbox.height, d.bbox.confidence);
        d
    }
    pub fn json(&self) -> serde_json::Value {
        serde_json::json!({"xc":self.bbox.xc,"yc":self.bbox.yc,"angle":self.bbox.angle,"aspect":self.bbox.aspect,"height":self.bbox.height,"conf":self.bbox.confidence,"custom_id":self.custom_id,"feature":self.feature,"quality":self.quality})
    }
}

#[derive(Clone, Debug, PartialEq, Eq, Hash, PartialOrd, Ord)]
pub struct Rec {
    pub id: u64,
    pub epoch: usize,
    pub scene: u64,
    pub length: usize,
    pub custom: Option<i64>,
    pub visual: bool,
    pub observed: BoxR,
    pub predicted: BoxR,
}

impl From<&SortTrack> for Rec {
    fn from(t: &SortTrack) -> Rec {
        Rec {
            id: t.id,
            epoch: t.epoch,
            scene: t.scene_id,
            length: t.length,
            custom: t.custom_object_id,
            visual: matches!(t.voting_type, VotingType::Visual),
            observed: box_r(&t.observed_bbox),
            predicted: box_r(&t.predicted_bbox),
        }
    }
}

#[derive(Clone, Debug, PartialEq, Eq, Hash, PartialOrd, Ord)]
pub struct WRec {
    pub id: u64,
    pub epoch: usize,
    pub scene: u64,
    pub length: usize,
    pub observed: BoxR,
    pub predicted: BoxR,
    pub observed_boxes: Vec<BoxR>,
    pub predicted_boxes: Vec<BoxR>,
    pub features: Option<Vec<Option<Vec<u32>>>>,
}

impl From<WastedSortTrack> for WRec {
    fn from(t: WastedSortTrack) -> WRec {
        WRec {
            id: t.id,
            epoch: t.epoch,
            scene: t.scene_id,
            length: t.length,
            observed: box_r(&t.observed_bbox),
            predicted: box_r(&t.predicted_bbox),
            observed_boxes: t.observed_boxes.iter().map(box_r).collect(),
            predicted_boxes: t.predicted_boxes.iter().map(box_r).collect(),
            features: None,
        }
    }
}

impl From<WastedVisualSortTrack> for WRec {
    fn from(t: WastedVisualSortTrack) -> WRec {
        WRec {
            id: t.id,
            epoch: t.epoch,
            scene: t.scene_id,
            length: t.length,
            observed: box_r(&t.observed_bbox),
            predicted: box_r(&t.predicted_bbox),
            observed_boxes: t.observed_boxes.iter().map(box_r).collect(),
            predicted_boxes: t.predicted_boxes.iter().map(box_r).collect(),
            features: Some(t.observed_features.iter().map(|f| f.as_ref().map(|v| v.iter().map(|x| x.to_bits()).collect())).collect()),
        }
    }
}

/// gallery / class-0 observation entry: (box, quality, own-area share, feature)
pub type ObsR = (Option<BoxR>, u32, Option<u32>, Option<Vec<u32>>);

#[derive(Clone, Debug, PartialEq, Eq, Hash, PartialOrd, Ord)]
pub struct Stored {
    pub id: u64,
    pub scene: u64,
    pub last_epoch: usize,
    pub length: usize,
    pub custom: Option<i64>,
    pub voting: Option<bool>,
    pub observed: Vec<BoxR>,
    pub predicted: Vec<BoxR>,
    pub feat_hist: Vec<Option<Vec<u32>>>,
    pub collected: usize,
    pub kalman: Option<(Vec<u32>, Vec<u32>)>,
    pub obs0: Vec<ObsR>,
    pub classes: Vec<u64>,
    pub merge_history: Vec<u64>,
}

fn kal<T: TrackAttributesKalmanPrediction>(a: &T) -> Option<(Vec<u32>, Vec<u32>)> {
    a.get_state().map(|s| {
        let (m, c) = s.verif_raw();
        (m.iter().map(|x| x.to_bits()).collect(), c.iter().map(|x| x.to_bits()).collect())
    })
}

pub fn stored_sort(t: &Track<SortAttributes, SortMetric, Universal2DBox>) -> Stored {
    let a = t.get_attributes();
    let mut classes = t.get_feature_classes();
    classes.sort();
    Stored {
        id: t.get_track_id(),
        scene: a.scene_id,
        last_epoch: a.last_updated_epoch,
        length: a.track_length,
        custom: a.custom_object_id,
        voting: None,
        observed: a.observed_boxes.iter().map(box_r).collect(),
        predicted: a.predicted_boxes.iter().map(box_r).collect(),
        feat_hist: vec![],
        collected: 0,
        kalman: kal(a),
        obs0: t
            .get_observations(0)
            .map(|v| v.iter().map(|o| (o.attr().as_ref().map(box_r), 0, None, o.feature().as_ref().map(|f| Vec::<f32>::from_vec(f).iter().map(|x| x.to_bits()).collect()))).collect())
            .unwrap_or_default(),
        classes,
        // the first entry is the random id the candidate track was born with: not part of the canonical state
        merge_history: vec![t.get_merge_history().len() as u64],
    }
}

pub fn stored_visual(t: &Track<VisualAttributes, VisualMetric, VisualObservationAttributes>) -> Stored {
    let a = t.get_attributes();
    let mut classes = t.get_feature_classes();
    classes.sort();
    Stored {
        id: t.get_track_id(),
        scene: a.scene_id,
        last_epoch: a.last_updated_epoch,
        length: a.track_length,
        custom: a.custom_object_id,
        voting: a.voting_type.map(|v| matches!(v, VotingType::Visual)),
        observed: a.observed_boxes.iter().map(box_r).collect(),
        predicted: a.predicted_boxes.iter().map(box_r).collect(),
        feat_hist: a.observed_features.iter().map(|f| f.as_ref().map(|f| Vec::<f32>::from_vec(f).iter().map(|x| x.to_bits()).collect())).collect(),
        collected: a.visual_features_collected_count,
        kalman: kal(a),
        obs0: t
            .get_observations(0)
            .map(|v| {
                v.iter()
                    .map(|o| {
                        let at = o.attr().as_ref();
                        (
                            at.and_then(|x| x.bbox_opt().as_ref().map(box_r)),
                            at.map(|x| x.visual_quality().to_bits()).unwrap_or(0),
                            at.and_then(|x| x.own_area_percentage_opt().map(|p| p.to_bits())),
                            o.feature().as_ref().map(|f| Vec::<f32>::from_vec(f).iter().map(|x| x.to_bits()).collect()),
                        )
                    })
                    .collect()
            })
            .unwrap_or_default(),
        classes,
        merge_history: vec![t.get_merge_history().len() as u64],
    }
}

#[derive(Clone, Copy, Debug, PartialEq, Eq, Hash)]
pub enum Kind {
    Sort,
    BatchSort,
    VisualSort,
    BatchVisualSort,
}

impl Kind {
    pub fn all() -> [Kind; 4] {
        [Kind::Sort, Kind::BatchSort, Kind::VisualSort, Kind::BatchVisualSort]
    }
    pub fn is_batch(self) -> bool {
        matches!(self, Kind::BatchSort | Kind::BatchVisualSort)
    }
    pub fn is_visual(self) -> bool {
        matches!(self, Kind::VisualSort | Kind::BatchVisualSort)
    }
    pub fn name(self) -> &'static str {
        match self {
            Kind::Sort => "Sort",
            Kind::BatchSort => "BatchSort",
            Kind::VisualSort => "VisualSort",
            Kind::BatchVisualSort => "BatchVisualSort",
        }
    }
}

#[derive(Clone, Copy, Debug, PartialEq)]
pub enum Pos {
    Iou(f32),
    Maha,
}

#[derive(Clone, Copy, Debug, PartialEq)]
pub enum Vis {
    Euclid(f32),
    Cosine(f32),
}

#[derive(Clone, Debug)]
pub struct VisOpts {
    pub metric: Vis,
    pub min_votes: usize,
    pub min_track_len: usize,
    pub max_obs: usize,
    pub q_use: f32,
    pub q_collect: f32,
    pub min_area: f32,
    pub own_use: f32,
    pub own_collect: f32,
}

impl Default for VisOpts {
    fn default() -> Self {
        VisOpts { metric: Vis::Euclid(0.5), min_votes: 1, min_track_len: 1, max_obs: 3, q_use: 0.0, q_collect: 0.0, min_area: 0.0, own_use: 0.0, own_collect: 0.0 }
    }
}

#[derive(Clone, Debug)]
pub struct TrkCfg {
    pub kind: Kind,
    pub shards: usize,
    pub voting_shards: usize,
    pub history: usize,
    pub max_idle: usize,
    pub pos: Pos,
    pub min_conf: f32,
    pub constraints: Option<Vec<(usize, f32)>>,
    pub vis: VisOpts,
    pub kalman_w: (f32, f32),
    /// period of the store-wide collection of expired tracks (None: the library's default, 100)
    pub auto_waste: Option<usize>,
}

impl TrkCfg {
    pub fn new(kind: Kind) -> TrkCfg {
        TrkCfg { kind, shards: 1, voting_shards: 1, history: 1, max_idle: 2, pos: Pos::Iou(0.3), min_conf: 0.05, constraints: None, vis: VisOpts::default(), kalman_w: (1.0 / 20.0, 1.0 / 160.0), auto_waste: None }
    }
    pub fn json(&self) -> serde_json::Value {
        let v = &self.vis;
        serde_json::json!({"kind":self.kind.name(),"shards":self.shards,"voting_shards":self.voting_shards,"history":self.history,"max_idle":self.max_idle,
            "positional":match self.pos { Pos::Iou(t) => serde_json::json!({"iou":t}), Pos::Maha => serde_json::json!("mahalanobis") },
            "min_conf":self.min_conf,"constraints":self.constraints,"kalman_weights":[self.kalman_w.0,self.kalman_w.1],"auto_waste_period":self.auto_waste,
            "visual":{"metric":match v.metric { Vis::Euclid(t) => serde_json::json!({"euclidean":t}), Vis::Cosine(t) => serde_json::json!({"cosine":t}) },
                "min_votes":v.min_votes,"min_track_len":v.min_track_len,"max_obs":v.max_obs,"q_use":v.q_use,"q_collect":v.q_collect,"min_area":v.min_area,"own_use":v.own_use,"own_collect":v.own_collect}})
    }

    /// inverse of `json()` (replay files)
    pub fn from_json(j: &serde_json::Value) -> Option<TrkCfg> {
        let kind = match j["kind"].as_str()? {
            "Sort" => Kind::Sort,
            "BatchSort" => Kind::BatchSort,
            "VisualSort" => Kind::VisualSort,
            "BatchVisualSort" => Kind::BatchVisualSort,
            _ => return None,
        };
        let f = |v: &serde_json::Value| v.as_f64().map(|x| x as f32);
        let mut c = TrkCfg::new(kind);
        c.shards = j["shards"].as_u64()? as usize;
        c.voting_shards = j["voting_shards"].as_u64()? as usize;
        c.history = j["history"].as_u64()? as usize;
        c.max_idle = j["max_idle"].as_u64()? as usize;
        c.pos = if j["positional"].is_string() { Pos::Maha } else { Pos::Iou(f(&j["positional"]["iou"])?) };
        c.min_conf = f(&j["min_conf"])?;
        c.constraints = j["constraints"].as_array().map(|a| a.iter().filter_map(|e| Some((e[0].as_u64()? as usize, f(&e[1])?))).collect());
        c.kalman_w = (f(&j["kalman_weights"][0])?, f(&j["kalman_weights"][1])?);
        c.auto_waste = j["auto_waste_period"].as_u64().map(|x| x as usize);
        let v = &j["visual"];
        c.vis = VisOpts {
            metric: if v["metric"]["euclidean"].is_number() { Vis::Euclid(f(&v["metric"]["euclidean"])?) } else { Vis::Cosine(f(&v["metric"]["cosine"])?) },
            min_votes: v["min_votes"].as_u64()? as usize,
            min_track_len: v["min_track_len"].as_u64()? as usize,
            max_obs: v["max_obs"].as_u64()? as usize,
            q_use: f(&v["q_use"])?,
            q_collect: f(&v["q_collect"])?,
            min_area: f(&v["min_area"])?,
            own_use: f(&v["own_use"])?,
            own_collect: f(&v["own_collect"])?,
        };
        Some(c)
    }
    fn pos_type(&self) -> PositionalMetricType {
        match self.pos {
            Pos::Iou(t) => PositionalMetricType::IoU(t),
            Pos::Maha => PositionalMetricType::Mahalanobis,
        }
    }
    fn stc(&self) -> Option<SpatioTemporalConstraints> {
        self.constraints.as_ref().map(|c| SpatioTemporalConstraints::default().constraints(c))
    }
    fn vopts(&self) -> VisualSortOptions {
        let v = &self.vis;
        let mut o = VisualSortOptions::default()
            .max_idle_epochs(self.max_idle)
            .kept_history_length(self.history)
            .visual_metric(match v.metric {
                Vis::Euclid(t) => VisualSortMetricType::euclidean(t),
                Vis::Cosine(t) => VisualSortMetricType::cosine(t),
            })
            .positional_metric(self.pos_type())
            .visual_min_votes(v.min_votes)
            .visual_minimal_track_length(v.min_track_len)
            .visual_max_observations(v.max_obs)
            .visual_minimal_quality_use(v.q_use)
            .visual_minimal_quality_collect(v.q_collect)
            .visual_minimal_area(v.min_area)
            .visual_minimal_own_area_percentage_use(v.own_use)
            .visual_minimal_own_area_percentage_collect(v.own_collect)
            .positional_min_confidence(self.min_conf.max(0.01))
            .kalman_position_weight(self.kalman_w.0)
            .kalman_velocity_weight(self.kalman_w.1);
        if let Some(c) = self.stc() {
            o = o.spatio_temporal_constraints(c);
        }
        o
    }
}

pub enum AnyTrk {
    Sort(Sort),
    BSort(BSortT),
    VSort(VisualSort),
    BVSort(BatchVisualSort),
}

/// custom id that marks a detection the library must REJECT: at the call boundary its box gets a confidence
/// outside [0, 1] (the field is public; the library answers with a panic while it builds the candidates)
pub const REJECT_ID: i64 = -987_654;

pub fn has_rejected(d: &[Det]) -> bool {
    d.iter().any(|x| x.custom_id == Some(REJECT_ID))
}

fn call_box(x: &Det) -> Universal2DBox {
    if x.custom_id == Some(REJECT_ID) {
        let mut b = Universal2DBox::new(x.bbox.xc, x.bbox.yc, x.bbox.angle, x.bbox.aspect, x.bbox.height);
        b.confidence = 1.5;
        b
    } else {
        x.bbox.clone()
    }
}

fn sort_dets(d: &[Det]) -> Vec<(Universal2DBox, Option<i64>)> {
    d.iter().map(|x| (call_box(x), x.custom_id)).collect()
}

impl AnyTrk {
    pub fn new(c: &TrkCfg) -> AnyTrk {
        let mut t = Self::build(c);
        if let Some(p) = c.auto_waste {
            t.set_auto_waste(p);
        }
        t
    }

    fn build(c: &TrkCfg) -> AnyTrk {
        match c.kind {
            Kind::Sort => AnyTrk::Sort(Sort::new(c.shards, c.history, c.max_idle, c.pos_type(), c.min_conf, c.stc(), c.kalman_w.0, c.kalman_w.1)),
            Kind::BatchSort => AnyTrk::BSort(BSortT::new(c.shards, c.voting_shards, c.history, c.max_idle, c.pos_type(), c.min_conf, c.stc(), c.kalman_w.0, c.kalman_w.1)),
            Kind::VisualSort => AnyTrk::VSort(VisualSort::new(c.shards, &c.vopts())),
            Kind::BatchVisualSort => AnyTrk::BVSort(BatchVisualSort::new(c.shards, c.voting_shards, &c.vopts())),
        }
    }

    /// one call for one scene (batch trackers: a batch holding that scene, all results retrieved)
    pub fn predict(&mut self, scene: u64, dets: &[Det]) -> Vec<Rec> {
        if has_rejected(dets) && matches!(self, AnyTrk::Sort(_) | AnyTrk::VSort(_)) {
            // a call the library rejects: the caller recovers and goes on using the tracker
            return std::panic::catch_unwind(std::panic::AssertUnwindSafe(|| self.predict_inner(scene, dets))).unwrap_or_default();
        }
        self.predict_inner(scene, dets)
    }

    fn predict_inner(&mut self, scene: u64, dets: &[Det]) -> Vec<Rec> {
        match self {
            // scene 0 goes through the scene-less convenience entry points (they must mean scene 0)
            AnyTrk::Sort(t) if scene == 0 => t.predict(&sort_dets(dets)).iter().map(Rec::from).collect(),
            AnyTrk::Sort(t) => t.predict_with_scene(scene, &sort_dets(dets)).iter().map(Rec::from).collect(),
            AnyTrk::VSort(t) => {
                let obs: Vec<VisualSortObservation> = dets.iter().map(|d| VisualSortObservation::new(d.feature.as_deref(), d.quality, call_box(d), d.custom_id)).collect();
                if scene == 0 {
                    t.predict(&obs).iter().map(Rec::from).collect()
                } else {
                    t.predict_with_scene(scene, &obs).iter().map(Rec::from).collect()
                }
            }
            _ => {
                let mut r = self.predict_batch(&[(scene, dets.to_vec())]);
                if dets.is_empty() {
                    return vec![];
                }
                assert_eq!(r.len(), 1, "one scene submitted, {} results", r.len());
                r.pop().unwrap().1
            }
        }
    }

    /// submit a batch to a batch tracker and return the result handle without retrieving anything
    pub fn submit_batch(&mut self, batch: &[(u64, Vec<Det>)]) -> PredictionBatchResult {
        match self {
            AnyTrk::BSort(t) => {
                let (mut req, res) = PredictionBatchRequest::<(Universal2DBox, Option<i64>)>::new();
                for (s, ds) in batch {
                    for d in ds {
                        req.add(*s, (d.bbox.clone(), d.custom_id));
                    }
                }
                t.predict(req);
                res
            }
            AnyTrk::BVSort(t) => {
                let (mut req, res) = PredictionBatchRequest::<VisualSortObservation>::new();
                for (s, ds) in batch {
                    for d in ds {
                        req.add(*s, VisualSortObservation::new(d.feature.as_deref(), d.quality, d.bbox.clone(), d.custom_id));
                    }
                }
                t.predict(req);
                res
            }
            _ => unreachable!("submit_batch on a simple tracker"),
        }
    }

    /// submit a batch; retrieve every result (in arrival order)
    pub fn predict_batch(&mut self, batch: &[(u64, Vec<Det>)]) -> Vec<(u64, Vec<Rec>)> {
        match self {
            AnyTrk::BSort(t) => {
                let (mut req, res) = PredictionBatchRequest::<(Universal2DBox, Option<i64>)>::new();
                for (s, ds) in batch {
                    for d in ds {
                        req.add(*s, (d.bbox.clone(), d.custom_id));
                    }
                }
                t.predict(req);
                (0..res.batch_size()).map(|_| res.get()).map(|(s, v)| (s, v.iter().map(Rec::from).collect())).collect()
            }
            AnyTrk::BVSort(t) => {
                let (mut req, res) = PredictionBatchRequest::<VisualSortObservation>::new();
                for (s, ds) in batch {
                    for d in ds {
                        req.add(*s, VisualSortObservation::new(d.feature.as_deref(), d.quality, d.bbox.clone(), d.custom_id));
                    }
                }
                t.predict(req);
                (0..res.batch_size()).map(|_| res.get()).map(|(s, v)| (s, v.iter().map(Rec::from).collect())).collect()
            }
            _ => batch.iter().map(|(s, d)| (*s, self.predict(*s, d))).collect(),
        }
    }

    pub fn skip(&mut self, scene: u64, n: usize) {
        if scene == 0 {
            return match self {
                AnyTrk::Sort(t) => t.skip_epochs(n),
                AnyTrk::BSort(t) => t.skip_epochs(n),
                AnyTrk::VSort(t) => t.skip_epochs(n),
                AnyTrk::BVSort(t) => t.skip_epochs(n),
            };
        }
        match self {
            AnyTrk::Sort(t) => t.skip_epochs_for_scene(scene, n),
            AnyTrk::BSort(t) => t.skip_epochs_for_scene(scene, n),
            AnyTrk::VSort(t) => t.skip_epochs_for_scene(scene, n),
            AnyTrk::BVSort(t) => t.skip_epochs_for_scene(scene, n),
        }
    }

    pub fn wasted(&mut self) -> Vec<WRec> {
        let mut v: Vec<WRec> = match self {
            AnyTrk::Sort(t) => t.wasted().into_iter().map(|x| WastedSortTrack::from(x).into()).collect(),
            AnyTrk::BSort(t) => t.wasted().into_iter().map(|x| WastedSortTrack::from(x).into()).collect(),
            AnyTrk::VSort(t) => t.wasted().into_iter().map(|x| WastedVisualSortTrack::from(x).into()).collect(),
            AnyTrk::BVSort(t) => t.wasted().into_iter().map(|x| WastedVisualSortTrack::from(x).into()).collect(),
        };
        v.sort();
        v
    }

    pub fn idle(&mut self, scene: u64) -> Vec<Rec> {
        let mut v: Vec<Rec> = match self {
            AnyTrk::Sort(t) if scene == 0 => t.idle_tracks().iter().map(Rec::from).collect(),
            AnyTrk::BSort(t) if scene == 0 => t.idle_tracks().iter().map(Rec::from).collect(),
            AnyTrk::VSort(t) if scene == 0 => t.idle_tracks().iter().map(Rec::from).collect(),
            AnyTrk::BVSort(t) if scene == 0 => t.idle_tracks().iter().map(Rec::from).collect(),
            AnyTrk::Sort(t) => t.idle_tracks_with_scene(scene).iter().map(Rec::from).collect(),
            AnyTrk::BSort(t) => t.idle_tracks_with_scene(scene).iter().map(Rec::from).collect(),
            AnyTrk::VSort(t) => t.idle_tracks_with_scene(scene).iter().map(Rec::from).collect(),
            AnyTrk::BVSort(t) => t.idle_tracks_with_scene(scene).iter().map(Rec::from).collect(),
        };
        v.sort();
        v
    }

    pub fn clear_wasted(&mut self) {
        match self {
            AnyTrk::Sort(t) => t.clear_wasted(),
            AnyTrk::BSort(t) => t.clear_wasted(),
            AnyTrk::VSort(t) => t.clear_wasted(),
            AnyTrk::BVSort(t) => t.clear_wasted(),
        }
    }

    pub fn set_auto_waste(&mut self, p: usize) {
        match self {
            AnyTrk::Sort(t) => t.set_auto_waste(p),
            AnyTrk::BSort(t) => t.set_auto_waste(p),
            AnyTrk::VSort(t) => t.set_auto_waste(p),
            AnyTrk::BVSort(t) => t.set_auto_waste(p),
        }
    }

    pub fn active_stats(&self) -> Vec<usize> {
        match self {
            AnyTrk::Sort(t) => t.active_shard_stats(),
            AnyTrk::BSort(t) => t.active_shard_stats(),
            AnyTrk::VSort(t) => t.active_shard_stats(),
            AnyTrk::BVSort(t) => t.active_shard_stats(),
        }
    }

    pub fn wasted_stats(&self) -> Vec<usize> {
        match self {
            AnyTrk::Sort(t) => t.wasted_shard_stats(),
            AnyTrk::BSort(t) => t.wasted_shard_stats(),
            AnyTrk::VSort(t) => t.wasted_shard_stats(),
            AnyTrk::BVSort(t) => t.wasted_shard_stats(),
        }
    }

    pub fn epoch(&self, scene: u64) -> usize {
        if scene == 0 {
            return match self {
                AnyTrk::Sort(t) => t.current_epoch(),
                AnyTrk::BSort(t) => t.current_epoch(),
                AnyTrk::VSort(t) => t.current_epoch(),
                AnyTrk::BVSort(t) => t.current_epoch(),
            };
        }
        match self {
            AnyTrk::Sort(t) => t.current_epoch_with_scene(scene),
            AnyTrk::BSort(t) => t.current_epoch_with_scene(scene),
            AnyTrk::VSort(t) => t.current_epoch_with_scene(scene),
            AnyTrk::BVSort(t) => t.current_epoch_with_scene(scene),
        }
    }

    /// canonical dump of a store: (shard index, tracks sorted by id)
    pub fn dump(&self, wasted: bool, shards: usize) -> Vec<(usize, Vec<Stored>)> {
        let mut out = vec![];
        for k in 0..shards {
            let mut v: Vec<Stored> = match self {
                AnyTrk::Sort(t) => {
                    let s = if wasted { t.get_wasted_store() } else { t.get_main_store() };
                    let g = s.get_store(k);
                    g.values().map(stored_sort).collect()
                }
                AnyTrk::BSort(t) => {
                    let s = if wasted { t.get_wasted_store() } else { t.get_main_store() };
                    let g = s.get_store(k);
                    g.values().map(stored_sort).collect()
                }
                AnyTrk::VSort(t) => {
                    let s = if wasted { t.get_wasted_store() } else { t.get_main_store() };
                    let g = s.get_store(k);
                    g.values().map(stored_visual).collect()
                }
                AnyTrk::BVSort(t) => {
                    let s = if wasted { t.get_wasted_store() } else { t.get_main_store() };
                    let g = s.get_store(k);
                    g.values().map(stored_visual).collect()
                }
            };
            v.sort();
            out.push((k, v));
        }
        out
    }

    pub fn all_stored(&self, wasted: bool, shards: usize) -> Vec<Stored> {
        let mut v: Vec<Stored> = self.dump(wasted, shards).into_iter().flat_map(|x| x.1).collect();
        v.sort();
        v
    }
}

/// shared box menu (ltwh): P, P' (IoU .82), P'' (IoU ~.25), Q (disjoint), S (nested), R (rotated)
pub fn p() -> Det {
    Det::ltwh(0.0, 0.0, 10.0, 20.0)
}
pub fn p1() -> Det {
    Det::ltwh(1.0, 1.0, 10.0, 20.0)
}
pub fn p2() -> Det {
    Det::ltwh(6.0, 0.0, 10.0, 20.0)
}
pub fn q() -> Det {
    Det::ltwh(100.0, 0.0, 10.0, 20.0)
}
pub fn s() -> Det {
    Det::ltwh(3.0, 6.0, 4.0, 8.0)
}
pub fn r() -> Det {
    Det::ltwh(0.0, 0.0, 10.0, 20.0).rot(0.4)
}

/// unit feature vectors: a, a' (close to a), b (far)
pub fn fa() -> Vec<f32> {
    let mut v = vec![0.0f32; 16];
    v[0] = 1.0;
    v
}
pub fn fa1() -> Vec<f32> {
    let mut v = vec![0.0f32; 16];
    v[0] = 0.96;
    v[1] = 0.28;
    v
}
/// half-way look: cosine similarity 0.5 to a (0.48 to a'), Euclidean distance 1
pub fn fc() -> Vec<f32> {
    let mut v = vec![0.0f32; 16];
    v[0] = 0.5;
    v[2] = 0.8660254;
    v
}
pub fn fb() -> Vec<f32> {
    let mut v = vec![0.0f32; 16];
    v[5] = 1.0;
    v
}
