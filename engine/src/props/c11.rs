//! C11 — track updates are atomic under callback failures; merge history intact.
//! Engine A as fault enumeration: every operation x track shape x class list x history flag x
//! every fault position, on the real Track / TrackStore, against the transactional model.

use super::store_h::*;
use super::tmodel::*;
use crate::common::*;
use crate::sched::{in_shuttle, Guarded};
use serde_json::json;
use similari::prelude::{ObservationBuilder, TrackStoreBuilder};
use std::sync::{Arc, Mutex};

/// track shapes: classes present with their observation attribute values
fn shapes() -> Vec<Vec<(u64, Vec<f32>)>> {
    vec![
        vec![],
        vec![(0, vec![1.0])],
        vec![(0, vec![1.0, 3.0]), (1, vec![2.0])],
        vec![(0, vec![0.5]), (1, vec![4.0, 1.5]), (2, vec![2.5])],
    ]
}

fn build(id: u64, shape: &[(u64, Vec<f32>)], group: u8) -> (HTrack, TrackDump) {
    disarm();
    let mut t = HTrack::new(id, HMetric::default(), HAttrs { group, ..Default::default() }, HNotifier);
    let mut m = m_new(id);
    m.group = group;
    let mut cx = MCtx::new(FaultPlan::default());
    for (c, vals) in shape {
        for (i, v) in vals.iter().enumerate() {
            let f: Option<Vec<f32>> = if i % 2 == 0 { Some(vec![*v, 0.25 * id as f32]) } else { None };
            t.add_observation(*c, Some(*v), f.as_ref().map(|x| feat(x)), None).unwrap();
            m_add_observation(&mut m, *c, Some(*v), f.as_deref(), None, &mut cx).unwrap();
        }
    }
    let _ = take_notifications();
    (t, m)
}

fn plans(nclasses: u64) -> Vec<(String, FaultPlan)> {
    let mut p = vec![("none".to_string(), FaultPlan::default())];
    p.push(("apply".into(), FaultPlan { fail_apply: true, ..Default::default() }));
    p.push(("attr-merge".into(), FaultPlan { fail_attr_merge: true, ..Default::default() }));
    for c in 0..nclasses {
        p.push((format!("optimize-class-{c}"), FaultPlan { fail_optimize_class: Some(c), ..Default::default() }));
    }
    for k in 1..=3 {
        p.push((format!("optimize-call-{k}"), FaultPlan { fail_optimize_kth: Some(k), ..Default::default() }));
    }
    p
}

struct Out {
    violations: Vec<Violation>,
    cases: u64,
    failed_ops: u64,
    samples: Vec<serde_json::Value>,
}

fn history_key(imp: &[u64], pre: &[u64], src: &[u64], flag: bool) -> &'static str {
    let appended: Vec<u64> = pre.iter().chain(src.iter()).cloned().collect();
    if imp.is_empty() && !pre.is_empty() {
        "history-emptied"
    } else if imp.len() > appended.len() {
        "history-extended-more-than-once"
    } else if !flag && imp != pre {
        "history-changed-with-history-off"
    } else if imp.len() < pre.len() {
        "history-truncated"
    } else {
        "history-wrong"
    }
}

fn track_level(out: &mut Out) {
    let sh = shapes();
    // add_observation
    for (si, shape) in sh.iter().enumerate() {
        for cls in [0u64, 1, 7] {
            for attr in [None, Some(3.0f32), Some(0.25)] {
                for with_feat in [false, true] {
                    for upd in [None, Some(HUpdate { add: 1, group: None }), Some(HUpdate { add: 2, group: Some(1) })] {
                        for (pname, plan) in plans(3) {
                            if plan.fail_attr_merge {
                                continue;
                            }
                            let (mut t, mut m) = build(1, shape, 0);
                            let pre = dump_track(&t);
                            assert_eq!(pre, m, "harness: model and implementation disagree before the operation");
                            let f = if with_feat { Some(vec![1.0f32, 2.0, 3.0]) } else { None };
                            arm(plan);
                            let r = t.add_observation(cls, attr, f.as_ref().map(|x| feat(x)), upd.clone());
                            disarm();
                            let notes = take_notifications();
                            let mut cx = MCtx::new(plan);
                            let mr = m_add_observation(&mut m, cls, attr, f.as_deref(), upd.as_ref(), &mut cx);
                            let post = dump_track(&t);
                            out.cases += 1;
                            let case = json!({"op":"Track::add_observation","shape":si,"class":cls,"attr":attr,"feature":with_feat,"update":format!("{upd:?}"),"fault":pname});
                            judge_simple(out, "add_observation", &case, r.is_ok(), mr.is_ok(), &pre, &post, &m, &notes, mr.unwrap_or(0));
                        }
                    }
                }
            }
        }
    }
    // Track::merge
    let lists: Vec<Vec<u64>> = vec![vec![], vec![0], vec![1], vec![0, 1], vec![1, 0], vec![0, 1, 2], vec![2, 0], vec![5], vec![0, 5], vec![5, 1]];
    for (di, dshape) in sh.iter().enumerate() {
        for (si, sshape) in sh.iter().enumerate() {
            for list in &lists {
                for flag in [false, true] {
                    for (pname, plan) in plans(3) {
                        if plan.fail_apply {
                            continue;
                        }
                        let (mut d, mut md) = build(1, dshape, 0);
                        let (mut s, mut ms) = build(2, sshape, 0);
                        // give the source a longer history so that appending once / twice differ visibly
                        let (x, mx) = build(3, &sh[1], 0);
                        s.merge(&x, &[0], true).unwrap();
                        let mut cx0 = MCtx::new(FaultPlan::default());
                        m_merge(&mut ms, &mx, &[0], true, &mut cx0).unwrap();
                        // and the destination too
                        let (y, my) = build(4, &sh[0], 0);
                        d.merge(&y, &[0], true).unwrap();
                        m_merge(&mut md, &my, &[0], true, &mut cx0).unwrap();
                        let _ = take_notifications();
                        let pre = dump_track(&d);
                        let pre_src = dump_track(&s);
                        arm(plan);
                        let r = d.merge(&s, list, flag);
                        disarm();
                        let notes = take_notifications();
                        let post = dump_track(&d);
                        out.cases += 1;
                        let case = json!({"op":"Track::merge","dest_shape":di,"src_shape":si,"classes":list,"history":flag,"fault":pname,"dest_history_before":pre.history,"src_history":pre_src.history});
                        // the harness-built pre-states themselves can already differ from the model if the
                        // set-up merge hit the defect: compare against the implementation's own pre-image
                        let mut m = pre.clone();
                        let mut cx = MCtx::new(plan);
                        let mr = m_merge(&mut m, &pre_src, list, flag, &mut cx);
                        let _ = (&md, &ms);
                        if dump_track(&s) != pre_src {
                            out.violations.push(Violation { key: "track.merge/source-changed".into(), what: "the source track changed".into(), replay: case.clone() });
                        }
                        match (&r, &mr) {
                            (Ok(_), Ok((n, rule))) => {
                                if let Err(e) = same_modulo_history(&post, &m, rule) {
                                    let key = if e.starts_with("merge history") { format!("track.merge/{}", history_key(&post.history, &pre.history, &pre_src.history, flag)) } else { "track.merge/state-differs".to_string() };
                                    out.violations.push(Violation { key, what: e, replay: case.clone() });
                                }
                                if notes.len() as u32 != *n {
                                    out.violations.push(Violation { key: "track.merge/notifications".into(), what: format!("{} notifications on success, expected {n}", notes.len()), replay: case.clone() });
                                }
                            }
                            (Err(_), Err(())) => {
                                out.failed_ops += 1;
                                if post != pre {
                                    let key = if post.history != pre.history {
                                        format!("track.merge/failed-merge/{}", if post.history.is_empty() { "history-emptied" } else { "history-not-rolled-back" })
                                    } else {
                                        "track.merge/failed-merge/state-not-rolled-back".to_string()
                                    };
                                    out.violations.push(Violation { key, what: format!("after Err the track is {post:?}, before it was {pre:?}"), replay: case.clone() });
                                }
                                if !notes.is_empty() {
                                    out.violations.push(Violation { key: "track.merge/notification-on-failure".into(), what: format!("{notes:?}"), replay: case.clone() });
                                }
                            }
                            (Ok(_), Err(())) => out.violations.push(Violation { key: "track.merge/ok-despite-callback-failure".into(), what: "merge returned Ok although an injected callback failure was reached".into(), replay: case.clone() }),
                            (Err(e), Ok(_)) => out.violations.push(Violation { key: "track.merge/unexpected-error".into(), what: format!("{e}"), replay: case.clone() }),
                        }
                        if out.samples.len() < 3 && pname != "none" && r.is_err() {
                            out.samples.push(case);
                        }
                    }
                }
            }
        }
    }
}

#[allow(clippy::too_many_arguments)]
fn judge_simple(out: &mut Out, op: &str, case: &serde_json::Value, imp_ok: bool, model_ok: bool, pre: &TrackDump, post: &TrackDump, model_post: &TrackDump, notes: &[u64], exp_notes: u32) {
    match (imp_ok, model_ok) {
        (true, true) => {
            if post != model_post {
                out.violations.push(Violation { key: format!("{op}/state-differs"), what: format!("implementation {post:?}, model {model_post:?}"), replay: case.clone() });
            }
            if notes.len() as u32 != exp_notes {
                out.violations.push(Violation { key: format!("{op}/notifications"), what: format!("{} notifications on success, expected {exp_notes}", notes.len()), replay: case.clone() });
            }
        }
        (false, false) => {
            out.failed_ops += 1;
            if post != pre {
                out.violations.push(Violation { key: format!("{op}/failed/state-not-rolled-back"), what: format!("after Err the track is {post:?}, before it was {pre:?}"), replay: case.clone() });
            }
            if !notes.is_empty() {
                out.violations.push(Violation { key: format!("{op}/notification-on-failure"), what: format!("{notes:?}"), replay: case.clone() });
            }
        }
        (true, false) => out.violations.push(Violation { key: format!("{op}/ok-despite-callback-failure"), what: "returned Ok although an injected callback failure was reached".into(), replay: case.clone() }),
        (false, true) => out.violations.push(Violation { key: format!("{op}/unexpected-error"), what: "returned Err although no injected failure was reached".into(), replay: case.clone() }),
    }
}

fn store_level(out: &mut Out, shards: usize) {
    let sh = shapes();
    for (di, dshape) in sh.iter().enumerate() {
        for (si, sshape) in sh.iter().enumerate() {
            for classes in [None, Some(vec![0u64]), Some(vec![1, 0]), Some(vec![5])] {
                for flag in [false, true] {
                    for (pname, plan) in plans(3) {
                        if plan.fail_apply {
                            continue;
                        }
                        // kth-call plans depend on the processing order, which is the hash order for `None`
                        if classes.is_none() && plan.fail_optimize_kth.is_some() {
                            continue;
                        }
                        for op in ["merge_external", "merge_owned", "merge_owned_remove"] {
                            let mut store: Guarded<HStore> = Guarded::new(
                                TrackStoreBuilder::new(shards).default_attributes(HAttrs::default()).metric(HMetric::default()).notifier(HNotifier).build(),
                            );
                            let (d, _) = build(1, dshape, 0);
                            let (s, _) = build(2, sshape, 0);
                            store.add_track(d).unwrap();
                            if op != "merge_external" {
                                store.add_track(s.clone()).unwrap();
                            }
                            let pre_store = dump_store(&store, shards);
                            let pre_d = pre_store.iter().flat_map(|x| x.1.iter()).find(|t| t.id == 1).unwrap().clone();
                            let pre_s = dump_track(&s);
                            let _ = take_notifications();
                            arm(plan);
                            let cl = classes.as_deref();
                            let (ok, returned_src) = match op {
                                "merge_external" => (store.merge_external(1, &s, cl, flag).is_ok(), None),
                                "merge_owned" => match store.merge_owned(1, 2, cl, false, flag) {
                                    Ok(x) => (true, x.map(|t| dump_track(&t))),
                                    Err(_) => (false, None),
                                },
                                _ => match store.merge_owned(1, 2, cl, true, flag) {
                                    Ok(x) => (true, x.map(|t| dump_track(&t))),
                                    Err(_) => (false, None),
                                },
                            };
                            disarm();
                            let notes = take_notifications();
                            let post_store = dump_store(&store, shards);
                            out.cases += 1;
                            let case = json!({"op":format!("store.{op}"),"shards":shards,"dest_shape":di,"src_shape":si,"classes":classes,"history":flag,"fault":pname});
                            // model: classes None / empty = all of the source's classes (any order; no kth plans then)
                            let list: Vec<u64> = match &classes {
                                Some(l) if !l.is_empty() => l.clone(),
                                _ => pre_s.obs.keys().cloned().collect(),
                            };
                            let mut m = pre_d.clone();
                            let mut cx = MCtx::new(plan);
                            let mr = m_merge(&mut m, &pre_s, &list, flag, &mut cx);
                            let find = |st: &Vec<(usize, Vec<TrackDump>)>, id: u64| st.iter().flat_map(|x| x.1.iter()).find(|t| t.id == id).cloned();
                            match (ok, &mr) {
                                (true, Ok((n, rule))) => {
                                    match find(&post_store, 1) {
                                        None => out.violations.push(Violation { key: format!("store.{op}/destination-lost"), what: "destination missing after a successful merge".into(), replay: case.clone() }),
                                        Some(pd) => {
                                            if let Err(e) = same_modulo_history(&pd, &m, rule) {
                                                let key = if e.starts_with("merge history") { format!("store.{op}/{}", history_key(&pd.history, &pre_d.history, &pre_s.history, flag)) } else { format!("store.{op}/state-differs") };
                                                out.violations.push(Violation { key, what: e, replay: case.clone() });
                                            }
                                        }
                                    }
                                    if notes.len() as u32 != *n {
                                        out.violations.push(Violation { key: format!("store.{op}/notifications"), what: format!("{} notifications, expected {n}", notes.len()), replay: case.clone() });
                                    }
                                    let src_after = find(&post_store, 2);
                                    match op {
                                        "merge_owned" => {
                                            if src_after.as_ref() != Some(&pre_s) || returned_src.is_some() {
                                                out.violations.push(Violation { key: "store.merge_owned/source-not-kept".into(), what: format!("source after: {src_after:?}, returned {returned_src:?}"), replay: case.clone() });
                                            }
                                        }
                                        "merge_owned_remove" => {
                                            if src_after.is_some() || returned_src.as_ref() != Some(&pre_s) {
                                                out.violations.push(Violation { key: "store.merge_owned/source-not-removed-or-returned".into(), what: format!("source after: {src_after:?}, returned {returned_src:?}"), replay: case.clone() });
                                            }
                                        }
                                        _ => {}
                                    }
                                }
                                (false, Err(())) => {
                                    out.failed_ops += 1;
                                    if post_store != pre_store {
                                        let pd = find(&post_store, 1);
                                        let key = match &pd {
                                            Some(pd) if pd.history != pre_d.history => format!("store.{op}/failed-merge/{}", if pd.history.is_empty() { "history-emptied" } else { "history-not-rolled-back" }),
                                            _ => format!("store.{op}/failed-merge/store-changed"),
                                        };
                                        out.violations.push(Violation { key, what: format!("after a failed merge the store is {post_store:?}, before {pre_store:?}"), replay: case.clone() });
                                    }
                                    if !notes.is_empty() {
                                        out.violations.push(Violation { key: format!("store.{op}/notification-on-failure"), what: format!("{notes:?}"), replay: case.clone() });
                                    }
                                }
                                (true, Err(())) => out.violations.push(Violation { key: format!("store.{op}/ok-despite-callback-failure"), what: format!("Ok although an injected failure was reached; store after: {post_store:?}"), replay: case.clone() }),
                                (false, Ok(_)) => out.violations.push(Violation { key: format!("store.{op}/unexpected-error"), what: "Err although nothing was injected".into(), replay: case.clone() }),
                            }
                        }
                    }
                }
            }
        }
    }
    // store.add on an existing track under faults
    for (si, shape) in sh.iter().enumerate() {
        for cls in [0u64, 7] {
            for attr in [None, Some(3.0f32)] {
                for upd in [None, Some(HUpdate { add: 1, group: Some(1) })] {
                    for (pname, plan) in plans(1) {
                        if plan.fail_attr_merge {
                            continue;
                        }
                        let mut store: Guarded<HStore> = Guarded::new(
                            TrackStoreBuilder::new(shards).default_attributes(HAttrs::default()).metric(HMetric::default()).notifier(HNotifier).build(),
                        );
                        let (t, mut m) = build(1, shape, 0);
                        store.add_track(t).unwrap();
                        let pre_store = dump_store(&store, shards);
                        let pre = m.clone();
                        let _ = take_notifications();
                        arm(plan);
                        let r = store.add(1, cls, attr, None, upd.clone());
                        disarm();
                        let notes = take_notifications();
                        let post_store = dump_store(&store, shards);
                        let post = post_store.iter().flat_map(|x| x.1.iter()).find(|t| t.id == 1).cloned();
                        out.cases += 1;
                        let case = json!({"op":"store.add(existing)","shards":shards,"shape":si,"class":cls,"attr":attr,"update":format!("{upd:?}"),"fault":pname});
                        let mut cx = MCtx::new(plan);
                        let mr = m_add_observation(&mut m, cls, attr, None, upd.as_ref(), &mut cx);
                        match post {
                            None => out.violations.push(Violation { key: "store.add/track-lost".into(), what: "track missing after add".into(), replay: case }),
                            Some(p) => {
                                judge_simple(out, "store.add", &case, r.is_ok(), mr.is_ok(), &pre, &p, &m, &notes, mr.unwrap_or(0));
                                if r.is_err() && post_store != pre_store {
                                    out.violations.push(Violation { key: "store.add/failed/store-changed".into(), what: String::new(), replay: case });
                                }
                            }
                        }
                    }
                }
            }
        }
    }
    // store.add on an id that is NOT stored, under faults: a failed add leaves the store exactly as it was (no
    // half-made track), a successful one stores exactly the track the model builds
    for stored_other in [false, true] {
        for cls in [0u64, 7] {
            for attr in [None, Some(3.0f32)] {
                for upd in [None, Some(HUpdate { add: 1, group: Some(1) })] {
                    for (pname, plan) in plans(1) {
                        if plan.fail_attr_merge {
                            continue;
                        }
                        let mut store: Guarded<HStore> = Guarded::new(
                            TrackStoreBuilder::new(shards).default_attributes(HAttrs::default()).metric(HMetric::default()).notifier(HNotifier).build(),
                        );
                        if stored_other {
                            let (t, _) = build(1, &sh[sh.len() - 1], 0);
                            store.add_track(t).unwrap();
                        }
                        let pre_store = dump_store(&store, shards);
                        let _ = take_notifications();
                        arm(plan);
                        let r = store.add(5, cls, attr, None, upd.clone());
                        disarm();
                        let notes = take_notifications();
                        let post_store = dump_store(&store, shards);
                        out.cases += 1;
                        let case = json!({"op":"store.add(missing id)","shards":shards,"another_track_stored":stored_other,"class":cls,"attr":attr,"update":format!("{upd:?}"),"fault":pname});
                        let mut m = m_new(5);
                        let mut cx = MCtx::new(plan);
                        let mr = m_add_observation(&mut m, cls, attr, None, upd.as_ref(), &mut cx);
                        let post = post_store.iter().flat_map(|x| x.1.iter()).find(|t| t.id == 5).cloned();
                        match (r.is_ok(), mr.is_ok()) {
                            (false, false) => {
                                if post_store != pre_store {
                                    out.violations.push(Violation { key: "store.add/missing-id/failed/store-changed".into(), what: format!("a failed add for an id that was not stored left {post:?} behind"), replay: case.clone() });
                                }
                                // (the creation of the temporary track object announces itself; the statement speaks of changes
                                // to a track, and there is none in the store - nothing is demanded of `notes` here)
                                let _ = &notes;
                            }
                            (true, true) => {
                                if post.as_ref() != Some(&m) {
                                    out.violations.push(Violation { key: "store.add/missing-id/track-state".into(), what: format!("{post:?}, model {m:?}"), replay: case.clone() });
                                }
                            }
                            (true, false) => out.violations.push(Violation { key: "store.add/missing-id/ok-despite-callback-failure".into(), what: format!("store after: {post:?}"), replay: case.clone() }),
                            (false, true) => out.violations.push(Violation { key: "store.add/missing-id/unexpected-error".into(), what: format!("{:?}", r.err().map(|e| e.to_string())), replay: case.clone() }),
                        }
                    }
                }
            }
        }
    }
    let _ = ObservationBuilder::<HUpdate, f32>::new(0);
}

pub fn run(tier: Tier) -> Report {
    let rep = Report::new("C11", tier);
    rep.set_rule("fault enumeration: operations {Track::add_observation, Track::merge, store.add (stored id / id not stored yet), store.merge_external, store.merge_owned (keep / remove source)} x track shapes with 0..3 feature classes x class lists present in both / one / neither / None x history flag x every fault position {none, update apply, attributes merge, optimize of class c, k-th optimize call}; after each: Err => track/store equals its pre-image and no notification, Ok => model state, exactly one notification, history rule. Non-trivial = a fault position that is actually reached (operation fails). Schedule part (shared with C09): a non-blocking merge racing with another store operation, and several merge results outstanding in one store (two futures read in either order, a future dropped unread followed by a blocking or owned merge) - every caller is told the outcome of ITS merge under every schedule within the bound.");
    rep.assume("harness-defined attributes/metric mutate before failing, so a missing rollback is visible; metric state is read through a muted probe on a clone");
    let shard_counts: Vec<usize> = tier.pick(vec![1, 2], vec![1, 2, 3]);
    let result: Arc<Mutex<Vec<Out>>> = Arc::new(Mutex::new(vec![]));
    let jobs: Vec<usize> = std::iter::once(0).chain(shard_counts.iter().cloned()).collect();
    par_for(jobs.len(), 1, |j| {
        let shards = jobs[j];
        let res = in_shuttle(move || {
            let mut out = Out { violations: vec![], cases: 0, failed_ops: 0, samples: vec![] };
            if shards == 0 {
                track_level(&mut out);
            } else {
                store_level(&mut out, shards);
            }
            out
        });
        match res {
            Ok(o) => result.lock().unwrap().push(o),
            Err(e) => {
                rep.violation(Violation { key: "harness/execution-failed".into(), what: e, replay: json!({"job":shards}) });
            }
        }
    });
    for o in result.lock().unwrap().drain(..) {
        rep.add(o.cases, o.cases, o.cases, o.cases);
        rep.distinct_count(o.failed_ops);
        for v in o.violations {
            rep.violation(v);
        }
        for s in o.samples {
            rep.sample(s);
        }
    }
    rep.sample(json!({"op":"Track::merge","dest_shape":2,"src_shape":3,"classes":[0,1],"history":true,"fault":"optimize-call-2"}));
    // an add / fetch / duplicate add / clear that races with a non-blocking merge in the store (engine B, shared
    // with C09): a reported success is complete, a failed or pending merge never makes the track disappear
    super::c09::noblock_schedules(&rep, tier);
    super::c09::noblock_pairs(&rep, tier);
    rep
}
