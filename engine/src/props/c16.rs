//! C16 — feature packing and distance functions match the scalar definitions. Engine C.

use crate::common::*;
use serde_json::json;
use similari::distance::{cosine, euclidean};
use similari::track::utils::FromVec;
use similari::track::Feature;
use std::sync::atomic::{AtomicU64, Ordering};

fn menu(n: usize) -> Vec<(String, Vec<f32>)> {
    let mut m: Vec<(String, Vec<f32>)> = vec![
        ("ramp".into(), (0..n).map(|i| (i as f32 + 1.0) * 0.25).collect()),
        (
            "alt".into(),
            (0..n)
                .map(|i| if i % 2 == 0 { 1.0 } else { -1.0 } * ((i % 5) as f32 + 1.0))
                .collect(),
        ),
        (
            "mags".into(),
            (0..n).map(|i| 1e-3 * 10f32.powi((i % 7) as i32)).collect(),
        ),
        // the ramp moved by a constant: every component differs from the ramp's by exactly the same amount
        ("ramp+c".into(), (0..n).map(|i| (i as f32 + 1.0) * 0.25 + 0.5).collect()),
        ("ramp-c".into(), (0..n).map(|i| (i as f32 + 1.0) * 0.25 - 2.0).collect()),
        (
            "neg-ramp".into(),
            (0..n).map(|i| -(((i * 7) % 11) as f32) - 0.5).collect(),
        ),
    ];
    for p in 0..n {
        let mut v = vec![0.0f32; n];
        v[p] = 1.0 + p as f32 * 0.5;
        m.push((format!("onehot{p}"), v));
    }
    m
}

fn pad(v: &[f32], blocks: usize) -> Vec<f64> {
    let mut o: Vec<f64> = v.iter().map(|x| *x as f64).collect();
    o.resize(((v.len() + 7) / 8).max(if v.is_empty() { 0 } else { 1 }) * 8, 0.0);
    o.truncate(blocks * 8);
    o
}

fn ref_eu(a: &[f64], b: &[f64]) -> f64 {
    a.iter().zip(b).map(|(x, y)| (x - y) * (x - y)).sum::<f64>().sqrt()
}

fn ref_cos(a: &[f64], b: &[f64]) -> f64 {
    let d: f64 = a.iter().zip(b).map(|(x, y)| x * y).sum();
    let na: f64 = a.iter().map(|x| x * x).sum();
    let nb: f64 = b.iter().map(|x| x * x).sum();
    d / (na * nb).sqrt()
}

pub fn run(tier: Tier) -> Report {
    let rep = Report::new("C16", tier);
    rep.set_rule("every length 0..=130 x value menus (ramp, alternating, magnitudes 1e-3..1e3, negative, every one-hot position): round trip; every pair of menu vectors per length and every ordered pair of lengths: euclidean / cosine against f64 scalar formulas on the common packed prefix; all triples from a 24-vector menu per length class: triangle inequality; parallel / opposite / scaled vectors for cosine; nearly equal vectors far from the origin (components about 50 / 100 / 1000, differences .002 ... .5): euclidean within a tolerance relative to the DISTANCE, triangle inequality. All cases enumerated without repetition.");
    let maxlen = 130usize;
    let evals = AtomicU64::new(0);
    let eps = 5.96e-8f64;

    // 1. round trip
    for n in 0..=maxlen {
        for (name, v) in menu(n) {
            evals.fetch_add(1, Ordering::Relaxed);
            let f: Feature = Feature::from_vec(&v);
            let back: Vec<f32> = Vec::from_vec(&f);
            let want_len = (n + 7) / 8 * 8;
            let len_ok = back.len() == want_len || (n == 0 && back.len() == 8);
            let vals_ok = len_ok
                && back[..n].iter().zip(&v).all(|(a, b)| a.to_bits() == b.to_bits())
                && back[n..].iter().all(|x| x.to_bits() == 0);
            if !vals_ok {
                rep.violation(Violation {
                    key: "roundtrip".into(),
                    what: format!("len {n} menu {name}: packed->unpacked has len {} (want {want_len}) / wrong values", back.len()),
                    replay: json!({"part":"roundtrip","len":n,"menu":name}),
                });
            }
            // owned-Vec conversion agrees with the by-reference one
            let f2: Feature = Feature::from_vec(v.clone());
            let back2: Vec<f32> = Vec::from_vec(&f2);
            if back2.iter().map(|x| x.to_bits()).collect::<Vec<_>>() != back.iter().map(|x| x.to_bits()).collect::<Vec<_>>() {
                rep.violation(Violation {
                    key: "roundtrip/owned-vs-ref".into(),
                    what: format!("len {n} menu {name}"),
                    replay: json!({"part":"roundtrip","len":n,"menu":name}),
                });
            }
        }
    }

    // 2. same-length pairs
    let lens: Vec<usize> = (1..=maxlen).collect();
    par_for(lens.len(), 1, |li| {
        let n = lens[li];
        let m = menu(n);
        let packed: Vec<Feature> = m.iter().map(|(_, v)| Feature::from_vec(v)).collect();
        let blocks = (n + 7) / 8;
        let padded: Vec<Vec<f64>> = m.iter().map(|(_, v)| pad(v, blocks)).collect();
        for i in 0..m.len() {
            for j in 0..m.len() {
                evals.fetch_add(1, Ordering::Relaxed);
                let e = euclidean(&packed[i], &packed[j]);
                let e2 = euclidean(&packed[j], &packed[i]);
                let er = ref_eu(&padded[i], &padded[j]);
                let scale = padded[i].iter().chain(padded[j].iter()).fold(0.0f64, |a, b| a.max(b.abs()));
                let tol = (n as f64 + 16.0) * 8.0 * eps * (er.max(scale));
                let case = || json!({"part":"pair","len":n,"a":m[i].0,"b":m[j].0});
                if e.to_bits() != e2.to_bits() {
                    rep.violation(Violation { key: "euclidean/asymmetric".into(), what: format!("{e} vs {e2}"), replay: case() });
                }
                if (e as f64 - er).abs() > tol || !e.is_finite() {
                    rep.violation(Violation { key: "euclidean/value".into(), what: format!("euclidean {e}, reference {er}, tol {tol:e}"), replay: case() });
                }
                if i == j && e != 0.0 {
                    rep.violation(Violation { key: "euclidean/identical-nonzero".into(), what: format!("{e}"), replay: case() });
                }
                let na: f64 = padded[i].iter().map(|x| x * x).sum();
                let nb: f64 = padded[j].iter().map(|x| x * x).sum();
                if na > 0.0 && nb > 0.0 {
                    let c = cosine(&packed[i], &packed[j]);
                    let c2 = cosine(&packed[j], &packed[i]);
                    let cr = ref_cos(&padded[i], &padded[j]);
                    let ctol = (n as f64 + 16.0) * 16.0 * eps;
                    if c.to_bits() != c2.to_bits() {
                        rep.violation(Violation { key: "cosine/asymmetric".into(), what: format!("{c} vs {c2}"), replay: case() });
                    }
                    if (c as f64 - cr).abs() > ctol || !c.is_finite() {
                        rep.violation(Violation { key: "cosine/value".into(), what: format!("cosine {c}, reference {cr}, tol {ctol:e}"), replay: case() });
                    }
                    if (c as f64) > 1.0 + ctol || (c as f64) < -1.0 - ctol {
                        rep.violation(Violation { key: "cosine/range".into(), what: format!("{c}"), replay: case() });
                    }
                    if i == j && (c as f64 - 1.0).abs() > ctol {
                        rep.violation(Violation { key: "cosine/self-not-1".into(), what: format!("{c}"), replay: case() });
                    }
                }
            }
            // parallel / opposite / scale invariance
            let na: f64 = padded[i].iter().map(|x| x * x).sum();
            if na > 0.0 {
                for &k in &[2.0f32, 0.125, 1000.0, 3.0] {
                    evals.fetch_add(1, Ordering::Relaxed);
                    let sv: Vec<f32> = m[i].1.iter().map(|x| x * k).collect();
                    let ov: Vec<f32> = m[i].1.iter().map(|x| -x * k).collect();
                    let (sp, op) = (Feature::from_vec(&sv), Feature::from_vec(&ov));
                    let c_par = cosine(&packed[i], &sp) as f64;
                    let c_opp = cosine(&packed[i], &op) as f64;
                    let ctol = (n as f64 + 16.0) * 16.0 * eps;
                    if (c_par - 1.0).abs() > ctol || (c_opp + 1.0).abs() > ctol {
                        rep.violation(Violation { key: "cosine/parallel-opposite".into(), what: format!("parallel {c_par}, opposite {c_opp} (k={k})"), replay: json!({"part":"parallel","len":n,"a":m[i].0,"k":k}) });
                    }
                    // scale invariance against another vector
                    let j = (i + 1) % m.len();
                    let nb: f64 = padded[j].iter().map(|x| x * x).sum();
                    if nb > 0.0 {
                        let c0 = cosine(&packed[i], &packed[j]) as f64;
                        let c1 = cosine(&sp, &packed[j]) as f64;
                        if (c0 - c1).abs() > 2.0 * ctol {
                            rep.violation(Violation { key: "cosine/scale-variant".into(), what: format!("{c0} vs scaled {c1} (k={k})"), replay: json!({"part":"scale","len":n,"a":m[i].0,"b":m[j].0,"k":k}) });
                        }
                    }
                }
            }
        }
    });

    // 3. every ordered pair of lengths: common packed prefix
    par_for((maxlen + 1) * (maxlen + 1), 64, |idx| {
        let (n1, n2) = (idx / (maxlen + 1), idx % (maxlen + 1));
        for kind in 0..3usize {
            let a = menu(n1.max(1)).swap_remove(kind);
            let b = menu(n2.max(1)).swap_remove((kind + 1) % 3);
            let av: Vec<f32> = a.1[..n1.min(a.1.len())].to_vec();
            let bv: Vec<f32> = b.1[..n2.min(b.1.len())].to_vec();
            evals.fetch_add(1, Ordering::Relaxed);
            let (fa, fb) = (Feature::from_vec(&av), Feature::from_vec(&bv));
            let blocks = fa.len().min(fb.len());
            // reference on the zero-padded vectors truncated to the common number of packed blocks
            let mut pa: Vec<f64> = av.iter().map(|x| *x as f64).collect();
            pa.resize(fa.len() * 8, 0.0);
            pa.truncate(blocks * 8);
            let mut pb: Vec<f64> = bv.iter().map(|x| *x as f64).collect();
            pb.resize(fb.len() * 8, 0.0);
            pb.truncate(blocks * 8);
            let e = euclidean(&fa, &fb) as f64;
            let er = ref_eu(&pa, &pb);
            let scale = pa.iter().chain(pb.iter()).fold(0.0f64, |x, y| x.max(y.abs()));
            let tol = (n1.max(n2) as f64 + 16.0) * 8.0 * eps * er.max(scale).max(1e-30);
            if (e - er).abs() > tol {
                rep.violation(Violation { key: "euclidean/mixed-length".into(), what: format!("lengths {n1},{n2}: {e} vs reference {er}"), replay: json!({"part":"mixed","n1":n1,"n2":n2,"kind":kind}) });
            }
            let na: f64 = pa.iter().map(|x| x * x).sum();
            let nb: f64 = pb.iter().map(|x| x * x).sum();
            if na > 0.0 && nb > 0.0 {
                let c = cosine(&fa, &fb) as f64;
                let cr = ref_cos(&pa, &pb);
                if (c - cr).abs() > (n1.max(n2) as f64 + 16.0) * 16.0 * eps {
                    rep.violation(Violation { key: "cosine/mixed-length".into(), what: format!("lengths {n1},{n2}: {c} vs reference {cr}"), replay: json!({"part":"mixed","n1":n1,"n2":n2,"kind":kind}) });
                }
            }
        }
    });

    // 4. triangle inequality
    let classes: Vec<usize> = tier.pick(vec![1, 7, 8, 9, 17, 64, 130], vec![1, 2, 3, 7, 8, 9, 15, 16, 17, 31, 33, 64, 65, 127, 128, 129, 130]);
    par_for(classes.len(), 1, |ci| {
        let n = classes[ci];
        let mut vs: Vec<Vec<f32>> = menu(n).into_iter().take(4).map(|x| x.1).collect();
        for k in 0..20usize {
            // deterministic structured vectors: shifted ramps, sparse patterns, scaled copies
            vs.push((0..n).map(|i| (((i * (k + 3) + k) % 13) as f32 - 6.0) * (1.0 + k as f32 * 0.37)).collect());
        }
        let fs: Vec<Feature> = vs.iter().map(|v| Feature::from_vec(v)).collect();
        let m = fs.len();
        let mut d = vec![0.0f64; m * m];
        for i in 0..m {
            for j in 0..m {
                d[i * m + j] = euclidean(&fs[i], &fs[j]) as f64;
            }
        }
        for i in 0..m {
            for j in 0..m {
                for k in 0..m {
                    evals.fetch_add(1, Ordering::Relaxed);
                    let (ab, bc, ac) = (d[i * m + j], d[j * m + k], d[i * m + k]);
                    let tol = (n as f64 + 16.0) * 16.0 * eps * (ab + bc + ac).max(1e-30);
                    if ac > ab + bc + tol {
                        rep.violation(Violation { key: "euclidean/triangle".into(), what: format!("len {n}: d(a,c)={ac} > d(a,b)+d(b,c)={}", ab + bc), replay: json!({"part":"triangle","len":n,"i":i,"j":j,"k":k}) });
                    }
                }
            }
        }
    });

    // 5. nearly equal vectors far from the origin (the same object on consecutive frames, unnormalised
    //    embeddings): the textbook sum of squared differences is accurate RELATIVE TO THE DISTANCE there (the
    //    differences of nearby f32 values are exact or nearly so), so the tolerance is relative to the reference
    //    distance, not to the size of the components; triangle inequality over the same vectors
    {
        let lens: Vec<usize> = tier.pick(vec![1, 3, 8, 9, 17, 64], vec![1, 2, 3, 7, 8, 9, 16, 17, 33, 64, 128, 130]);
        par_for(lens.len(), 1, |li| {
            let n = lens[li];
            for base in [50.0f32, 100.0, 1000.0] {
                for step in [0.002f32, 0.01, 0.05, 0.5] {
                    // a, and five neighbours at growing distance along different patterns
                    let a: Vec<f32> = (0..n).map(|i| base + (i % 11) as f32 * 0.37).collect();
                    let mut vs: Vec<Vec<f32>> = vec![a.clone()];
                    for k in 1..=5usize {
                        vs.push((0..n).map(|i| a[i] + step * k as f32 * (((i + k) % 3) as f32 - 1.0 + 0.25 * k as f32)).collect());
                    }
                    let fs: Vec<Feature> = vs.iter().map(|v| Feature::from_vec(v)).collect();
                    let blocks = (n + 7) / 8;
                    let pd: Vec<Vec<f64>> = vs.iter().map(|v| pad(v, blocks)).collect();
                    let m = vs.len();
                    let mut d = vec![0.0f64; m * m];
                    for i in 0..m {
                        for j in 0..m {
                            evals.fetch_add(1, Ordering::Relaxed);
                            let e = euclidean(&fs[i], &fs[j]);
                            let er = ref_eu(&pd[i], &pd[j]);
                            d[i * m + j] = e as f64;
                            let tol = (n as f64 + 16.0) * 8.0 * eps * er + 1e-30;
                            if !e.is_finite() || (e as f64 - er).abs() > tol {
                                rep.violation(Violation { key: "euclidean/value/close-vectors-far-from-origin".into(), what: format!("len {n}, components about {base}, differences about {step}: euclidean {e}, reference {er} (tolerance {tol:e}, relative to the distance)"), replay: json!({"part":"close-vectors","len":n,"base":base,"step":step,"i":i,"j":j}) });
                            }
                        }
                    }
                    for i in 0..m {
                        for j in 0..m {
                            for k in 0..m {
                                let (ab, bc, ac) = (d[i * m + j], d[j * m + k], d[i * m + k]);
                                let tol = (n as f64 + 16.0) * 16.0 * eps * (ab + bc + ac).max(1e-30);
                                if !(ac <= ab + bc + tol) {
                                    rep.violation(Violation { key: "euclidean/triangle/close-vectors-far-from-origin".into(), what: format!("len {n}, components about {base}: d(a,c)={ac} > d(a,b)+d(b,c)={}", ab + bc), replay: json!({"part":"close-vectors-triangle","len":n,"base":base,"step":step,"i":i,"j":j,"k":k}) });
                                }
                            }
                        }
                    }
                }
            }
        });
    }

    let e = evals.load(Ordering::Relaxed);
    rep.add(e, e, e, e);
    rep.distinct_count(e);
    rep.sample(json!({"part":"roundtrip","len":9,"menu":"ramp","packed_len":16}));
    rep.sample(json!({"part":"mixed","n1":9,"n2":17,"rule":"first 16 packed values"}));
    rep.extra("empty_vector_note", json!("the crate packs the empty vector into one zero block; both 0 and 8 are accepted"));
    rep
}
