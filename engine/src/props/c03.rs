//! C03 — track lifecycle: conservation, exact expiry, wasted once, GC timing unobservable.
//! Engine A: all histories to a depth over predict / skip / wasted / clear_wasted / set_auto_waste
//! with idle(), epochs and shard statistics observed after every step; reference model of places;
//! three collection periodicities (default 100, 0, 1) run in lock-step and must be indistinguishable.

use super::hist::*;
use super::trk::*;
use crate::common::*;
use crate::sched::Guarded;
use serde_json::json;
use std::collections::BTreeMap;

pub fn lists() -> Vec<Vec<Det>> {
    vec![vec![], vec![p()], vec![q()], vec![p(), q()]]
}

fn positions(l: usize) -> Vec<char> {
    match l {
        0 => vec![],
        1 => vec!['P'],
        2 => vec!['Q'],
        _ => vec!['P', 'Q'],
    }
}

#[derive(Clone, Copy, Debug, PartialEq)]
enum Place {
    /// in the tracker (live store, or expired and waiting in either store)
    Held,
    Delivered,
    Cleared,
}

#[derive(Clone, Debug)]
struct MT {
    scene: u64,
    last: usize,
    length: usize,
    pos: char,
    place: Place,
}

#[derive(Clone, Debug, Default)]
struct Model {
    epochs: BTreeMap<u64, usize>,
    tracks: BTreeMap<u64, MT>,
}

impl Model {
    fn epoch(&self, s: u64) -> usize {
        *self.epochs.get(&s).unwrap_or(&0)
    }
    fn expired(&self, t: &MT, max_idle: usize) -> bool {
        t.last + max_idle < self.epoch(t.scene)
    }
}

struct Variant {
    period: Option<usize>,
    model: Model,
    trk: Option<Guarded<AnyTrk>>, // None = the runner's tracker
    /// what the last clear_wasted / wasted told us, for naming violations
    after_clear: bool,
}

pub struct LifeMonitor {
    max_idle: usize,
    shards: usize,
    variants: Vec<Variant>,
}

impl LifeMonitor {
    pub fn new(cfg: &TrkCfg) -> Self {
        let mut variants = vec![Variant { period: None, model: Model::default(), trk: None, after_clear: false }];
        for p in [0usize, 1] {
            let mut t = Guarded::new(AnyTrk::new(cfg));
            t.set_auto_waste(p);
            variants.push(Variant { period: Some(p), model: Model::default(), trk: Some(t), after_clear: false });
        }
        LifeMonitor { max_idle: cfg.max_idle, shards: cfg.shards, variants }
    }
}

fn check_variant(v: &mut Variant, trk: &mut AnyTrk, op: &TOp, out: &TOut, max_idle: usize, shards: usize) -> Result<(), (String, String)> {
    let tag = match v.period {
        None => "period=100".to_string(),
        Some(p) => format!("period={p}"),
    };
    let bad = |k: &str, w: String| Err((format!("lifecycle/{k}"), format!("[{tag}] {w}")));
    let m = &mut v.model;
    match (op, out) {
        (TOp::Predict(s, l), TOut::Recs(recs)) => {
            *m.epochs.entry(*s).or_insert(0) += 1;
            let now = m.epoch(*s);
            let pos = positions(*l);
            if recs.len() != pos.len() {
                return bad("record-count", format!("{} records for {} detections", recs.len(), pos.len()));
            }
            for (r, x) in recs.iter().zip(pos.iter()) {
                // the unexpired track of this scene at this position, if any
                let cont: Option<u64> = m.tracks.iter().find(|(_, t)| t.scene == *s && t.pos == *x && t.place == Place::Held && t.last + max_idle >= now && t.last < now).map(|(id, _)| *id);
                match cont {
                    Some(id) => {
                        if r.id != id {
                            let was = m.tracks.get(&r.id);
                            return bad(
                                if was.map_or(false, |t| t.last + max_idle < now) { "expired-track-continued" } else { "continuation" },
                                format!("detection {x} of scene {s} at epoch {now} got track {} (known: {was:?}), expected to continue track {id} {:?}", r.id, m.tracks.get(&id)),
                            );
                        }
                        let t = m.tracks.get_mut(&id).unwrap();
                        t.length += 1;
                        t.last = now;
                        if r.length != t.length || r.epoch != now {
                            return bad("length-or-epoch", format!("track {id}: record length {} epoch {}, expected {} / {now}", r.length, r.epoch, t.length));
                        }
                    }
                    None => {
                        if let Some(t) = m.tracks.get(&r.id) {
                            return bad(
                                if t.last + max_idle < now { "expired-track-continued" } else { "continuation" },
                                format!("detection {x} of scene {s} at epoch {now} attached to existing track {} {t:?}; a new track was expected", r.id),
                            );
                        }
                        if r.length != 1 || r.epoch != now {
                            return bad("length-or-epoch", format!("new track {}: length {} epoch {}", r.id, r.length, r.epoch));
                        }
                        m.tracks.insert(r.id, MT { scene: *s, last: now, length: 1, pos: *x, place: Place::Held });
                    }
                }
            }
        }
        (TOp::Skip(s, n), _) => {
            *m.epochs.entry(*s).or_insert(0) += n;
        }
        (TOp::Wasted, TOut::Wasted(ws)) => {
            let mut exp: Vec<(u64, u64, usize, usize)> = vec![];
            let ids: Vec<u64> = m.tracks.iter().filter(|(_, t)| t.place == Place::Held && m.expired(t, max_idle)).map(|(id, _)| *id).collect();
            for id in &ids {
                let t = m.tracks.get_mut(id).unwrap();
                exp.push((*id, t.scene, t.last, t.length));
                t.place = Place::Delivered;
            }
            let mut got: Vec<(u64, u64, usize, usize)> = ws.iter().map(|w| (w.id, w.scene, w.epoch, w.length)).collect();
            got.sort();
            exp.sort();
            if got != exp {
                let key = if v.after_clear { "wasted-after-clear_wasted" } else { "wasted-set" };
                return bad(key, format!("wasted() returned (id,scene,last epoch,length) {got:?}, expected {exp:?}"));
            }
            v.after_clear = false;
        }
        (TOp::ClearWasted, _) => {
            // GC timing unobservable: clearing covers every expired, undelivered track
            let ids: Vec<u64> = m.tracks.iter().filter(|(_, t)| t.place == Place::Held && m.expired(t, max_idle)).map(|(id, _)| *id).collect();
            for id in ids {
                m.tracks.get_mut(&id).unwrap().place = Place::Cleared;
            }
            v.after_clear = true;
        }
        _ => {}
    }
    // observations after every step -------------------------------------------------------------
    // the statistics and the store contents are read FIRST, straight after the operation returned (they are
    // read from the shard maps directly, without a round trip through the shard workers): an operation that
    // has returned has taken effect
    let active = trk.active_stats();
    let wasted = trk.wasted_stats();
    let main_dump = trk.dump(false, shards);
    let wasted_dump = trk.dump(true, shards);
    let m = &v.model;
    for s in [0u64, 1] {
        if trk.epoch(s) != m.epoch(s) {
            return bad("epoch", format!("current epoch of scene {s} is {}, expected {}", trk.epoch(s), m.epoch(s)));
        }
        let mut exp: Vec<(u64, usize, usize)> = m
            .tracks
            .iter()
            .filter(|(_, t)| t.scene == s && t.place == Place::Held && !m.expired(t, max_idle) && t.last != m.epoch(s))
            .map(|(id, t)| (*id, t.last, t.length))
            .collect();
        exp.sort();
        let mut got: Vec<(u64, usize, usize)> = trk.idle(s).iter().map(|r| (r.id, r.epoch, r.length)).collect();
        got.sort();
        if got != exp {
            let extra_expired = got.iter().any(|g| m.tracks.get(&g.0).map_or(false, |t| m.expired(t, max_idle)));
            return bad(
                if extra_expired { "idle-lists-expired-track" } else { "idle-set" },
                format!("idle_tracks(scene {s}) = (id,last epoch,length) {got:?}, expected {exp:?} (scene epoch {})", m.epoch(s)),
            );
        }
    }
    let main_counts: Vec<usize> = main_dump.iter().map(|x| x.1.len()).collect();
    let wasted_counts: Vec<usize> = wasted_dump.iter().map(|x| x.1.len()).collect();
    if active != main_counts {
        return bad("active-stats", format!("active_shard_stats {active:?}, the live store holds {main_counts:?}"));
    }
    if wasted != wasted_counts {
        return bad("wasted-stats", format!("wasted_shard_stats {wasted:?}, the store of collected tracks holds {wasted_counts:?}"));
    }
    let held = m.tracks.values().filter(|t| t.place == Place::Held).count();
    let total: usize = active.iter().sum::<usize>() + wasted.iter().sum::<usize>();
    if total != held {
        let key = if v.after_clear { "stats-after-clear_wasted" } else { "stats-conservation" };
        return bad(key, format!("active {active:?} + wasted {wasted:?} = {total}, but {held} tracks are neither handed out nor cleared"));
    }
    let live_unexpired = m.tracks.values().filter(|t| t.place == Place::Held && !m.expired(t, max_idle)).count();
    if active.iter().sum::<usize>() < live_unexpired {
        return bad("stats-active-too-small", format!("active {active:?} < {live_unexpired} unexpired tracks"));
    }
    // every held track is in exactly one of the two stores, with the right length
    for (id, t) in m.tracks.iter().filter(|(_, t)| t.place == Place::Held) {
        let in_main = main_dump.iter().flat_map(|x| x.1.iter()).find(|s| s.id == *id);
        let in_wasted = wasted_dump.iter().flat_map(|x| x.1.iter()).find(|s| s.id == *id);
        match (in_main, in_wasted) {
            (Some(s), None) | (None, Some(s)) => {
                if s.length != t.length || s.last_epoch != t.last || s.scene != t.scene {
                    return bad("stored-track-state", format!("track {id}: stored length {} last {} scene {}, model {t:?}", s.length, s.last_epoch, s.scene));
                }
                if in_wasted.is_some() && !m.expired(t, max_idle) {
                    return bad("unexpired-track-collected", format!("track {id} {t:?} sits in the wasted store but is not expired"));
                }
            }
            (None, None) => return bad("track-lost", format!("track {id} {t:?} is in neither store")),
            (Some(_), Some(_)) => return bad("track-in-both-stores", format!("track {id}")),
        }
    }
    Ok(())
}

impl Monitor for LifeMonitor {
    fn step(&mut self, trk: &mut AnyTrk, op: &TOp, out: &TOut, lists: &[Vec<Det>]) -> Result<(), (String, String)> {
        let (max_idle, shards) = (self.max_idle, self.shards);
        let mut transcripts: Vec<TOut> = vec![out.clone()];
        for v in self.variants.iter_mut() {
            match v.trk.take() {
                None => check_variant(v, trk, op, out, max_idle, shards)?,
                Some(mut t) => {
                    let o = apply(&mut t, op, lists);
                    let r = check_variant(v, &mut t, op, &o, max_idle, shards);
                    transcripts.push(o);
                    v.trk = Some(t);
                    r?;
                }
            }
        }
        // differential: what the caller sees does not depend on the collection period
        for (i, t) in transcripts.iter().enumerate().skip(1) {
            if *t != transcripts[0] {
                return Err(("lifecycle/periodicity-dependent".into(), format!("variant {i} returned {t:?}, the default period {:?}", transcripts[0])));
            }
        }
        Ok(())
    }
}

/// Lifecycle bookkeeping judged on a complete run of a batch tracker under an explored schedule: the model
/// is rebuilt from the records themselves (which track every detection was recorded in), then compared with
/// what the tracker reports afterwards (epochs, idle tracks, expired tracks handed out by wasted()).
pub fn batch_lifecycle(ro: &super::c06::RunOut, bs: &[super::c06::Batch], cfg: &TrkCfg) -> Result<(), (String, String)> {
    let bad = |k: &str, w: String| Err((format!("lifecycle/{k}"), format!("[batch run] {w}")));
    let max_idle = cfg.max_idle;
    let mut m = Model::default();
    if ro.obs.len() != bs.len() {
        return bad("record-count", format!("{} result sets for {} batches", ro.obs.len(), bs.len()));
    }
    for (k, (got, b)) in ro.obs.iter().zip(bs.iter()).enumerate() {
        for (s, dets) in b {
            *m.epochs.entry(*s).or_insert(0) += 1;
            let now = m.epoch(*s);
            let Some((_, recs)) = got.iter().find(|x| x.0 == *s) else { return bad("record-count", format!("batch #{k}: no result for scene {s}")) };
            if recs.len() != dets.len() {
                return bad("record-count", format!("batch #{k} scene {s}: {} records for {} detections", recs.len(), dets.len()));
            }
            for r in recs {
                match m.tracks.get_mut(&r.id) {
                    Some(t) => {
                        if t.scene != *s {
                            return bad("continuation", format!("batch #{k}: detection of scene {s} recorded in track {} of scene {}", r.id, t.scene));
                        }
                        if t.last + max_idle < now {
                            return bad("expired-track-continued", format!("batch #{k} scene {s} epoch {now}: track {} last updated at {} (max idle {max_idle}) was continued", r.id, t.last));
                        }
                        if t.last == now {
                            return bad("continuation", format!("batch #{k} scene {s}: two detections of one call in track {}", r.id));
                        }
                        t.length += 1;
                        t.last = now;
                        if r.length != t.length || r.epoch != now {
                            return bad("length-or-epoch", format!("batch #{k} scene {s}: track {} record length {} epoch {}, {} detections were attached, epoch {now}", r.id, r.length, r.epoch, t.length));
                        }
                    }
                    None => {
                        if r.length != 1 || r.epoch != now {
                            return bad("length-or-epoch", format!("batch #{k} scene {s}: new track {} has length {} epoch {} (scene epoch {now})", r.id, r.length, r.epoch));
                        }
                        m.tracks.insert(r.id, MT { scene: *s, last: now, length: 1, pos: '?', place: Place::Held });
                    }
                }
            }
        }
    }
    for (s, e) in &m.epochs {
        if ro.fin.epochs.get(s) != Some(e) {
            return bad("epoch", format!("current epoch of scene {s} is {:?}, expected {e}", ro.fin.epochs.get(s)));
        }
        let mut exp: Vec<(u64, usize, usize)> = m.tracks.iter().filter(|(_, t)| t.scene == *s && !m.expired(t, max_idle) && t.last != *e).map(|(id, t)| (*id, t.last, t.length)).collect();
        exp.sort();
        let mut got = ro.fin.idle.get(s).cloned().unwrap_or_default();
        got.sort();
        if got != exp {
            let extra_expired = got.iter().any(|g| m.tracks.get(&g.0).map_or(false, |t| m.expired(t, max_idle)));
            return bad(if extra_expired { "idle-lists-expired-track" } else { "idle-set" }, format!("idle_tracks(scene {s}) = (id,last epoch,length) {got:?}, expected {exp:?} (scene epoch {e})"));
        }
    }
    let mut exp: Vec<(u64, u64, usize, usize)> = m.tracks.iter().filter(|(_, t)| m.expired(t, max_idle)).map(|(id, t)| (*id, t.scene, t.last, t.length)).collect();
    exp.sort();
    let mut got = ro.fin.wasted.clone();
    got.sort();
    if got != exp {
        return bad("wasted-set", format!("wasted() returned (id,scene,last epoch,length) {got:?}, expected {exp:?}"));
    }
    Ok(())
}

fn run_schedules(rep: &Report, tier: Tier) {
    let mut scen = vec![];
    let slice = tier.pick(2.0f64, 60.0f64);
    for kind in [Kind::BatchSort, Kind::BatchVisualSort] {
        // (voting shards, max idle, batch variant, discipline, largest deviation bound)
        let plan: Vec<(usize, usize, usize, usize, usize)> = vec![(2, 0, 1, 1, tier.pick(2, 4)), (2, 1, 1, 1, tier.pick(2, 4)), (2, 2, 1, 1, tier.pick(2, 4)), (2, 2, 0, 1, tier.pick(2, 4)), (1, 0, 4, 1, tier.pick(2, 4)), (2, 1, 8, 1, tier.pick(2, 4))];
        for (vs, max_idle, variant, discipline, max_bound) in plan {
            let mut cfg = TrkCfg::new(kind);
            cfg.shards = 1;
            cfg.voting_shards = vs;
            cfg.max_idle = max_idle;
            if variant == 8 {
                // expired tracks are collected at every submission, while the previous batch may still be voting
                cfg.auto_waste = Some(0);
            }
            let bs = super::c06::batches(variant);
            let c2 = cfg.clone();
            scen.push(super::c06::explore_batch(rep, "lifecycle", &cfg, variant, discipline, false, max_bound, slice, &|o| batch_lifecycle(o, &bs, &c2)));
        }
        // the same pipelined run with every synchronisation operation a decision point (one deviation quick)
        {
            let mut cfg = TrkCfg::new(kind);
            cfg.shards = 1;
            cfg.voting_shards = 2;
            cfg.max_idle = 2;
            let bs = super::c06::batches(1);
            let c2 = cfg.clone();
            scen.push(super::c06::explore_batch(rep, "lifecycle", &cfg, 1, 1, true, tier.pick(1, 2), slice, &|o| batch_lifecycle(o, &bs, &c2)));
        }
    }
    rep.extra("schedule_part", json!(scen));
}

pub fn run(tier: Tier) -> Report {
    let rep = Report::new("C03", tier);
    let ls = lists();
    rep.set_rule("every history of depth <= D over {predict(scene in {0,1}, [] | [P] | [Q] | [P,Q]), skip(0,1), skip(1,1), skip(0,2), wasted, clear_wasted, set_auto_waste(1)} with idle_tracks(both scenes), current epochs, active/wasted shard statistics and both store dumps observed after every step, on three instances with collection period 100 / 0 / 1 in lock-step; reference model: scene epochs, track -> (scene, last epoch, length, place). Sort at depth 4 (quick) / 5 (thorough) for max_idle 0,1,2 x shards 1,2 (quick: 2 shards only with max_idle 1); the other three trackers at depth 3 / 4; Sort and BatchSort also with a (slack) spatio-temporal constraint table configured. Schedule part (batch trackers, pipelined use: results retrieved by consumer threads while the next batch is submitted; 1-2 voting threads; max idle 0 / 1 / 2, once with expired tracks collected at every submission): every interleaving within a deviation bound of 2-3 multi-scene batches; the model is rebuilt from the records (which track each detection was recorded in) and compared with the epochs, idle tracks and expired tracks the tracker reports afterwards; no expired track continued, length = detections attached. Non-trivial = history with an expiry (a skip or an empty predict after a track exists).");
    rep.assume("identical / disjoint boxes, so association is unambiguous; history part: sequential use under the default schedule; schedule part: bounded departures from the default schedule at named points");
    let mut total_h = 0u64;
    let mut total_s = 0u64;
    let mut cfgs: Vec<(TrkCfg, usize)> = vec![];
    for max_idle in [0usize, 1, 2] {
        for shards in [1usize, 2] {
            // quick: both shard counts only for max_idle 1
            if tier == Tier::Quick && shards == 2 && max_idle != 1 {
                continue;
            }
            let mut c = TrkCfg::new(Kind::Sort);
            c.max_idle = max_idle;
            c.shards = shards;
            cfgs.push((c, tier.pick(4, 5)));
        }
    }
    // spatio-temporal constraints configured (slack: P and Q never move, every distance is 0, and the table has no entry
    // for gaps above 1): the lifecycle is the same as without them
    for kind in [Kind::Sort, Kind::BatchSort] {
        let mut c = TrkCfg::new(kind);
        c.max_idle = 1;
        c.constraints = Some(vec![(1, 1.0)]);
        cfgs.push((c, if kind == Kind::Sort { tier.pick(4, 5) } else { tier.pick(3, 4) }));
    }
    for kind in [Kind::VisualSort, Kind::BatchSort, Kind::BatchVisualSort] {
        for (max_idle, shards, pos) in [(1usize, 1usize, Pos::Iou(0.3)), (0, 2, Pos::Maha)] {
            let mut c = TrkCfg::new(kind);
            c.max_idle = max_idle;
            c.shards = shards;
            c.voting_shards = shards;
            c.pos = pos;
            // the second visual configuration also switches the own-area thresholds on (a separate
            // code path at the head of predict; P and Q are disjoint, so every share is 1)
            if max_idle == 0 {
                c.vis.own_use = 0.3;
                c.vis.own_collect = 0.2;
            }
            cfgs.push((c, tier.pick(3, 4)));
        }
    }
    for (cfg, depth) in cfgs {
        if rep.out_of_time() {
            rep.cap_hit(&format!("wall budget reached before config {:?}", cfg.json()));
            continue;
        }
        let mut alpha: Vec<TOp> = vec![];
        for s in [0u64, 1] {
            for l in 0..ls.len() {
                if cfg.kind.is_batch() && ls[l].is_empty() {
                    continue;
                }
                alpha.push(TOp::Predict(s, l));
            }
        }
        alpha.extend([TOp::Skip(0, 1), TOp::Skip(1, 1), TOp::Skip(0, 2), TOp::Wasted, TOp::ClearWasted, TOp::SetAutoWaste(1)]);
        let mut hs: Vec<Vec<usize>> = vec![];
        for d in 1..=depth {
            hs.extend(words(alpha.len(), d));
        }
        let st = run_histories(&rep, &cfg, &alpha, &ls, &hs, LifeMonitor::new, "C03");
        total_h += st.histories;
        total_s += st.steps;
        rep.extra(&format!("{}_maxidle{}_shards{}", cfg.kind.name(), cfg.max_idle, cfg.shards), json!({"histories":st.histories,"depth":depth,"alphabet":alpha.len()}));
    }
    rep.add(total_h, total_s * 3, total_h * 3, 0);
    run_schedules(&rep, tier);
    rep.distinct_count(total_h);
    rep.sample(json!({"config":"Sort max_idle=1 shards=2","history":["predict(0,[P])","predict(0,[])","predict(0,[])","clear_wasted","wasted"],"variants":"period 100 / 0 / 1"}));
    rep
}
