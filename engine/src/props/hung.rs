//! Shared oracle for the Hungarian (SortVoting) engine: exact optimum by bitmask DP / brute force
//! in the implementation's own integer micro-units.

use similari::track::ObservationMetricOk;
use similari::trackers::sort::voting::SortVoting;
use similari::utils::bbox::Universal2DBox;
use similari::voting::Voting;
use std::collections::HashMap;

pub fn to_units(w: f32) -> i64 {
    (w * 1_000_000.0f32) as i64
}

/// weights[c][t]: None = pair absent from the stream
#[derive(Clone, Debug)]
pub struct Case {
    pub thr: f32,
    pub weights: Vec<Vec<Option<f32>>>,
    pub declared_c: usize,
    pub declared_t: usize,
}

pub const CAND_BASE: u64 = 1000;
pub const TRACK_BASE: u64 = 1;

impl Case {
    pub fn stream(&self) -> Vec<(usize, usize, f32)> {
        let mut s = vec![];
        for (c, row) in self.weights.iter().enumerate() {
            for (t, w) in row.iter().enumerate() {
                if let Some(w) = w {
                    s.push((c, t, *w));
                }
            }
        }
        s
    }

    /// exact optimum: unmatched = threshold; DP over candidates with a mask of used tracks
    pub fn optimum(&self) -> i64 {
        let nc = self.weights.len();
        let nt = self.weights.first().map_or(0, |r| r.len());
        let thr = to_units(self.thr);
        // candidates that do not appear in the stream contribute nothing either way: count only those that appear
        let appears: Vec<bool> = self.weights.iter().map(|r| r.iter().any(|w| w.is_some())).collect();
        let mut best: HashMap<u32, i64> = HashMap::new();
        best.insert(0, 0);
        for c in 0..nc {
            if !appears[c] {
                continue;
            }
            let mut next: HashMap<u32, i64> = HashMap::new();
            for (mask, val) in &best {
                let e = next.entry(*mask).or_insert(i64::MIN);
                *e = (*e).max(val + thr);
                for t in 0..nt {
                    if mask & (1 << t) == 0 {
                        if let Some(w) = self.weights[c][t] {
                            let e = next.entry(mask | (1 << t)).or_insert(i64::MIN);
                            *e = (*e).max(val + to_units(w));
                        }
                    }
                }
            }
            best = next;
        }
        best.values().cloned().max().unwrap_or(0)
    }
}

#[derive(Debug)]
pub struct Verdict {
    pub ok: bool,
    pub what: String,
    pub key: &'static str,
    pub assignment: Vec<(u64, u64)>,
}

/// Run the real engine on the stream in the given order and judge the answer.
pub fn judge(case: &Case, order: &[(usize, usize, f32)]) -> Verdict {
    let v = SortVoting::new(case.thr, case.declared_c, case.declared_t);
    let stream: Vec<ObservationMetricOk<Universal2DBox>> = order
        .iter()
        .map(|(c, t, w)| ObservationMetricOk::new(CAND_BASE + *c as u64, TRACK_BASE + *t as u64, Some(*w), None))
        .collect();
    let res = v.winners(stream);
    let mut assignment: Vec<(u64, u64)> = vec![];
    let nc = case.weights.len();
    let nt = case.weights.first().map_or(0, |r| r.len());
    let thr = to_units(case.thr);
    let mut total = 0i64;
    let mut used = vec![false; nt];
    let bad = |key: &'static str, what: String, assignment: Vec<(u64, u64)>| Verdict { ok: false, what, key, assignment };
    for c in 0..nc {
        let id = CAND_BASE + c as u64;
        let appears = case.weights[c].iter().any(|w| w.is_some());
        match res.get(&id) {
            None => {
                if appears {
                    return bad("hungarian/candidate-without-answer", format!("candidate {c} appears in the stream but has no answer"), assignment);
                }
            }
            Some(ws) => {
                if !appears {
                    return bad("hungarian/answer-for-absent-candidate", format!("candidate {c} does not appear but got {ws:?}"), assignment);
                }
                if ws.len() != 1 {
                    return bad("hungarian/not-one-answer", format!("candidate {c} got {ws:?}"), assignment);
                }
                let to = ws[0];
                assignment.push((id, to));
                if to == id {
                    total += thr;
                } else if to >= TRACK_BASE && to < TRACK_BASE + nt as u64 {
                    let t = (to - TRACK_BASE) as usize;
                    if used[t] {
                        return bad("hungarian/track-twice", format!("track {t} assigned twice"), assignment);
                    }
                    used[t] = true;
                    match case.weights[c][t] {
                        None => return bad("hungarian/absent-pair-chosen", format!("candidate {c} -> track {t} which is absent from the stream"), assignment),
                        Some(w) => {
                            if to_units(w) < thr {
                                return bad("hungarian/below-threshold-chosen", format!("candidate {c} -> track {t} with weight {w} < threshold {}", case.thr), assignment);
                            }
                            total += to_units(w);
                        }
                    }
                } else {
                    return bad("hungarian/foreign-id", format!("candidate {c} -> {to} (neither itself nor a track of the stream)"), assignment);
                }
            }
        }
    }
    for k in res.keys() {
        if *k < CAND_BASE || *k >= CAND_BASE + nc as u64 {
            return bad("hungarian/unknown-key", format!("answer for id {k} which is not a candidate"), assignment);
        }
    }
    let opt = case.optimum();
    if total != opt {
        return bad("hungarian/not-optimal", format!("total {total} micro-units, optimum {opt}"), assignment);
    }
    Verdict { ok: true, what: String::new(), key: "", assignment }
}

pub fn permutations(n: usize) -> Vec<Vec<usize>> {
    let mut out = vec![];
    let mut p: Vec<usize> = (0..n).collect();
    fn rec(k: usize, p: &mut Vec<usize>, out: &mut Vec<Vec<usize>>) {
        if k == p.len() {
            out.push(p.clone());
            return;
        }
        for i in k..p.len() {
            p.swap(k, i);
            rec(k + 1, p, out);
            p.swap(k, i);
        }
    }
    rec(0, &mut p, &mut out);
    out
}
