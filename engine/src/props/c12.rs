//! C12 — VisualSORT: appearance votes first, positional fallback, truthful voting type.
//! Engine A: all call histories to a depth over a detection-list alphabet x an option grid; every
//! decision re-derived from the observable galleries of the pre-call store.

use super::assoc::*;
use super::hist::words;
use super::trk::*;
use crate::common::*;
use crate::geom::{self, RBox};
use crate::sched::{run_jobs, Guarded};
use serde_json::json;
use std::sync::Arc;

const WMARGIN: f64 = 1e-4;

fn lists() -> Vec<Vec<Det>> {
    let (a, a1, b) = (fa(), fa1(), fb());
    vec![
        vec![p().feat(&a, 0.9)],
        vec![p1().feat(&a1, 0.9), q().feat(&b, 0.9)],
        vec![q().shift(1.0, 1.0).feat(&a, 0.9), p1().feat(&b, 0.9)], // appearances swapped against positions
        vec![p()],                                                    // no feature
        vec![p1().feat(&a, 0.2)],                                     // low quality
        vec![p1().feat(&a1, 0.9), p2().shift(-2.0, 0.0).feat(&a, 0.9)], // two look-alikes near one track
        vec![s().feat(&a, 0.9)],                                      // small box (area 32)
        vec![p().feat(&a, 0.9), p().shift(2.0, 0.0).feat(&b, 0.9)],  // mutual occlusion
        vec![],
        vec![q().feat(&a1, 0.9)],                                     // far away, looks like the first object
        vec![q().feat(&b, 0.8), p1().shift(0.5, 0.5).feat(&a, 0.85)],
        vec![p1().shift(-0.5, 0.0).feat(&a1, 0.4)], // between the use and collect thresholds
        vec![q().shift(3.0, 0.0).feat(&fc(), 0.9)], // far away, half-way look (cosine .5 to a): a claim only under a low cosine threshold
    ]
}

fn feat_dist(metric: Vis, x: &[f32], y: &[u32]) -> f64 {
    let yv: Vec<f64> = y.iter().map(|b| f32::from_bits(*b) as f64).collect();
    let n = x.len().max(yv.len());
    let xs = |i: usize| if i < x.len() { x[i] as f64 } else { 0.0 };
    let ys = |i: usize| if i < yv.len() { yv[i] } else { 0.0 };
    match metric {
        Vis::Euclid(_) => (0..n).map(|i| (xs(i) - ys(i)).powi(2)).sum::<f64>().sqrt(),
        Vis::Cosine(_) => {
            let d: f64 = (0..n).map(|i| xs(i) * ys(i)).sum();
            let nx: f64 = (0..n).map(|i| xs(i) * xs(i)).sum();
            let ny: f64 = (0..n).map(|i| ys(i) * ys(i)).sum();
            d / (nx * ny).sqrt()
        }
    }
}

#[derive(Debug)]
struct Claim {
    det: usize,
    track: usize,
    weight: f64,
}

enum Judgement {
    Ok { visual_attachments: u64, contests: u64, positional: u64 },
    Undecided,
    Bad(String, String),
}

fn judge_call(cfg: &TrkCfg, scene: u64, now: usize, dets: &[Det], recs: &[Rec], pre: &[Stored]) -> Judgement {
    let v = &cfg.vis;
    let pc = PosCfg { pos: cfg.pos, min_conf: cfg.min_conf.max(0.01) as f64, max_idle: cfg.max_idle, constraints: cfg.constraints.clone(), pos_w: cfg.kalman_w.0 as f64 };
    if recs.len() != dets.len() {
        return Judgement::Bad("visual/record-count".into(), format!("{} records for {} detections", recs.len(), dets.len()));
    }
    // own-area shares
    let use_share = v.own_use + v.own_collect > 0.0;
    let polys: Vec<Vec<(f64, f64)>> = dets.iter().map(|d| RBox::from_u(&d.bbox).corners()).collect();
    let shares: Vec<f64> = (0..dets.len())
        .map(|i| {
            let others: Vec<Vec<(f64, f64)>> = polys.iter().enumerate().filter(|(j, _)| *j != i).map(|(_, p)| p.clone()).collect();
            let area = RBox::from_u(&dets[i].bbox).area();
            ((area - geom::covered_area(&polys[i], &others)) / area).clamp(0.0, 1.0)
        })
        .collect();
    // the votes are counted over the features a track may hold: at most visual_max_observations of them
    for t in pre {
        let n = t.obs0.iter().filter(|o| o.3.is_some()).count();
        if n > v.max_obs {
            return Judgement::Bad("visual/votes-from-a-gallery-over-capacity".into(), format!("track {} holds {n} appearance features before the call, visual_max_observations = {}: features that should have been evicted take part in the voting", t.id, v.max_obs));
        }
    }
    let mut undecided = false;
    // stream of feature values
    let (thr, is_cos) = match v.metric {
        Vis::Euclid(t) => (t as f64, false),
        Vis::Cosine(t) => (t as f64, true),
    };
    let mut values: Vec<Vec<Vec<f64>>> = vec![vec![vec![]; pre.len()]; dets.len()];
    let mut max_seen = f64::NEG_INFINITY;
    for (i, d) in dets.iter().enumerate() {
        let Some(f) = &d.feature else { continue };
        let q = d.quality.unwrap_or(1.0);
        let area = RBox::from_u(&d.bbox).area();
        if (area - v.min_area as f64).abs() < 1e-3 || (q - v.q_use).abs() < 1e-6 || (use_share && (shares[i] - v.own_use as f64).abs() < 1e-3) {
            undecided = true;
        }
        let usable = area >= v.min_area as f64 && q >= v.q_use && (!use_share || shares[i] >= v.own_use as f64);
        if !usable {
            continue;
        }
        for (j, t) in pre.iter().enumerate() {
            match compatible(&pc, d, scene, now, t) {
                None => undecided = true,
                Some(false) => continue,
                Some(true) => {}
            }
            // "has collected at least the minimal number of features": the features the track really holds (the
            // attribute counter must say the same - that is C13's clause)
            let held = t.obs0.iter().filter(|o| o.3.is_some()).count();
            if held < v.min_track_len {
                continue;
            }
            for o in &t.obs0 {
                if let Some(g) = &o.3 {
                    let dist = feat_dist(v.metric, f, g);
                    if (dist - thr).abs() < 1e-3 {
                        undecided = true;
                    }
                    let ok = if is_cos { dist >= thr } else { dist <= thr };
                    if ok {
                        let val = if is_cos { 1.0 - dist } else { dist };
                        values[i][j].push(val);
                        if val > max_seen {
                            max_seen = val;
                        }
                    }
                }
            }
        }
    }
    if undecided {
        return Judgement::Undecided;
    }
    let mut claims: Vec<Claim> = vec![];
    for i in 0..dets.len() {
        for j in 0..pre.len() {
            if !values[i][j].is_empty() && values[i][j].len() >= v.min_votes {
                claims.push(Claim { det: i, track: j, weight: values[i][j].iter().map(|x| max_seen - x).sum() });
            }
        }
    }
    let has_claim = |i: usize| claims.iter().any(|c| c.det == i);
    let mut visual_attachments = 0u64;
    let mut contests = 0u64;
    // near ties between competing claims: accepted either way
    for c in &claims {
        for o in &claims {
            if (c.det != o.det) && c.track == o.track && (c.weight - o.weight).abs() < WMARGIN {
                return Judgement::Undecided;
            }
            if c.det == o.det && c.track != o.track && (c.weight - o.weight).abs() < WMARGIN {
                return Judgement::Undecided;
            }
        }
    }
    for (i, r) in recs.iter().enumerate() {
        let attached = pre.iter().position(|t| t.id == r.id);
        match attached {
            Some(j) => {
                let t = &pre[j];
                if t.scene != scene {
                    return Judgement::Bad("visual/attached-across-scenes".into(), format!("detection {i} attached to track {} of scene {}", t.id, t.scene));
                }
                if now.saturating_sub(t.last_epoch) > cfg.max_idle {
                    return Judgement::Bad("visual/attached-to-expired-track".into(), format!("detection {i} attached to track {} last updated at epoch {}", t.id, t.last_epoch));
                }
                if r.visual {
                    visual_attachments += 1;
                    let Some(my) = claims.iter().find(|c| c.det == i && c.track == j) else {
                        let why = if dets[i].feature.is_none() {
                            "no feature"
                        } else if values[i][j].is_empty() {
                            "feature unusable / track too short / nothing within the distance threshold"
                        } else {
                            "too few votes"
                        };
                        return Judgement::Bad("visual/visual-attachment-without-claim".into(), format!("detection {i} attached to track {} with voting type Visual, but it has no qualifying appearance claim on it ({why})", t.id));
                    };
                    if let Some(better) = claims.iter().find(|c| c.track == j && c.det != i && c.weight > my.weight + WMARGIN) {
                        return Judgement::Bad("visual/contest-lost-but-attached".into(), format!("track {} went to detection {i} (vote weight {:.5}) although detection {} claims it with weight {:.5}", t.id, my.weight, better.det, better.weight));
                    }
                } else {
                    if has_claim(i) {
                        return Judgement::Bad("visual/positional-despite-appearance-claim".into(), format!("detection {i} has an appearance claim but was attached to track {} positionally", t.id));
                    }
                }
            }
            None => {
                if r.visual {
                    return Judgement::Bad("visual/new-track-reported-visual".into(), format!("detection {i} started track {} but the record says Visual", r.id));
                }
                if r.length != 1 {
                    return Judgement::Bad("visual/new-track-length".into(), format!("{r:?}"));
                }
            }
        }
    }
    // every contested / claimed track goes to its heaviest claimant (when that is the claimant's only claim)
    for j in 0..pre.len() {
        let cj: Vec<&Claim> = claims.iter().filter(|c| c.track == j).collect();
        if cj.is_empty() {
            continue;
        }
        if cj.len() > 1 {
            contests += 1;
        }
        let top = cj.iter().max_by(|a, b| a.weight.partial_cmp(&b.weight).unwrap()).unwrap();
        let only_claim = claims.iter().filter(|c| c.det == top.det).count() == 1;
        if only_claim {
            let r = &recs[top.det];
            if r.id != pre[j].id || !r.visual {
                return Judgement::Bad(
                    "visual/heaviest-claimant-not-attached".into(),
                    format!("detection {} has the greatest vote weight ({:.5}) for track {} but its record is track {} visual={}", top.det, top.weight, pre[j].id, r.id, r.visual),
                );
            }
        }
        // losers are never attached to the contested track (covered above for visual; also positionally)
        for c in &cj {
            if c.det != top.det && recs[c.det].id == pre[j].id {
                return Judgement::Bad("visual/loser-attached-to-contested-track".into(), format!("detection {} lost the contest for track {} but is attached to it", c.det, pre[j].id));
            }
        }
    }
    // positional fallback among detections without any claim and tracks not taken by appearance
    let taken: Vec<u64> = recs.iter().filter(|r| r.visual).map(|r| r.id).collect();
    let pd: Vec<usize> = (0..dets.len()).filter(|i| !has_claim(*i)).collect();
    let dr: Vec<&Det> = pd.iter().map(|i| &dets[*i]).collect();
    let rr: Vec<&Rec> = pd.iter().map(|i| &recs[*i]).collect();
    let tr: Vec<&Stored> = pre.iter().filter(|t| !taken.contains(&t.id)).collect();
    // a claim-less detection must not sit on a track taken by appearance
    for r in &rr {
        if taken.contains(&r.id) {
            return Judgement::Bad("visual/track-shared-by-visual-and-positional".into(), format!("track {} attached twice in one call", r.id));
        }
    }
    let pv = judge_positional(&pc, scene, now, &dr, &rr, &tr);
    if let Some((key, what)) = pv.violation {
        return Judgement::Bad(format!("visual/positional-fallback/{}", key.trim_start_matches("association/")), what);
    }
    if pv.undecided {
        return Judgement::Undecided;
    }
    Judgement::Ok { visual_attachments, contests, positional: rr.iter().filter(|r| pre.iter().any(|t| t.id == r.id)).count() as u64 }
}

fn option_grid(tier: Tier) -> Vec<TrkCfg> {
    let mut all = vec![];
    for metric in [Vis::Euclid(0.5), Vis::Cosine(0.9)] {
        for pos in [Pos::Iou(0.3), Pos::Maha] {
            for min_votes in [1usize, 2] {
                for min_len in [1usize, 2] {
                    for max_obs in [2usize, 3] {
                        for q in [0.0f32, 0.5] {
                            for area in [0.0f32, 150.0] {
                                for own in [0.0f32, 0.5] {
                                    let mut c = TrkCfg::new(Kind::VisualSort);
                                    c.pos = pos;
                                    c.max_idle = 1;
                                    c.min_conf = 0.1;
                                    c.vis = VisOpts { metric, min_votes, min_track_len: min_len, max_obs, q_use: q, q_collect: if q > 0.0 { 0.3 } else { 0.6 }, min_area: area, own_use: own, own_collect: own * 0.4 };
                                    all.push(c);
                                }
                            }
                        }
                    }
                }
            }
        }
    }
    // the own-area 'use' and 'collect' thresholds each switched on alone (the share computation is
    // triggered by their sum)
    let mut extra = vec![];
    for (k, c) in all.iter().enumerate() {
        if tier == Tier::Thorough || k % 37 == 5 {
            for (u, col) in [(0.5f32, 0.0f32), (0.0, 0.3)] {
                if c.vis.own_use > 0.0 {
                    let mut e = c.clone();
                    e.vis.own_use = u;
                    e.vis.own_collect = col;
                    extra.push(e);
                }
            }
        }
    }
    // a low cosine threshold (similarities between t and 1-t count as votes)
    for (k, (pos, min_votes)) in [(Pos::Iou(0.3), 1usize), (Pos::Maha, 2), (Pos::Maha, 1), (Pos::Iou(0.3), 2)].into_iter().enumerate() {
        if tier == Tier::Thorough || k < 2 {
            let mut c = TrkCfg::new(Kind::VisualSort);
            c.pos = pos;
            c.max_idle = 1;
            c.min_conf = 0.1;
            c.vis = VisOpts { metric: Vis::Cosine(0.2), min_votes, min_track_len: 1, max_obs: 3, q_use: 0.0, q_collect: 0.6, min_area: 0.0, own_use: 0.0, own_collect: 0.0 };
            extra.push(c);
        }
    }
    if tier == Tier::Thorough {
        all.extend(extra);
        return all;
    }
    // covering subset: every option takes each of its values, chosen by a fixed parity code
    let mut pick = vec![];
    for (k, c) in all.iter().enumerate() {
        let bits = (0..9).map(|b| (k >> b) & 1).collect::<Vec<_>>();
        let parity = bits.iter().sum::<usize>() % 2;
        // 512 configs -> keep those whose index has even parity and low three bits equal to the high three: 16 points
        if parity == 0 && (k & 7) == ((k >> 3) & 7) && ((k >> 6) & 1) == ((k >> 7) & 1) {
            pick.push(c.clone());
        }
    }
    pick.extend(extra);
    pick
}

/// Contest family: a track with three stored looks (0, 0 or .5, 1 on a line in feature space) and a bystander track
/// with ONE stored look off that line; then two detections with looks x and y arrive together. Over the grid of (z, x, y)
/// the two detections claim the first track with different numbers of votes, and a pair that falls short of
/// the quorum (the bystander) often holds the largest distance of the frame - the weight of every claim is
/// measured from that largest distance.
fn run_contest_family(rep: &Report, tier: Tier) -> (u64, u64, u64, u64) {
    let look = |t: f32, u: f32| -> Vec<f32> { vec![t, u, 0.5, 0.0, 0.0, 0.0, 0.0, 0.0] };
    let step = tier.pick(0.1f32, 0.05f32);
    let xs: Vec<f32> = (0..).map(|i| -1.0 + 0.007 + step * i as f32).take_while(|x| *x < 2.45).collect();
    // bystander looks: off the line (0.5, u), so its distance to a detection is decoupled from the detection's
    // distances to the first track; second stored look of the first track: 0 (a repeated look) or 0.5
    let zs: Vec<(f32, f32)> = (0..7).flat_map(|i| [(0.0f32, 0.9 + 0.013 + 0.1 * i as f32), (0.5f32, 0.9 + 0.013 + 0.1 * i as f32)]).collect();
    let mut tot = (0u64, 0u64, 0u64, 0u64);
    for min_votes in [2usize, 1] {
        for pos in [Pos::Iou(0.3), Pos::Maha] {
            if tier == Tier::Quick && pos == Pos::Maha {
                continue;
            }
            let mut cfg = TrkCfg::new(Kind::VisualSort);
            cfg.pos = pos;
            cfg.max_idle = 5;
            cfg.min_conf = 0.1;
            cfg.vis = VisOpts { metric: Vis::Euclid(1.2), min_votes, min_track_len: 1, max_obs: 3, q_use: 0.0, q_collect: 0.0, min_area: 0.0, own_use: 0.0, own_collect: 0.0 };
            let n = zs.len() * xs.len() * xs.len();
            let chunk = 64usize;
            let nchunks = (n + chunk - 1) / chunk;
            let (xs2, zs2, cfg2) = (xs.clone(), zs.clone(), cfg.clone());
            let outs = run_jobs(nchunks, move |ci| {
                let mut viol: Vec<(((f32, f32), f32, f32), usize, String, String)> = vec![];
                let mut st = (0u64, 0u64, 0u64, 0u64);
                for code in ci * chunk..((ci + 1) * chunk).min(n) {
                    let (z, x, y) = (zs2[code % zs2.len()], xs2[(code / zs2.len()) % xs2.len()], xs2[code / zs2.len() / xs2.len()]);
                    let frames: Vec<Vec<Det>> = vec![
                        vec![p().feat(&look(0.0, 0.0), 0.9), q().feat(&look(0.5, z.1), 0.9)],
                        vec![p().shift(0.5, 0.0).feat(&look(z.0, 0.0), 0.9)],
                        vec![p().feat(&look(1.0, 0.0), 0.9)],
                        // two detections with looks x and y near the first track, and a third one WITHOUT a feature
                        // on top of the bystander (it can only be attached positionally, to the bystander)
                        // (every third configuration: the third detection DOES carry a feature, a look that only the
                        // bystander resembles, at distance .3 / .7 / 1.1 from the bystander's stored look - a claimant for
                        // the bystander that competes with the SECOND choice of the two detections near the first track)
                        vec![p1().feat(&look(x, 0.0), 0.9), p().shift(-1.0, 0.5).feat(&look(y, 0.0), 0.9), if code % 3 == 0 { q().shift(1.0, 0.0).feat(&look(0.5, z.1 + [0.3f32, 0.7, 1.1][(code / 3) % 3]), 0.9) } else { q().shift(1.0, 0.0) }],
                    ];
                    let mut trk = Guarded::new(AnyTrk::new(&cfg2));
                    for (k, dets) in frames.iter().enumerate() {
                        let pre = trk.all_stored(false, cfg2.shards);
                        let recs = trk.predict(0, dets);
                        st.0 += 1;
                        match judge_call(&cfg2, 0, k + 1, dets, &recs, &pre) {
                            Judgement::Ok { visual_attachments, contests, .. } => {
                                st.2 += visual_attachments;
                                st.3 += contests;
                            }
                            Judgement::Undecided => st.1 += 1,
                            Judgement::Bad(key, what) => {
                                viol.push(((z, x, y), k, key, what));
                                break;
                            }
                        }
                    }
                }
                (viol, st)
            });
            for o in outs {
                match o {
                    Ok((viol, st)) => {
                        tot.0 += st.0;
                        tot.1 += st.1;
                        tot.2 += st.2;
                        tot.3 += st.3;
                        for ((z, x, y), k, key, what) in viol {
                            rep.violation(Violation { key, what, replay: json!({"family":"contest","config":cfg.json(),"second_look_and_bystander_look":[z.0, z.1],"looks_of_the_two_detections":[x,y],"failing_call":k}) });
                        }
                    }
                    Err(e) => rep.violation(Violation { key: "VisualSort/panic-or-deadlock".into(), what: e.chars().take(300).collect(), replay: json!({"family":"contest","config":cfg.json()}) }),
                }
            }
        }
    }
    rep.extra("contest_family", json!({"calls":tot.0,"undecided_by_margin":tot.1,"visual_attachments":tot.2,"contests":tot.3,"grid":{"bystander_looks":zs.len(),"detection_looks":xs.len()}}));
    tot
}

pub fn run(tier: Tier) -> Report {
    let rep = Report::new("C12", tier);
    let ls = Arc::new(lists());
    rep.set_rule("every call history of depth <= D (quick 4 for VisualSort, thorough 4 on the full grid; VisualSort; BatchVisualSort one level shallower on a sub-grid; with own-area thresholds its calls are two-scene batches whose companion scene has different own-area shares, both scenes judged) over 13 detection lists (same look, look-alike, half-way look, swapped appearances, no feature, low quality, small box, mutual occlusion, far-away look-alike, empty) x option grid {Euclidean(.5) / cosine(.9); plus cosine(.2) configurations} x {IoU, Mahalanobis} x min votes {1,2} x minimal track length {1,2} x max observations {2,3} x use/collect quality {(0,.6),(.5,.3)} x minimal area {0,150} x own-area share use/collect {(0,0),(.5,.2)} plus each threshold switched on alone {(.5,0),(0,.3)} (quick: covering subset in which every option takes every value; thorough: all 512); before every call the galleries are read from the store and usable / collected / votes / weights / contests / positional fallback re-derived independently. Plus a contest family (Euclidean(1.2), min votes 2 and 1): a track with three stored looks, a bystander with one, and two detections arriving together (plus a third one on top of the bystander: feature-less, or with a look only the bystander resembles - a claimant that competes with the others' second choice) whose looks run over a 35 x 35 grid (thorough 69 x 69) x 14 (second look, bystander look) pairs - competing claims with different vote counts while a pair short of the quorum holds the frame's largest distance. Non-trivial = call with at least one appearance claim.");
    rep.assume("decisions within 1e-3 of a threshold or vote weights within 1e-4 of each other are accepted either way (counted as undecided)");
    let grid = option_grid(tier);
    rep.extra("option_points", json!(grid.len()));
    let depth = 4usize;
    let mut calls = 0u64;
    let mut undecided = 0u64;
    let (mut vis_att, mut contests, mut positional) = (0u64, 0u64, 0u64);
    let mut histories = 0u64;
    let mut cfgs: Vec<(TrkCfg, usize)> = grid.iter().map(|c| (c.clone(), depth)).collect();
    for (k, c) in grid.iter().enumerate() {
        if k % tier.pick(4, 16) == 0 {
            let mut b = c.clone();
            b.kind = Kind::BatchVisualSort;
            b.shards = 2;
            b.voting_shards = 2;
            cfgs.push((b, depth - 1));
        }
    }
    for (cfg, d) in cfgs {
        if rep.out_of_time() {
            rep.cap_hit(&format!("wall budget reached before {:?}", cfg.json()));
            continue;
        }
        let nl = ls.len();
        let mut hs: Vec<Vec<usize>> = vec![];
        for len in 1..=d {
            hs.extend(words(nl, len).into_iter().filter(|w| !cfg.kind.is_batch() || w.iter().all(|l| *l != 8)));
        }
        histories += hs.len() as u64;
        let chunk = 16usize;
        let nchunks = (hs.len() + chunk - 1) / chunk;
        let hs = Arc::new(hs);
        let (hs2, ls2, cfg2) = (hs.clone(), ls.clone(), cfg.clone());
        let outs = run_jobs(nchunks, move |ci| {
            let mut viol: Vec<(Vec<usize>, usize, String, String)> = vec![];
            let mut st = (0u64, 0u64, 0u64, 0u64, 0u64);
            for h in &hs2[ci * chunk..((ci + 1) * chunk).min(hs2.len())] {
                let mut trk = Guarded::new(AnyTrk::new(&cfg2));
                // batch tracker with own-area thresholds: every call is a TWO-scene batch; the companion scene 1
                // holds two detections that cover each other (own-area shares about 0.2), so that the scenes of
                // one batch have different shares at equal detection indices; both scenes are judged
                let two_scene = cfg2.kind.is_batch() && cfg2.vis.own_use + cfg2.vis.own_collect > 0.0;
                for (k, l) in h.iter().enumerate() {
                    let pre = trk.all_stored(false, cfg2.shards);
                    let recs = if two_scene {
                        let comp = ls2[7].clone();
                        let mut out = trk.predict_batch(&[(0, ls2[*l].clone()), (1, comp.clone())]);
                        out.sort_by_key(|x| x.0);
                        if out.len() != 2 {
                            viol.push((h.clone(), k, "visual/record-count".into(), format!("{} results for a two-scene batch", out.len())));
                            break;
                        }
                        let r1 = out.pop().unwrap().1;
                        match judge_call(&cfg2, 1, k + 1, &comp, &r1, &pre) {
                            Judgement::Bad(key, what) => {
                                viol.push((h.clone(), k, key, format!("[companion scene 1 of a two-scene batch] {what}")));
                                break;
                            }
                            _ => {}
                        }
                        out.pop().unwrap().1
                    } else {
                        trk.predict(0, &ls2[*l])
                    };
                    st.0 += 1;
                    match judge_call(&cfg2, 0, k + 1, &ls2[*l], &recs, &pre) {
                        Judgement::Ok { visual_attachments, contests, positional } => {
                            st.2 += visual_attachments;
                            st.3 += contests;
                            st.4 += positional;
                        }
                        Judgement::Undecided => st.1 += 1,
                        Judgement::Bad(key, what) => {
                            viol.push((h.clone(), k, key, what));
                            break;
                        }
                    }
                }
            }
            (viol, st)
        });
        for o in outs {
            match o {
                Ok((viol, st)) => {
                    calls += st.0;
                    undecided += st.1;
                    vis_att += st.2;
                    contests += st.3;
                    positional += st.4;
                    for (h, k, key, what) in viol {
                        rep.violation(Violation { key, what, replay: json!({"config":cfg.json(),"history_list_indices":h,"failing_call":k,"lists":ls.iter().map(|l| l.iter().map(|d| d.json()).collect::<Vec<_>>()).collect::<Vec<_>>()}) });
                    }
                }
                Err(e) => rep.violation(Violation { key: format!("{}/panic-or-deadlock", cfg.kind.name()), what: e.chars().take(300).collect(), replay: json!({"config":cfg.json()}) }),
            }
        }
    }
    let cf = run_contest_family(&rep, tier);
    calls += cf.0;
    undecided += cf.1;
    vis_att += cf.2;
    contests += cf.3;
    histories += cf.0 / 4;
    rep.add(calls, calls, histories, 0);
    rep.distinct_count(vis_att + contests);
    rep.extra("calls_judged", json!(calls));
    rep.extra("undecided_by_margin", json!(undecided));
    rep.extra("visual_attachments_seen", json!(vis_att));
    rep.extra("appearance_contests_seen", json!(contests));
    rep.extra("positional_continuations_seen", json!(positional));
    rep.sample(json!({"config":"VisualSort Euclidean(.5) IoU min_votes=1 min_len=1","history_list_indices":[0,1,5],"meaning":"object with look a; then it moves and a second object with look b appears; then two look-alikes compete for the first track"}));
    rep
}
