//! C06 — batch trackers refine simple trackers; one result per scene; no deadlock. Engine B:
//! all interleavings (preemption-bounded) of the batch predict loop, the store workers, the voting
//! threads and the consumer, on the real BatchSort / BatchVisualSort.

use super::c04::same_records;
use super::trk::*;
use crate::common::*;
use crate::sched::{self, Guarded};
use serde_json::json;
use similari::prelude::*;
use similari::trackers::batch::PredictionBatchResult;
use std::collections::{BTreeMap, BTreeSet};
use std::sync::{Arc, Mutex};

pub type Batch = Vec<(u64, Vec<Det>)>;

pub fn batches(variant: usize) -> Vec<Batch> {
    let a = p().feat(&fa(), 0.9);
    let b = q().feat(&fb(), 0.9);
    match variant {
        // two batches, two scenes each, 1-2 detections
        0 => vec![vec![(0, vec![a.clone()]), (1, vec![a.clone(), b.clone()])], vec![(0, vec![p1().feat(&fa1(), 0.8)]), (1, vec![b.shift(2.0, 1.0), p1()])]],
        // a scene absent from the second batch, three batches
        1 => vec![vec![(0, vec![a.clone()]), (1, vec![b.clone()])], vec![(1, vec![b.shift(1.0, 0.0)])], vec![(0, vec![p1()]), (1, vec![b.shift(2.0, 0.0)])]],
        // one batch, two scenes that each start a track (fine tier)
        3 => vec![vec![(0, vec![a.clone()]), (1, vec![b.clone()])], vec![(0, vec![p1().feat(&fa1(), 0.8)]), (1, vec![b.shift(1.0, 0.0)])]],
        // A / B / A: a scene, then a batch of foreign scenes only, then the first scene again (pipelined
        // use: the first batch may still be voting when the third one is prepared)
        4 => vec![vec![(0, vec![a.clone()]), (1, vec![b.clone()]), (2, vec![a.clone()])], vec![(5, vec![b.clone()])], vec![(0, vec![p1().feat(&fa1(), 0.8)])]],
        // own-area shares differ between the scenes of one batch: scene 0 holds two detections that cover each
        // other (shares about 0.2), scene 1 two separated ones (shares 1); used with own-area thresholds switched on
        5 => vec![
            vec![(0, vec![a.clone(), p().shift(2.0, 0.0).feat(&fb(), 0.9)]), (1, vec![a.clone(), b.clone()])],
            vec![(0, vec![p().shift(0.5, 0.0).feat(&fa1(), 0.9), p().shift(2.5, 0.0).feat(&fb(), 0.85)]), (1, vec![p1().feat(&fa1(), 0.9), b.shift(1.0, 0.0)])],
            vec![(1, vec![p().shift(1.0, 0.5).feat(&fa(), 0.9), b.shift(2.0, 0.0)]), (0, vec![p().shift(1.0, 0.0).feat(&fa(), 0.9), p().shift(3.0, 0.0).feat(&fb(), 0.9)])],
        ],
        // many scenes in one batch (more than the voting threads and their queues can hold at once), retrieved on
        // the submitting thread after predict() has returned: 6 scenes for one voting thread, 9 for two
        6 | 7 => {
            let n = if variant == 6 { 6u64 } else { 9 };
            vec![(0..n).map(|s| (s, vec![a.shift(s as f32, 0.0)])).collect(), (0..n).map(|s| (s, vec![p1().shift(s as f32, 0.0).feat(&fa1(), 0.8)])).collect()]
        }
        // the batches of variant 1, used with max idle 1 and the store-wide collection of expired tracks at EVERY
        // submission: scene 1's track is one epoch old whenever the next batch is prepared
        8 => batches(1),
        // three scenes, then an EMPTY batch (a frame without detections anywhere), then the first scene again: the empty
        // batch has nothing to vote but still stands between its neighbours
        9 => vec![vec![(0, vec![a.clone()]), (1, vec![b.clone()]), (2, vec![a.clone()])], vec![], vec![(0, vec![p1().feat(&fa1(), 0.8)]), (2, vec![p1()])]],
        // three scenes
        _ => vec![vec![(0, vec![a.clone()]), (1, vec![a.clone()]), (2, vec![b.clone()])], vec![(0, vec![p1()]), (2, vec![b.shift(1.0, 1.0)]), (1, vec![p1().shift(0.5, 0.0)])]],
    }
}

/// per batch: the results in arrival order
pub type Obs = Vec<Vec<(u64, Vec<Rec>)>>;

/// what the tracker reports once every result was retrieved (still inside the explored window)
#[derive(Clone, Debug, Default, PartialEq, Eq, Hash)]
pub struct Final {
    /// scene -> current epoch
    pub epochs: BTreeMap<u64, usize>,
    /// scene -> idle tracks (id, last epoch, length)
    pub idle: BTreeMap<u64, Vec<(u64, usize, usize)>>,
    /// expired tracks handed out by wasted(): (id, scene, last epoch, length)
    pub wasted: Vec<(u64, u64, usize, usize)>,
}

#[derive(Clone, Debug, Default, PartialEq, Eq, Hash)]
pub struct RunOut {
    pub obs: Obs,
    pub fin: Final,
}

fn drain(res: &PredictionBatchResult) -> Vec<(u64, Vec<Rec>)> {
    let out: Vec<(u64, Vec<Rec>)> = (0..res.batch_size()).map(|_| res.get()).map(|(s, v)| (s, v.iter().map(Rec::from).collect())).collect();
    // one result per scene: nothing is left on the handle once batch_size() results were taken
    assert!(!res.ready(), "the result handle still reports ready() after batch_size() = {} results were retrieved", res.batch_size());
    out
}

pub fn run(cfg: &TrkCfg, bs: &[Batch], discipline: usize) -> RunOut {
    let mut t = Guarded::new(AnyTrk::new(cfg));
    sched::set_phase(1);
    let mut out: Obs = vec![];
    match discipline {
        // same thread retrieves everything before the next submission
        0 => {
            for b in bs {
                let res = t.submit_batch(b);
                out.push(drain(&res));
            }
        }
        // a consumer thread retrieves while the caller submits the next batch at once
        1 => {
            let mut handles = vec![];
            for b in bs {
                let res = t.submit_batch(b);
                handles.push(shuttle::thread::spawn(move || drain(&res)));
            }
            for h in handles {
                out.push(h.join().unwrap());
            }
        }
        // the same thread retrieves result by result and lists the idle tracks of every scene after each one - a
        // second public entry point used while the other scenes of the batch may still be voted
        3 => {
            let scenes: BTreeSet<u64> = bs.iter().flat_map(|b| b.iter().map(|x| x.0)).collect();
            for b in bs {
                let res = t.submit_batch(b);
                let mut got = vec![];
                for _ in 0..res.batch_size() {
                    let (s, v) = res.get();
                    got.push((s, v.iter().map(Rec::from).collect()));
                    for sc in &scenes {
                        let idle = t.idle(*sc);
                        assert!(idle.iter().all(|r| r.scene == *sc), "idle_tracks({sc}) listed a track of another scene: {idle:?}");
                    }
                }
                assert!(!res.ready(), "the result handle still reports ready() after batch_size() results were retrieved");
                out.push(got);
            }
        }
        // violates the proviso: the next batch is submitted before anything was retrieved, same thread
        _ => {
            let mut results = vec![];
            for b in bs {
                results.push(t.submit_batch(b));
            }
            for r in &results {
                out.push(drain(r));
            }
        }
    }
    // every result was retrieved: the tracker's own view of its tracks, still inside the window
    let mut fin = Final::default();
    let scenes: BTreeSet<u64> = bs.iter().flat_map(|b| b.iter().map(|x| x.0)).collect();
    for s in &scenes {
        fin.epochs.insert(*s, t.epoch(*s));
        fin.idle.insert(*s, t.idle(*s).iter().map(|r| (r.id, r.epoch, r.length)).collect());
    }
    fin.wasted = t.wasted().iter().map(|w| (w.id, w.scene, w.epoch, w.length)).collect();
    sched::set_phase(2);
    drop(t);
    RunOut { obs: out, fin }
}

pub struct Reference {
    pub recs: BTreeMap<u64, Vec<Vec<Rec>>>,
    pub fin: Final,
}

pub fn simple_reference(cfg: &TrkCfg, bs: &[Batch]) -> Reference {
    let mut c = cfg.clone();
    c.kind = if cfg.kind == Kind::BatchSort { Kind::Sort } else { Kind::VisualSort };
    c.shards = 1;
    let bs = bs.to_vec();
    sched::in_shuttle(move || {
        let mut out: BTreeMap<u64, Vec<Vec<Rec>>> = BTreeMap::new();
        let mut fin = Final::default();
        let scenes: BTreeSet<u64> = bs.iter().flat_map(|b| b.iter().map(|x| x.0)).collect();
        for s in scenes {
            let mut t = Guarded::new(AnyTrk::new(&c));
            for b in &bs {
                for (sc, ds) in b {
                    if *sc == s {
                        out.entry(s).or_default().push(t.predict(s, ds));
                    }
                }
            }
            fin.epochs.insert(s, t.epoch(s));
            fin.idle.insert(s, t.idle(s).iter().map(|r| (r.id, r.epoch, r.length)).collect());
            fin.wasted.extend(t.wasted().iter().map(|w| (w.id, w.scene, w.epoch, w.length)));
        }
        Reference { recs: out, fin }
    })
    .unwrap_or_else(|e| machinery_error(&format!("C06 reference run failed: {e}")))
}

pub fn judge(ro: &RunOut, bs: &[Batch], reference: &Reference) -> Result<(), (String, String)> {
    let o = &ro.obs;
    if o.len() != bs.len() {
        return Err(("batch/result-sets".into(), format!("{} result sets for {} batches", o.len(), bs.len())));
    }
    let mut per_scene: BTreeMap<u64, Vec<Vec<Rec>>> = BTreeMap::new();
    for (k, (got, b)) in o.iter().zip(bs.iter()).enumerate() {
        let exp_scenes: BTreeSet<u64> = b.iter().map(|x| x.0).collect();
        let got_scenes: Vec<u64> = got.iter().map(|x| x.0).collect();
        let got_set: BTreeSet<u64> = got_scenes.iter().cloned().collect();
        if got.len() != exp_scenes.len() || got_set != exp_scenes {
            return Err(("batch/one-result-per-scene".into(), format!("batch #{k}: results for scenes {got_scenes:?}, submitted {exp_scenes:?}")));
        }
        for (s, recs) in got {
            let dets = &b.iter().find(|x| x.0 == *s).unwrap().1;
            if recs.len() != dets.len() {
                return Err(("batch/record-count".into(), format!("batch #{k} scene {s}: {} records for {} detections", recs.len(), dets.len())));
            }
            for (r, d) in recs.iter().zip(dets.iter()) {
                if r.observed != box_r(&d.bbox) || r.scene != *s {
                    return Err(("batch/record-order".into(), format!("batch #{k} scene {s}: record does not echo its detection")));
                }
            }
            per_scene.entry(*s).or_default().push(recs.clone());
        }
    }
    for (s, seq) in &per_scene {
        let exp = reference.recs.get(s).cloned().unwrap_or_default();
        if exp.len() != seq.len() {
            return Err(("batch/scene-call-count".into(), format!("scene {s}")));
        }
        let (mut m, mut rm) = (BTreeMap::new(), BTreeMap::new());
        for (k, (a, b)) in seq.iter().zip(exp.iter()).enumerate() {
            if let Err(e) = same_records(a, b, &mut m, &mut rm, false) {
                return Err(("batch/differs-from-simple-tracker".into(), format!("scene {s}, its call #{k}: {e}")));
            }
        }
        // what the tracker itself says afterwards: epoch, idle tracks and expired tracks of the scene are
        // those of the simple tracker, under the same renaming of ids
        if ro.fin.epochs.get(s) != reference.fin.epochs.get(s) {
            return Err(("batch/final-epoch".into(), format!("scene {s}: epoch {:?}, simple tracker {:?}", ro.fin.epochs.get(s), reference.fin.epochs.get(s))));
        }
        let ren = |v: &Vec<(u64, usize, usize)>| -> Vec<(Option<u64>, usize, usize)> {
            let mut w: Vec<_> = v.iter().map(|x| (m.get(&x.0).cloned(), x.1, x.2)).collect();
            w.sort();
            w
        };
        let same = |v: &Vec<(u64, usize, usize)>| -> Vec<(Option<u64>, usize, usize)> {
            let mut w: Vec<_> = v.iter().map(|x| (Some(x.0), x.1, x.2)).collect();
            w.sort();
            w
        };
        let (gi, ei) = (ren(ro.fin.idle.get(s).unwrap_or(&vec![])), same(reference.fin.idle.get(s).unwrap_or(&vec![])));
        if gi != ei {
            return Err(("batch/final-idle-tracks".into(), format!("scene {s}: idle tracks (renamed id, last epoch, length) {gi:?}, simple tracker {ei:?}")));
        }
        let gw = ren(&ro.fin.wasted.iter().filter(|w| w.1 == *s).map(|w| (w.0, w.2, w.3)).collect());
        let ew = same(&reference.fin.wasted.iter().filter(|w| w.1 == *s).map(|w| (w.0, w.2, w.3)).collect());
        if gw != ew {
            return Err(("batch/final-expired-tracks".into(), format!("scene {s}: expired tracks (renamed id, last epoch, length) {gw:?}, simple tracker {ew:?}")));
        }
    }
    // ids are never shared between scenes
    let mut owner: BTreeMap<u64, u64> = BTreeMap::new();
    for (s, seq) in &per_scene {
        for recs in seq {
            for r in recs {
                if *owner.entry(r.id).or_insert(*s) != *s {
                    return Err(("batch/track-crosses-scenes".into(), format!("track {} in scenes {} and {s}", r.id, owner[&r.id])));
                }
            }
        }
    }
    Ok(())
}

/// Shared by C01 / C03 / C04: explore the schedules of one batch-tracker scenario (bounds iterated 0, 1, ..
/// inside `slice` seconds; fine = every synchronisation operation is a decision point) and hand every
/// completed execution to `judge`; panics, deadlocks and step-cap hits are violations `<prefix>/...`.
#[allow(clippy::too_many_arguments)]
pub fn explore_batch(rep: &Report, prefix: &str, cfg: &TrkCfg, variant: usize, discipline: usize, fine: bool, max_bound: usize, slice: f64, judge: &(dyn Fn(&RunOut) -> Result<(), (String, String)> + Sync)) -> serde_json::Value {
    let bs = batches(variant);
    let slice_end = std::time::Instant::now() + std::time::Duration::from_secs_f64(slice);
    let scj = json!({"config":cfg.json(),"batches_variant":variant,"discipline":(if discipline == 0 { "retrieve-then-submit" } else { "consumer-thread" }),"granularity":(if fine { json!("fine") } else { json!(null) })});
    let mut per_bound = vec![];
    let mut completed: Option<usize> = None;
    let outcomes: Mutex<BTreeSet<u64>> = Mutex::new(BTreeSet::new());
    for bound in 0..=max_bound {
        if std::time::Instant::now() >= slice_end {
            break;
        }
        let ecfg = sched::ExploreCfg { mode: if fine { sched::Mode::Fine } else { sched::Mode::Macro }, window: (1, 2), bound, max_steps: 200_000, deadline: Some(slice_end), count_all_deviations: true, ..Default::default() };
        let (c2, b2) = (cfg.clone(), bs.clone());
        let stats = sched::explore(&ecfg, move || run(&c2, &b2, discipline), |x| {
            let viol = |key: String, what: String| rep.violation(Violation { key, what, replay: json!({"scenario":scj,"schedule":x.schedule_json()}) });
            match &x.outcome {
                sched::Outcome::Done(o) => {
                    outcomes.lock().unwrap().insert(hash_of(&o.obs.iter().map(|b| b.iter().map(|r| r.0).collect::<Vec<_>>()).collect::<Vec<_>>()));
                    if let Err((key, what)) = judge(o) {
                        viol(key, what);
                    }
                }
                sched::Outcome::Machinery(m) => machinery_error(m),
                sched::Outcome::Deadlock(m) => viol(format!("{prefix}/deadlock"), m.chars().take(300).collect()),
                sched::Outcome::StepCap(m) => viol(format!("{prefix}/step-cap"), m.chars().take(300).collect()),
                sched::Outcome::Panic(m) => viol(format!("{prefix}/panic"), m.chars().take(300).collect()),
            }
        });
        rep.add(stats.executions, stats.decision_points, stats.executions, 0);
        per_bound.push(json!({"bound":bound,"schedules":stats.executions,"max_decision_points":stats.max_points,"complete":!stats.truncated}));
        if stats.truncated {
            rep.cap_hit(&format!("{prefix} {} d{}v{} batches {variant} discipline {discipline}{}: deviation bound {bound} not completed within {slice:.0}s", cfg.kind.name(), cfg.shards, cfg.voting_shards, if fine { " fine" } else { "" }));
            break;
        }
        completed = Some(bound);
    }
    json!({"scenario":scj,"bound_kind":"departures from the deterministic default schedule","bounds":per_bound,"largest_bound_completed":completed,"distinct_result_arrival_orders":outcomes.lock().unwrap().len()})
}

/// replay of a schedule recorded by `explore_batch`
pub fn replay_batch(file: &serde_json::Value, prop: &str, judge: &dyn Fn(&RunOut, &TrkCfg, usize) -> Result<(), (String, String)>) -> i32 {
    let r = &file["replay"];
    let sc = &r["scenario"];
    let Some(cfg) = TrkCfg::from_json(&sc["config"]) else { machinery_error("replay file: cannot parse the tracker configuration") };
    let variant = sc["batches_variant"].as_u64().unwrap_or(0) as usize;
    let discipline = if sc["discipline"].as_str() == Some("consumer-thread") { 1 } else { 0 };
    let choices: Vec<usize> = r["schedule"]["choices"].as_array().map(|a| a.iter().map(|x| x.as_u64().unwrap_or(0) as usize).collect()).unwrap_or_default();
    let bs = batches(variant);
    let fine = sc["granularity"].is_string();
    let ecfg = sched::ExploreCfg { mode: if fine { sched::Mode::Fine } else { sched::Mode::Macro }, window: (1, 2), max_steps: 200_000, ..Default::default() };
    let (c2, b2) = (cfg.clone(), bs.clone());
    let f = Arc::new(move || run(&c2, &b2, discipline));
    let x = sched::run_one(&ecfg, &choices, &f);
    println!("scenario {sc}\nschedule {}", x.schedule_json());
    match &x.outcome {
        sched::Outcome::Done(o) => match judge(o, &cfg, variant) {
            Ok(()) => {
                println!("the recorded schedule no longer violates the property");
                0
            }
            Err((k, w)) => {
                println!("VIOLATION property={prop} replay=(replayed) {k}: {w}");
                1
            }
        },
        sched::Outcome::Machinery(m) => machinery_error(&format!("the recorded schedule does not fit the current code: {m}")),
        o => {
            println!("VIOLATION property={prop} replay=(replayed) {}", format!("{o:?}").chars().take(300).collect::<String>());
            1
        }
    }
}

pub fn run_check(tier: Tier) -> Report {
    let rep = Report::new("C06", tier);
    rep.set_rule("BatchSort and BatchVisualSort x (distance shards, voting shards) in {(1,1),(1,2),(2,2)} (thorough: (1,3)) x batch sequences (2-3 batches over 2-3 scenes with 1-2 detections per scene, a scene absent from one batch, an empty batch between two batches that share scenes, also with max idle 1 and expired tracks collected at every submission; batches of 6 / 9 scenes for 1 / 2 voting threads; for BatchVisualSort also own-area thresholds with scenes of different own-area shares in one batch) x consumer discipline {same thread retrieves before the next submission; a second thread retrieves while the caller submits at once; the same thread retrieves result by result and lists the idle tracks of every scene in between}, then drop; plus a fine tier (every synchronisation operation a decision point, 2 voting threads; two batches of two scenes retrieved before the next submission, deviation bound iterated to 2 quick / 4 thorough; three pipelined batches retrieved by consumer threads, bound 1 quick / 3 thorough): every interleaving of the predict loop, store workers, voting threads and consumer within the bound (window = whole run; bound = preemptions for the 1x1 / retrieve-then-submit configuration, otherwise departures from the deterministic default schedule i.e. delay bounding; bounds iterated 0,1,2,.. and the largest completed one reported per scenario); oracle: one result per submitted scene, one record per detection in order, per scene equal to the simple tracker up to an id bijection, no deadlock / step-cap. A third discipline that violates the proviso (submit a two-scene batch, then the next, before retrieving) must deadlock: built-in detection demo. states = executions.");
    rep.assume("macro-step granularity (named points: worker dequeues a command, distances queued, scene dispatched, vote begin / before each store write / before the result is sent); preemptions inside lock-protected sections are not explored");
    let mut scen = BTreeMap::new();
    let mut total = 0u64;
    let shard_cfgs: Vec<(usize, usize)> = tier.pick(vec![(1, 1), (1, 2), (2, 2)], vec![(1, 1), (1, 2), (2, 2), (1, 3)]);
    let mut scenarios: Vec<(Kind, usize, usize, usize, usize, Pos)> = vec![];
    for kind in [Kind::BatchSort, Kind::BatchVisualSort] {
        for &(ds, vs) in &shard_cfgs {
            for variant in 0..tier.pick(2usize, 3usize) {
                for discipline in 0..2usize {
                    for pos in [Pos::Iou(0.3), Pos::Maha] {
                        if tier == Tier::Quick && (pos == Pos::Maha && (variant != 0 || kind == Kind::BatchVisualSort || ds * vs > 1) || kind == Kind::BatchVisualSort && variant == 1) {
                            continue;
                        }
                        scenarios.push((kind, ds, vs, variant, discipline, pos));
                    }
                }
            }
        }
    }
    for kind in [Kind::BatchSort, Kind::BatchVisualSort] {
        for &(ds, vs) in &[(1usize, 1usize), (1, 2)] {
            scenarios.push((kind, ds, vs, 4, 1, Pos::Iou(0.3)));
        }
    }
    // many scenes per batch, retrieve-then-submit
    for kind in [Kind::BatchSort, Kind::BatchVisualSort] {
        scenarios.push((kind, 1, 1, 6, 0, Pos::Iou(0.3)));
        scenarios.push((kind, 1, 2, 7, 0, Pos::Iou(0.3)));
    }
    // an empty batch between two batches that share scenes, results retrieved by lagging consumer threads
    for kind in [Kind::BatchSort, Kind::BatchVisualSort] {
        for vs in [1usize, 2] {
            scenarios.push((kind, 1, vs, 9, 1, Pos::Iou(0.3)));
        }
    }
    // idle tracks listed between the retrievals of one batch's results
    for kind in [Kind::BatchSort, Kind::BatchVisualSort] {
        scenarios.push((kind, 1, 2, 1, 3, Pos::Iou(0.3)));
    }
    // expired tracks collected at every submission while the previous batch may still be voting
    for kind in [Kind::BatchSort, Kind::BatchVisualSort] {
        scenarios.push((kind, 1, 2, 8, 1, Pos::Iou(0.3)));
    }
    // own-area thresholds on, scenes with different own-area shares in one batch (BatchVisualSort only)
    scenarios.push((Kind::BatchVisualSort, 1, 1, 5, 0, Pos::Iou(0.3)));
    scenarios.push((Kind::BatchVisualSort, 1, 2, 5, 1, Pos::Iou(0.3)));
    // fine tier: every synchronisation operation is a decision point (the macro-step tiers below
    // cannot see a check-then-act race between two lock sections that has no named point in it);
    // smallest harness: two batches of two scenes, two voting threads, deviation bound iterated
    for (kind, fvariant, fdisc) in [(Kind::BatchVisualSort, 3usize, 0usize), (Kind::BatchSort, 3, 0), (Kind::BatchSort, 1, 1), (Kind::BatchVisualSort, 1, 1)] {
        let mut cfg = TrkCfg::new(kind);
        cfg.shards = 1;
        cfg.voting_shards = 2;
        cfg.max_idle = 2;
        let bs = batches(fvariant);
        let reference = simple_reference(&cfg, &bs);
        // the pipelined runs (consumer threads) have about twice as many decision points: one bound less
        let slice = if tier == Tier::Quick { if fdisc == 0 { 6.0 } else { 3.0 } } else { rep.budget() * 0.1 };
        let slice_end = std::time::Instant::now() + std::time::Duration::from_secs_f64(slice);
        let scj = json!({"config":cfg.json(),"batches_variant":fvariant,"discipline":(if fdisc == 0 { "retrieve-then-submit" } else { "consumer-thread" }),"granularity":"fine"});
        let mut per_bound = vec![];
        let mut completed: Option<usize> = None;
        for bound in 0..=(tier.pick(2usize, 4usize) - fdisc) {
            if std::time::Instant::now() >= slice_end {
                break;
            }
            let ecfg = sched::ExploreCfg { mode: sched::Mode::Fine, window: (1, 2), bound, max_steps: 200_000, deadline: Some(slice_end), count_all_deviations: true, ..Default::default() };
            let (c2, b2) = (cfg.clone(), bs.clone());
            let stats = sched::explore(&ecfg, move || run(&c2, &b2, fdisc), |x| match &x.outcome {
                sched::Outcome::Done(o) => {
                    if let Err((key, what)) = judge(o, &bs, &reference) {
                        rep.violation(Violation { key, what, replay: json!({"scenario":scj,"schedule":x.schedule_json()}) });
                    }
                }
                sched::Outcome::Machinery(m) => machinery_error(m),
                sched::Outcome::Deadlock(m) => rep.violation(Violation { key: "batch/deadlock".into(), what: m.chars().take(300).collect(), replay: json!({"scenario":scj,"schedule":x.schedule_json()}) }),
                sched::Outcome::StepCap(m) => rep.violation(Violation { key: "batch/step-cap".into(), what: m.chars().take(300).collect(), replay: json!({"scenario":scj,"schedule":x.schedule_json()}) }),
                sched::Outcome::Panic(m) => rep.violation(Violation { key: "batch/panic".into(), what: m.chars().take(300).collect(), replay: json!({"scenario":scj,"schedule":x.schedule_json()}) }),
            });
            total += stats.executions;
            rep.add(stats.executions, stats.decision_points, stats.executions, 0);
            per_bound.push(json!({"bound":bound,"schedules":stats.executions,"max_decision_points":stats.max_points,"complete":!stats.truncated}));
            if stats.truncated {
                rep.cap_hit(&format!("fine tier {}: deviation bound {bound} not completed within {slice:.0}s", kind.name()));
                break;
            }
            completed = Some(bound);
        }
        scen.insert(format!("fine/{}/d1v2/batches{fvariant}/discipline{fdisc}", kind.name()), json!({"bound_kind":"deviations from the default schedule, every synchronisation operation a decision point","bounds":per_bound,"largest_bound_completed":completed}));
    }
    let n_scen = scenarios.len();
    let mut min_completed = usize::MAX;
    for (si, (kind, ds, vs, variant, discipline, pos)) in scenarios.into_iter().enumerate() {
        let mut cfg = TrkCfg::new(kind);
        cfg.shards = ds;
        cfg.voting_shards = vs;
        cfg.pos = pos;
        cfg.max_idle = 2;
        if variant == 5 {
            cfg.vis.own_use = 0.5;
            cfg.vis.own_collect = 0.3;
        }
        if variant == 8 {
            cfg.max_idle = 1;
            cfg.auto_waste = Some(0);
        }
        let bs = batches(variant);
        let reference = simple_reference(&cfg, &bs);
        // equal share of what is left of the wall budget; bounds are iterated 0, 1, 2, ... inside it
        let budget = if tier == Tier::Quick { rep.budget().min(42.0) } else { rep.budget() };
        let slice = ((budget - rep.elapsed()) / (n_scen - si) as f64).max(0.5);
        let slice_end = std::time::Instant::now() + std::time::Duration::from_secs_f64(slice);
        // preemption bounding (free switches when the running task blocks) is only tractable for the
        // smallest configuration; everywhere else the bound counts every departure from the default
        // schedule (delay bounding: keep the running task, else the lowest runnable id)
        let delay_bounded = !(ds * vs == 1 && discipline == 0) || variant >= 5;
        let max_bound = if delay_bounded { tier.pick(3usize, 5usize) } else { tier.pick(2usize, 3usize) };
        let mut completed: Option<usize> = None;
        let mut per_bound = vec![];
        let outcomes: Mutex<BTreeSet<u64>> = Mutex::new(BTreeSet::new());
        let scj = json!({"config":cfg.json(),"batches_variant":variant,"discipline":(match discipline { 0 => "retrieve-then-submit", 3 => "retrieve-one-list-idle-tracks", _ => "consumer-thread" })});
        for bound in 0..=max_bound {
            if std::time::Instant::now() >= slice_end {
                break;
            }
            let ecfg = sched::ExploreCfg { window: (1, 2), bound, max_steps: 100_000, deadline: Some(slice_end), count_all_deviations: delay_bounded, ..Default::default() };
            let (c2, b2) = (cfg.clone(), bs.clone());
            let stats = sched::explore(&ecfg, move || run(&c2, &b2, discipline), |x| match &x.outcome {
                sched::Outcome::Done(o) => {
                    // arrival orders of results = vacuity guard
                    outcomes.lock().unwrap().insert(hash_of(&o.obs.iter().map(|b| b.iter().map(|r| r.0).collect::<Vec<_>>()).collect::<Vec<_>>()));
                    if let Err((key, what)) = judge(o, &bs, &reference) {
                        rep.violation(Violation { key, what, replay: json!({"scenario":scj,"schedule":x.schedule_json()}) });
                    }
                }
                sched::Outcome::Machinery(m) => machinery_error(m),
                sched::Outcome::Deadlock(m) => rep.violation(Violation { key: "batch/deadlock".into(), what: m.chars().take(300).collect(), replay: json!({"scenario":scj,"schedule":x.schedule_json()}) }),
                sched::Outcome::StepCap(m) => rep.violation(Violation { key: "batch/step-cap".into(), what: m.chars().take(300).collect(), replay: json!({"scenario":scj,"schedule":x.schedule_json()}) }),
                sched::Outcome::Panic(m) => rep.violation(Violation { key: "batch/panic".into(), what: m.chars().take(300).collect(), replay: json!({"scenario":scj,"schedule":x.schedule_json()}) }),
            });
            total += stats.executions;
            rep.add(stats.executions, stats.decision_points, stats.executions, 0);
            per_bound.push(json!({"bound":bound,"schedules":stats.executions,"max_decision_points":stats.max_points,"complete":!stats.truncated}));
            if stats.truncated {
                break;
            }
            completed = Some(bound);
        }
        match completed {
            Some(b) => {
                min_completed = min_completed.min(b);
                if b < max_bound {
                    rep.cap_hit(&format!("{} ({ds},{vs}) batches {variant} discipline {discipline} {:?}: preemption bound {} not completed within its {:.1}s slice (completed: {b})", kind.name(), pos, b + 1, slice));
                }
            }
            None => {
                min_completed = 0;
                rep.cap_hit(&format!("{} ({ds},{vs}) batches {variant} discipline {discipline} {:?}: not even bound 0 completed", kind.name(), pos));
            }
        }
        scen.insert(format!("{}/{:?}/d{ds}v{vs}/batches{variant}/discipline{discipline}", kind.name(), pos), json!({"bound_kind":if delay_bounded { "deviations from the default schedule (delay bounding)" } else { "preemptions" },"bounds":per_bound,"largest_bound_completed":completed,"distinct_result_arrival_orders":outcomes.lock().unwrap().len()}));
    }
    rep.extra("largest_preemption_bound_completed_in_every_scenario", json!(if min_completed == usize::MAX { 0 } else { min_completed }));
    // detection demo: violating the proviso must deadlock (in at least one schedule; here: in all)
    let mut cfg = TrkCfg::new(Kind::BatchSort);
    cfg.voting_shards = 1;
    let bs = batches(0);
    let ecfg = sched::ExploreCfg { window: (1, 2), bound: 0, max_steps: 100_000, max_execs: 8, ..Default::default() };
    let deadlocks = Mutex::new(0u64);
    let others = Mutex::new(0u64);
    let (c2, b2) = (cfg.clone(), bs.clone());
    let stats = sched::explore(&ecfg, move || run(&c2, &b2, 2), |x| match &x.outcome {
        sched::Outcome::Deadlock(_) => *deadlocks.lock().unwrap() += 1,
        _ => *others.lock().unwrap() += 1,
    });
    let dl = *deadlocks.lock().unwrap();
    rep.extra("proviso_violation_demo", json!({"schedules":stats.executions,"deadlocks":dl,"completed":*others.lock().unwrap(),"note":"submitting the next batch before retrieving a two-scene batch on the same thread deadlocks, as the statement's proviso predicts; reported as a demo, not as a violation"}));
    if dl == 0 {
        // not a verdict either way: the statement only promises freedom from deadlock *under* the proviso.
        // (It used to be a machinery error; a tree whose batch monitor is released early made the whole
        // check end without a verdict instead of reporting the divergence the scenarios above find.)
        rep.cap_hit("proviso-violation demo: no schedule of the violating discipline deadlocked on this tree (the deadlock detector was not demonstrated by this run)");
    }
    rep.add(stats.executions, stats.decision_points, stats.executions, 0);
    rep.distinct_count(total);
    rep.extra("scenarios", json!(scen));
    rep.sample(json!({"config":"BatchSort d1 v2 IoU","batches":"[{0:[P],1:[P,Q]},{0:[P'],1:[Q',P']}]","discipline":"consumer-thread","explored":"all schedules with <= 2 preemptions"}));
    let _ = Arc::new(0);
    rep
}

/// `./check C06 quick --replay <file>`: re-execute one recorded schedule of one scenario
pub fn replay(file: &serde_json::Value) -> i32 {
    let r = &file["replay"];
    let sc = &r["scenario"];
    let Some(cfg) = TrkCfg::from_json(&sc["config"]) else { machinery_error("replay file: cannot parse the tracker configuration") };
    let variant = sc["batches_variant"].as_u64().unwrap_or(0) as usize;
    let discipline = if sc["discipline"].as_str() == Some("consumer-thread") { 1 } else { 0 };
    let choices: Vec<usize> = r["schedule"]["choices"].as_array().map(|a| a.iter().map(|x| x.as_u64().unwrap_or(0) as usize).collect()).unwrap_or_default();
    let bs = batches(variant);
    let reference = simple_reference(&cfg, &bs);
    let fine = sc["granularity"].is_string();
    let ecfg = sched::ExploreCfg { mode: if fine { sched::Mode::Fine } else { sched::Mode::Macro }, window: (1, 2), max_steps: 200_000, ..Default::default() };
    let (c2, b2) = (cfg.clone(), bs.clone());
    let f = Arc::new(move || run(&c2, &b2, discipline));
    let x = sched::run_one(&ecfg, &choices, &f);
    println!("scenario {sc}\nschedule {}", x.schedule_json());
    match &x.outcome {
        sched::Outcome::Done(o) => match judge(o, &bs, &reference) {
            Ok(()) => {
                println!("the recorded schedule no longer violates the property");
                0
            }
            Err((k, w)) => {
                println!("VIOLATION property=C06 replay=(replayed) {k}: {w}");
                1
            }
        },
        sched::Outcome::Machinery(m) => machinery_error(&format!("the recorded schedule does not fit the current code: {m}")),
        o => {
            println!("VIOLATION property=C06 replay=(replayed) {}", format!("{o:?}").chars().take(300).collect::<String>());
            1
        }
    }
}
