//! C04 — scene isolation (differential: interleaved run vs per-scene projection) and
//! C05 part 1 — shard-count independence (differential: shards k vs 1). Engine A.

use super::hist::words;
use super::trk::*;
use crate::common::*;
use crate::sched::{self, run_jobs, Guarded};
use serde_json::json;
use std::collections::BTreeMap;
use std::sync::Arc;

/// tie-free lists: no exact duplicates, all pair weights distinct by a margin
pub fn tie_free_lists() -> Vec<Vec<Det>> {
    vec![
        vec![p()],
        vec![p1().feat(&fa(), 0.9)],
        vec![p(), q().feat(&fb(), 0.8)],
        vec![p2()],
        vec![q().shift(3.0, 1.0), s()],
        vec![p1().shift(0.5, 0.0).feat(&fa1(), 0.7), p2().shift(1.0, 0.5), q()],
        vec![r()],
    ]
}

pub type Call = (u64, usize);

pub fn transcript(cfg: &TrkCfg, lists: &[Vec<Det>], h: &[Call]) -> Vec<Vec<Rec>> {
    let mut t = Guarded::new(AnyTrk::new(cfg));
    h.iter().map(|(s, l)| t.predict(*s, &lists[*l])).collect()
}

/// compare two record lists under an id bijection built incrementally (`map`: left id -> right id)
pub fn same_records(a: &[Rec], b: &[Rec], map: &mut BTreeMap<u64, u64>, rmap: &mut BTreeMap<u64, u64>, exact_ids: bool) -> Result<(), String> {
    if a.len() != b.len() {
        return Err(format!("{} vs {} records", a.len(), b.len()));
    }
    for (x, y) in a.iter().zip(b.iter()) {
        if exact_ids {
            if x.id != y.id {
                return Err(format!("track id {} vs {}", x.id, y.id));
            }
        } else {
            match (map.get(&x.id), rmap.get(&y.id)) {
                (None, None) => {
                    map.insert(x.id, y.id);
                    rmap.insert(y.id, x.id);
                }
                (Some(m), Some(r)) if *m == y.id && *r == x.id => {}
                _ => return Err(format!("grouping differs: id {} (maps to {:?}) vs id {} (maps back to {:?})", x.id, map.get(&x.id), y.id, rmap.get(&y.id))),
            }
        }
        let mut x2 = x.clone();
        x2.id = y.id;
        if x2 != *y {
            return Err(format!("records differ: {x:?} vs {y:?}"));
        }
    }
    Ok(())
}

fn hist_json(lists: &[Vec<Det>], h: &[Call]) -> serde_json::Value {
    json!(h.iter().map(|(s, l)| json!({"scene":s,"list":l,"detections":lists[*l].iter().map(|d| d.json()).collect::<Vec<_>>()})).collect::<Vec<_>>())
}

pub fn run_c04(tier: Tier) -> Report {
    let rep = Report::new("C04", tier);
    // the last list is a call the library REJECTS (a detection with an invalid confidence makes it panic while it
    // builds its candidates; the caller recovers): used on scenes 1 and 2 of the simple trackers only
    let ls = Arc::new({
        let mut l = tie_free_lists();
        l.push(vec![p1(), q().cid(REJECT_ID)]);
        l
    });
    rep.set_rule("every history of depth <= D (quick 4, thorough 5) over predict(scene in {0,1,2}, one of 7 tie-free detection lists occupying the same image region in every scene), on Sort / VisualSort / BatchSort / BatchVisualSort x IoU / Mahalanobis; differential oracle: for every scene the records of the interleaved run equal those of a fresh tracker fed only that scene's calls (boxes, epochs, lengths, voting type bit for bit, ids up to an incrementally built bijection), and no record carries an id first issued in another scene; for the simple trackers the alphabet also holds a call on scene 1 / 2 that the library rejects (a detection with an invalid confidence: the call panics, the caller recovers) - it must not change what the other scenes are told. For the batch trackers additionally every history of depth <= 2 (3 thorough) over single-scene and TWO-SCENE batches (5 lists incl. mutual occlusion and a jump beyond positional reach) with own-area thresholds on / off: every scene of a shared batch must equal the run of a fresh tracker fed that scene alone. Plus an expiry family: max idle 0, the store-wide collection of expired tracks every 1 / 2 / 3 calls, every history of depth <= 5 (thorough 6) over 2 scenes x 3 lists on all four trackers, same differential oracle. Schedule part (batch trackers, pipelined use: consumer threads retrieve while the next batch is submitted, 1-2 voting threads): every interleaving within a deviation bound of batch sequences in which a scene is followed by a batch of foreign scenes only and then appears again (A / B / A), or is absent from a batch; every scene's records must equal its solo run. Non-trivial = history touching at least two scenes.");
    rep.assume("tie-free inputs (no exact duplicates): both runs perform the same arithmetic per scene if isolation holds; sequential use under the default schedule");
    let depth = tier.pick(4usize, 5usize);
    let nl = ls.len() - 1;
    let scenes = [0u64, 1, 2];
    let alpha_valid: Vec<Call> = scenes.iter().flat_map(|s| (0..nl).map(move |l| (*s, l))).collect();
    let mut cfgs = vec![];
    for kind in Kind::all() {
        for pos in [Pos::Iou(0.3), Pos::Maha] {
            let mut c = TrkCfg::new(kind);
            c.pos = pos;
            c.max_idle = 2;
            c.history = 2;
            c.vis.min_track_len = 1;
            if kind.is_batch() {
                c.shards = 2;
                c.voting_shards = 2;
            }
            cfgs.push(c);
        }
    }
    let mut total = 0u64;
    let mut nontrivial = 0u64;
    for cfg in cfgs {
        // batch / visual trackers one level shallower in the quick tier
        let d = if tier == Tier::Quick && cfg.kind != Kind::Sort { depth - 1 } else { depth };
        if rep.out_of_time() {
            rep.cap_hit(&format!("wall budget reached before {:?}", cfg.json()));
            continue;
        }
        let mut alpha = alpha_valid.clone();
        if !cfg.kind.is_batch() {
            alpha.extend([(1u64, nl), (2u64, nl)]);
        }
        // scene symmetry: the first call is always on scene 0 (scenes are interchangeable labels)
        let mut hs: Vec<Vec<usize>> = vec![];
        for len in 2..=d {
            hs.extend(words(alpha.len(), len).into_iter().filter(|w| alpha[w[0]].0 == 0 && w.iter().any(|a| alpha[*a].0 != 0)));
        }
        nontrivial += hs.len() as u64;
        let chunk = 16usize;
        let nchunks = (hs.len() + chunk - 1) / chunk;
        let hs = Arc::new(hs);
        let (hs2, ls2, cfg2, alpha2) = (hs.clone(), ls.clone(), cfg.clone(), alpha.clone());
        let outs = run_jobs(nchunks, move |ci| {
            let mut viol: Vec<(Vec<Call>, String, String)> = vec![];
            let mut cache: BTreeMap<Vec<Call>, Vec<Vec<Rec>>> = BTreeMap::new();
            for w in &hs2[ci * chunk..((ci + 1) * chunk).min(hs2.len())] {
                let h: Vec<Call> = w.iter().map(|a| alpha2[*a]).collect();
                let full = transcript(&cfg2, &ls2, &h);
                let mut first_scene_of: BTreeMap<u64, u64> = BTreeMap::new();
                for ((s, _), recs) in h.iter().zip(full.iter()) {
                    for r in recs {
                        let e = first_scene_of.entry(r.id).or_insert(*s);
                        if *e != *s {
                            viol.push((h.clone(), "isolation/track-crosses-scenes".into(), format!("record of scene {s} carries track {} first issued in scene {e}", r.id)));
                        }
                        if r.scene != *s {
                            viol.push((h.clone(), "isolation/record-scene".into(), format!("record of a call on scene {s} reports scene {}", r.scene)));
                        }
                    }
                }
                for s in [0u64, 1, 2] {
                    let proj: Vec<Call> = h.iter().filter(|c| c.0 == s).cloned().collect();
                    if proj.is_empty() {
                        continue;
                    }
                    let solo = cache.entry(proj.clone()).or_insert_with(|| transcript(&cfg2, &ls2, &proj)).clone();
                    let inter: Vec<&Vec<Rec>> = h.iter().zip(full.iter()).filter(|(c, _)| c.0 == s).map(|(_, r)| r).collect();
                    let (mut m, mut rm) = (BTreeMap::new(), BTreeMap::new());
                    for (k, (a, b)) in inter.iter().zip(solo.iter()).enumerate() {
                        if let Err(e) = same_records(a, b, &mut m, &mut rm, false) {
                            viol.push((h.clone(), "isolation/scene-differs-from-solo-run".into(), format!("scene {s}, its call #{k}: {e}")));
                            break;
                        }
                    }
                }
            }
            viol
        });
        for (ci, o) in outs.into_iter().enumerate() {
            match o {
                Ok(v) => {
                    for (h, key, what) in v {
                        rep.violation(Violation { key, what, replay: json!({"config":cfg.json(),"history":hist_json(&ls, &h)}) });
                    }
                }
                Err(e) => rep.violation(Violation { key: format!("{}/panic-or-deadlock", cfg.kind.name()), what: e.chars().take(300).collect(), replay: json!({"config":cfg.json(),"chunk":ci,"first_history":hs[ci * chunk].iter().map(|a| alpha[*a]).collect::<Vec<_>>()}) }),
            }
        }
        total += hs.len() as u64;
        rep.extra(&format!("{}_{:?}", cfg.kind.name(), cfg.pos), json!({"histories":hs.len(),"depth":d}));
    }
    rep.add(total, total * 2, total * 2, 0);
    rep.distinct_count(nontrivial);
    run_multi_scene_batches(&rep, tier);
    run_expiry_family(&rep, tier);
    run_schedules(&rep, tier);
    rep.sample(json!({"history":[[0,2],[1,2],[0,1],[1,5]],"meaning":"(scene, list index); scene 0 and 1 see the same boxes"}));
    rep
}


/// per scene: what a fresh batch tracker of the same configuration reports when it is fed only that scene's
/// part of the batch sequence (sequential use, default schedule)
pub fn solo_runs(cfg: &TrkCfg, variant: usize) -> BTreeMap<u64, Vec<Vec<Rec>>> {
    let bs = super::c06::batches(variant);
    let scenes: std::collections::BTreeSet<u64> = bs.iter().flat_map(|b| b.iter().map(|x| x.0)).collect();
    let c = cfg.clone();
    sched::in_shuttle(move || {
        let mut out = BTreeMap::new();
        for s in scenes.iter().cloned() {
            let mut t = Guarded::new(AnyTrk::new(&c));
            let mut seq = vec![];
            for b in &bs {
                if let Some((_, ds)) = b.iter().find(|x| x.0 == s) {
                    seq.push(t.predict(s, ds));
                }
            }
            out.insert(s, seq);
        }
        out
    })
    .unwrap_or_else(|e| machinery_error(&format!("C04 solo reference run failed: {e}")))
}

/// scene isolation judged on a complete, possibly pipelined run of a batch tracker under an explored
/// schedule: every scene's records equal its solo run up to renaming of ids; no id in two scenes
pub fn batch_isolation_with(ro: &super::c06::RunOut, solo: &BTreeMap<u64, Vec<Vec<Rec>>>) -> Result<(), (String, String)> {
    let mut per_scene: BTreeMap<u64, Vec<Vec<Rec>>> = BTreeMap::new();
    for got in &ro.obs {
        let mut g = got.clone();
        g.sort_by_key(|x| x.0);
        for (s, recs) in g {
            per_scene.entry(s).or_default().push(recs);
        }
    }
    let mut owner: BTreeMap<u64, u64> = BTreeMap::new();
    for (s, seq) in &per_scene {
        let exp = solo.get(s).cloned().unwrap_or_default();
        if exp.len() != seq.len() {
            return Err(("isolation/scene-call-count".into(), format!("scene {s}: {} results, {} calls", seq.len(), exp.len())));
        }
        let (mut m, mut rm) = (BTreeMap::new(), BTreeMap::new());
        for (k, (a, b)) in seq.iter().zip(exp.iter()).enumerate() {
            if let Err(e) = same_records(a, b, &mut m, &mut rm, false) {
                return Err(("isolation/scene-differs-from-its-solo-run".into(), format!("[batch run under an explored schedule] scene {s}, its call #{k}: {e}")));
            }
            for r in a {
                if *owner.entry(r.id).or_insert(*s) != *s {
                    return Err(("isolation/track-crosses-scenes".into(), format!("track {} in scenes {} and {s}", r.id, owner[&r.id])));
                }
            }
        }
    }
    Ok(())
}

pub fn batch_isolation(ro: &super::c06::RunOut, cfg: &TrkCfg, variant: usize) -> Result<(), (String, String)> {
    batch_isolation_with(ro, &solo_runs(cfg, variant))
}

fn run_schedules(rep: &Report, tier: Tier) {
    let mut scen = vec![];
    let slice = tier.pick(2.0f64, 60.0f64);
    for kind in [Kind::BatchSort, Kind::BatchVisualSort] {
        // (voting shards, batch variant, discipline, largest deviation bound)
        let plan: Vec<(usize, usize, usize, usize)> = vec![(1, 4, 1, tier.pick(2, 4)), (2, 4, 1, tier.pick(2, 4)), (2, 1, 1, tier.pick(2, 4))];
        for (vs, variant, discipline, max_bound) in plan {
            let mut cfg = TrkCfg::new(kind);
            cfg.shards = 1;
            cfg.voting_shards = vs;
            cfg.max_idle = 2;
            let solo = solo_runs(&cfg, variant);
            scen.push(super::c06::explore_batch(rep, "isolation", &cfg, variant, discipline, false, max_bound, slice, &|o| batch_isolation_with(o, &solo)));
        }
        // the same pipelined run with every synchronisation operation a decision point (one deviation quick)
        {
            let mut cfg = TrkCfg::new(kind);
            cfg.shards = 1;
            cfg.voting_shards = 2;
            cfg.max_idle = 2;
            let solo = solo_runs(&cfg, 1);
            scen.push(super::c06::explore_batch(rep, "isolation", &cfg, 1, 1, true, tier.pick(1, 2), slice, &|o| batch_isolation_with(o, &solo)));
        }
    }
    rep.extra("schedule_part", json!(scen));
}

/// Expiry family: tracks expire at once (max_idle 0) and the store-wide collection of expired tracks
/// runs every 1 / 2 / 3 calls, so calls on another scene shift the moment at which a scene's expired
/// track is physically removed; what a scene's re-appearing object is attached to must not depend on it.
fn run_expiry_family(rep: &Report, tier: Tier) {
    let ls: Arc<Vec<Vec<Det>>> = Arc::new(vec![vec![p().feat(&fa(), 0.9)], vec![q().shift(3.0, 1.0).feat(&fb(), 0.9)], vec![p1().feat(&fa1(), 0.9), q()]]);
    let alpha: Vec<Call> = [0u64, 1].iter().flat_map(|s| (0..ls.len()).map(move |l| (*s, l))).collect();
    let depth = tier.pick(5usize, 6usize);
    let mut hs: Vec<Vec<usize>> = vec![];
    for len in 3..=depth {
        hs.extend(words(alpha.len(), len).into_iter().filter(|w| alpha[w[0]].0 == 0 && w.iter().any(|a| alpha[*a].0 != 0)));
    }
    let hs = Arc::new(hs);
    let mut total = 0u64;
    for kind in Kind::all() {
        for period in [1usize, 2, 3] {
            if rep.out_of_time() {
                rep.cap_hit("wall budget reached in the expiry family");
                return;
            }
            let mut cfg = TrkCfg::new(kind);
            cfg.max_idle = 0;
            cfg.vis.min_track_len = 1;
            let chunk = 32usize;
            let nchunks = (hs.len() + chunk - 1) / chunk;
            let (hs2, ls2, cfg2, alpha2) = (hs.clone(), ls.clone(), cfg.clone(), alpha.clone());
            let run = move |cfg: &TrkCfg, ls: &[Vec<Det>], h: &[Call]| -> Vec<Vec<Rec>> {
                let mut t = Guarded::new(AnyTrk::new(cfg));
                t.set_auto_waste(period);
                h.iter().map(|(s, l)| t.predict(*s, &ls[*l])).collect()
            };
            let outs = run_jobs(nchunks, move |ci| {
                let mut viol: Vec<(Vec<Call>, String, String)> = vec![];
                let mut cache: BTreeMap<Vec<Call>, Vec<Vec<Rec>>> = BTreeMap::new();
                for w in &hs2[ci * chunk..((ci + 1) * chunk).min(hs2.len())] {
                    let h: Vec<Call> = w.iter().map(|a| alpha2[*a]).collect();
                    let full = run(&cfg2, &ls2, &h);
                    for s in [0u64, 1] {
                        let proj: Vec<Call> = h.iter().filter(|c| c.0 == s).cloned().collect();
                        if proj.is_empty() {
                            continue;
                        }
                        let solo = cache.entry(proj.clone()).or_insert_with(|| run(&cfg2, &ls2, &proj)).clone();
                        let inter: Vec<&Vec<Rec>> = h.iter().zip(full.iter()).filter(|(c, _)| c.0 == s).map(|(_, r)| r).collect();
                        let (mut m, mut rm) = (BTreeMap::new(), BTreeMap::new());
                        for (k, (a, b)) in inter.iter().zip(solo.iter()).enumerate() {
                            if let Err(e) = same_records(a, b, &mut m, &mut rm, false) {
                                viol.push((h.clone(), "isolation/scene-differs-from-solo-run/expiry".into(), format!("scene {s}, its call #{k}: {e}")));
                                break;
                            }
                        }
                    }
                }
                viol
            });
            for o in outs {
                match o {
                    Ok(v) => {
                        for (h, key, what) in v {
                            rep.violation(Violation { key, what, replay: json!({"config":cfg.json(),"auto_waste_period":period,"history":hist_json(&ls, &h)}) });
                        }
                    }
                    Err(e) => rep.violation(Violation { key: format!("{}/panic-or-deadlock", cfg.kind.name()), what: e.chars().take(300).collect(), replay: json!({"config":cfg.json(),"auto_waste_period":period}) }),
                }
            }
            total += hs.len() as u64;
        }
    }
    rep.add(total, total * 2, total * 2, 0);
    rep.extra("expiry_family", json!({"histories_per_configuration":hs.len(),"configurations":12,"depth":depth}));
}

/// C05 (1): transcripts for shard counts 2..8 equal the 1-shard transcript
pub fn run_c05_configs(rep: &Report, tier: Tier) {
    let ls = Arc::new(tie_free_lists());
    let nl = ls.len();
    let alpha: Vec<Call> = [0u64, 5].iter().flat_map(|s| (0..nl).map(move |l| (*s, l))).collect();
    let depth = tier.pick(3usize, 4usize);
    let mut total = 0u64;
    for kind in Kind::all() {
        for pos in [Pos::Iou(0.3), Pos::Maha] {
            if rep.out_of_time() {
                rep.cap_hit("wall budget reached in the shard-count differential");
                return;
            }
            let mut base = TrkCfg::new(kind);
            base.pos = pos;
            base.max_idle = 2;
            let d = if kind == Kind::Sort { depth } else { depth - 1 };
            let mut hs: Vec<Vec<usize>> = vec![];
            for len in 1..=d {
                hs.extend(words(alpha.len(), len).into_iter().filter(|w| alpha[w[0]].0 == 0));
            }
            let chunk = 16usize;
            let nchunks = (hs.len() + chunk - 1) / chunk;
            let hs = Arc::new(hs);
            let (hs2, ls2, base2, alpha2) = (hs.clone(), ls.clone(), base.clone(), alpha.clone());
            let shard_counts: Vec<usize> = if tier == Tier::Quick && kind != Kind::Sort { vec![2, 3, 8] } else { (2..=8).collect() };
            let sc2 = shard_counts.clone();
            let outs = run_jobs(nchunks, move |ci| {
                let mut viol: Vec<(Vec<Call>, String, String)> = vec![];
                for w in &hs2[ci * chunk..((ci + 1) * chunk).min(hs2.len())] {
                    let h: Vec<Call> = w.iter().map(|a| alpha2[*a]).collect();
                    let reference = transcript(&base2, &ls2, &h);
                    for &k in &sc2 {
                        let mut c = base2.clone();
                        c.shards = k;
                        c.voting_shards = if k > 3 { 2 } else { k };
                        let t = transcript(&c, &ls2, &h);
                        let (mut m, mut rm) = (BTreeMap::new(), BTreeMap::new());
                        for (i, (a, b)) in t.iter().zip(reference.iter()).enumerate() {
                            if let Err(e) = same_records(a, b, &mut m, &mut rm, !base2.kind.is_batch()) {
                                viol.push((h.clone(), "shard-count/transcript-differs".into(), format!("{k} shards vs 1 shard, call #{i}: {e}")));
                                break;
                            }
                        }
                    }
                }
                viol
            });
            for o in outs {
                match o {
                    Ok(v) => {
                        for (h, key, what) in v {
                            rep.violation(Violation { key, what, replay: json!({"part":"shard-count differential","config":base.json(),"history":hist_json(&ls, &h)}) });
                        }
                    }
                    Err(e) => rep.violation(Violation { key: format!("{}/panic-or-deadlock", kind.name()), what: e.chars().take(300).collect(), replay: json!({"part":"shard-count differential","config":base.json()}) }),
                }
            }
            total += hs.len() as u64 * shard_counts.len() as u64;
            rep.add(hs.len() as u64, hs.len() as u64 * (1 + shard_counts.len() as u64), hs.len() as u64 * shard_counts.len() as u64, 0);
        }
    }
    // contention family: two tracks A (x = 0) and B (x = 5) whose boxes overlap, then two detections that both
    // prefer the same track, so that one of them has to fall back to its second choice; three id layouts (a far
    // object listed first / in the middle / not at all) put A and B into the same or into different shards
    {
        let xs = [0.37f32, 1.13, 2.21, 3.07, 4.19, 4.83];
        let far = Det::ltwh(400.0, 300.0, 10.0, 20.0);
        let (a0, b0) = (Det::ltwh(0.0, 0.0, 10.0, 20.0), Det::ltwh(5.0, 0.0, 10.0, 20.0));
        let layouts: Vec<Vec<Det>> = vec![vec![a0.clone(), b0.clone()], vec![a0.clone(), far.clone(), b0.clone()], vec![far.clone(), a0.clone(), b0.clone()], vec![b0.clone(), far.clone(), far.shift(50.0, 0.0), a0.clone()]];
        let mut cases: Vec<Vec<Vec<Det>>> = vec![];
        for l in &layouts {
            for &x in &xs {
                for &y in &xs {
                    if x == y {
                        continue;
                    }
                    let f2 = vec![Det::ltwh(x, 0.6, 10.0, 20.0), Det::ltwh(y, -0.4, 10.0, 20.0).conf(0.9)];
                    let f3 = vec![Det::ltwh(y + 0.5, 0.0, 10.0, 20.0), Det::ltwh(x + 0.25, 0.3, 10.0, 20.0), Det::ltwh(2.6, 1.0, 10.0, 20.0).conf(0.8)];
                    cases.push(vec![l.clone(), f2, f3]);
                }
            }
        }
        let cases = Arc::new(cases);
        let mut runs = 0u64;
        for kind in [Kind::Sort, Kind::BatchSort, Kind::VisualSort] {
            for pos in [Pos::Iou(0.3), Pos::Maha] {
                let mut base = TrkCfg::new(kind);
                base.pos = pos;
                base.max_idle = 2;
                let (cs, b2) = (cases.clone(), base.clone());
                let chunk = 8usize;
                let nchunks = (cases.len() + chunk - 1) / chunk;
                let outs = run_jobs(nchunks, move |ci| {
                    let mut viol: Vec<(usize, String)> = vec![];
                    for k in ci * chunk..((ci + 1) * chunk).min(cs.len()) {
                        let run = |cfg: &TrkCfg| -> Vec<Vec<Rec>> {
                            let mut t = Guarded::new(AnyTrk::new(cfg));
                            cs[k].iter().map(|f| t.predict(0, f)).collect()
                        };
                        let reference = run(&b2);
                        for shards in [2usize, 3, 4, 5] {
                            let mut c = b2.clone();
                            c.shards = shards;
                            c.voting_shards = shards.min(2);
                            let t = run(&c);
                            let (mut m, mut rm) = (BTreeMap::new(), BTreeMap::new());
                            for (i, (x, y)) in t.iter().zip(reference.iter()).enumerate() {
                                if let Err(e) = same_records(x, y, &mut m, &mut rm, !b2.kind.is_batch()) {
                                    viol.push((k, format!("{shards} shards vs 1 shard, call #{i}: {e}")));
                                    break;
                                }
                            }
                        }
                    }
                    viol
                });
                for o in outs {
                    match o {
                        Ok(v) => {
                            for (k, what) in v {
                                rep.violation(Violation { key: "shard-count/transcript-differs".into(), what, replay: json!({"part":"shard-count differential, contention family","config":base.json(),"frames":cases[k].iter().map(|f| f.iter().map(|d| d.json()).collect::<Vec<_>>()).collect::<Vec<_>>()}) });
                            }
                        }
                        Err(e) => rep.violation(Violation { key: format!("{}/panic-or-deadlock", kind.name()), what: e.chars().take(300).collect(), replay: json!({"part":"shard-count differential, contention family","config":base.json()}) }),
                    }
                }
                runs += cases.len() as u64 * 4;
                rep.add(cases.len() as u64, cases.len() as u64 * 5, cases.len() as u64 * 4, 0);
            }
        }
        total += runs;
        rep.extra("shard_count_contention_family_runs", json!(runs));
    }
    // expiry family: tracks expire and are collected (skip, wasted(), idle lookups) between the calls - with more
    // shards than tracks some shard workers have nothing to report; every shard count 1..=8 gives the same records,
    // the same expired tracks and the same idle lists
    {
        let (pd, qd) = (Det::ltwh(0.0, 0.0, 10.0, 20.0), Det::ltwh(100.0, 0.0, 10.0, 20.0));
        // ops: 0 predict [P], 1 predict [P, Q], 2 predict [Q], 3 skip 2 epochs, 4 wasted(), 5 idle(), 6 predict []
        // (an empty frame leaves both objects idle but not expired: an idle list with tracks of several shards)
        let nops = 7usize;
        let mut hs: Vec<Vec<usize>> = vec![];
        for len in 2..=tier.pick(4usize, 5usize) {
            hs.extend(words(nops, len).into_iter().filter(|w| w[0] <= 2 && (w.iter().any(|o| *o == 3) || w.iter().any(|o| *o == 6) && w.iter().any(|o| *o == 4 || *o == 5))));
        }
        let hs = Arc::new(hs);
        let mut runs = 0u64;
        for kind in [Kind::Sort, Kind::VisualSort, Kind::BatchSort] {
            let mut base = TrkCfg::new(kind);
            base.max_idle = 1;
            let (hs2, b2, pd2, qd2) = (hs.clone(), base.clone(), pd.clone(), qd.clone());
            let chunk = 16usize;
            let nchunks = (hs.len() + chunk - 1) / chunk;
            let outs = run_jobs(nchunks, move |ci| {
                let mut viol: Vec<(Vec<usize>, String)> = vec![];
                for w in &hs2[ci * chunk..((ci + 1) * chunk).min(hs2.len())] {
                    let run = |cfg: &TrkCfg| -> Vec<String> {
                        let mut t = Guarded::new(AnyTrk::new(cfg));
                        w.iter()
                            .map(|o| match o {
                                0 => format!("{:?}", t.predict(0, &[pd2.clone()])),
                                1 => format!("{:?}", t.predict(0, &[pd2.clone(), qd2.clone()])),
                                2 => format!("{:?}", t.predict(0, &[qd2.clone()])),
                                3 => {
                                    t.skip(0, 2);
                                    String::new()
                                }
                                4 => {
                                    let mut l = t.wasted().iter().map(|x| (x.id, x.epoch, x.length)).collect::<Vec<_>>();
                                    l.sort();
                                    format!("{l:?}")
                                }
                                6 => format!("{:?}", t.predict(0, &[])),
                                _ => {
                                    let mut l = t.idle(0).iter().map(|x| (x.id, x.epoch, x.length)).collect::<Vec<_>>();
                                    l.sort();
                                    format!("{l:?}")
                                }
                            })
                            .collect()
                    };
                    let reference = run(&b2);
                    for shards in [2usize, 3, 4, 8] {
                        let mut c = b2.clone();
                        c.shards = shards;
                        c.voting_shards = 1;
                        let t = run(&c);
                        if t != reference {
                            viol.push((w.clone(), format!("{shards} shards: {t:?}; 1 shard: {reference:?}")));
                            break;
                        }
                    }
                }
                viol
            });
            for (ci, o) in outs.into_iter().enumerate() {
                match o {
                    Ok(v) => {
                        for (w, what) in v {
                            rep.violation(Violation { key: "shard-count/transcript-differs".into(), what, replay: json!({"part":"shard-count differential, expiry family","config":base.json(),"ops":w,"legend":"0 predict [P], 1 predict [P,Q], 2 predict [Q], 3 skip 2 epochs, 4 wasted(), 5 idle(), 6 predict []"}) });
                        }
                    }
                    Err(e) => rep.violation(Violation { key: format!("shard-count/{}/panic-or-deadlock", kind.name()), what: e.chars().take(300).collect(), replay: json!({"part":"shard-count differential, expiry family","config":base.json(),"first_history_of_the_chunk":hs[ci * chunk]}) }),
                }
            }
            runs += hs.len() as u64 * 4;
            rep.add(hs.len() as u64, hs.len() as u64 * 5, hs.len() as u64 * 4, 0);
        }
        total += runs;
        rep.extra("shard_count_expiry_family_runs", json!(runs));
    }
    rep.extra("shard_count_differential_runs", json!(total));
}

/// Batch trackers: several scenes submitted in ONE batch. Every scene's records must equal those of a
/// fresh tracker of the same kind that is fed only that scene (single-scene batches).
pub fn run_multi_scene_batches(rep: &Report, tier: Tier) {
    // every detection of the menu carries its OWN feature vector (the three looks plus a small component unique to
    // the detection): two tracks that hold bit-identical features give a third detection two appearance claims of
    // exactly equal weight - an exact tie, which the property excludes and the library breaks by hash order
    // (the thorough tier met this at depth 3: [list 2, list 1, list 2] puts the look b into two tracks)
    let uniq = |base: Vec<f32>, k: usize| -> Vec<f32> {
        let mut v = base;
        v[9] = 0.004 * (k as f32 + 1.0);
        v
    };
    let (a, a1, b) = (fa(), fa1(), fb());
    let ls: Arc<Vec<Vec<Det>>> = Arc::new(vec![
        vec![p().feat(&uniq(a.clone(), 0), 0.9)],
        vec![p().feat(&uniq(a.clone(), 1), 0.9), p().shift(2.0, 0.0).feat(&uniq(b.clone(), 2), 0.9)], // mutual occlusion: low own-area shares
        // (0.5, 1.0) and not (1, 1): the latter is equidistant from the two boxes of the previous list - an exact tie
        vec![q().feat(&uniq(b.clone(), 3), 0.9), p().shift(0.5, 1.0).feat(&uniq(a1.clone(), 4), 0.9)],
        vec![p().shift(30.0, 0.0).feat(&uniq(a.clone(), 5), 0.9)],                   // moved beyond positional reach: only the feature vote re-attaches
        vec![p().shift(0.25, 0.5).feat(&uniq(a1.clone(), 6), 0.9)],
    ]);
    let nl = ls.len();
    // ops: single-scene batches and two-scene batches
    let mut ops: Vec<Vec<Call>> = vec![];
    for s in [0u64, 1] {
        for l in 0..nl {
            ops.push(vec![(s, l)]);
        }
    }
    for l0 in 0..nl {
        for l1 in 0..nl {
            ops.push(vec![(0, l0), (1, l1)]);
        }
    }
    let ops = Arc::new(ops);
    let depth = tier.pick(2usize, 3usize);
    let mut cfgs = vec![];
    for (kind, own) in [(Kind::BatchVisualSort, (0.5f32, 0.2f32)), (Kind::BatchVisualSort, (0.5, 0.0)), (Kind::BatchVisualSort, (0.0, 0.0)), (Kind::BatchSort, (0.0, 0.0))] {
        for vshards in [1usize, 2] {
            let mut c = TrkCfg::new(kind);
            c.max_idle = 2;
            c.shards = 1;
            c.voting_shards = vshards;
            c.vis.min_track_len = 1;
            c.vis.own_use = own.0;
            c.vis.own_collect = own.1;
            c.vis.q_use = 0.3;
            c.vis.q_collect = 0.3;
            cfgs.push(c);
        }
    }
    let mut total = 0u64;
    let mut skipped_ties = 0u64;
    for cfg in cfgs {
        if rep.out_of_time() {
            rep.cap_hit("wall budget reached in the multi-scene batch part");
            return;
        }
        let mut hs: Vec<Vec<usize>> = vec![];
        for len in 1..=depth {
            hs.extend(words(ops.len(), len).into_iter().filter(|w| w.iter().any(|o| ops[*o].len() > 1)));
        }
        let chunk = 16usize;
        let nchunks = (hs.len() + chunk - 1) / chunk;
        let hs = Arc::new(hs);
        let (hs2, ls2, cfg2, ops2) = (hs.clone(), ls.clone(), cfg.clone(), ops.clone());
        let outs = run_jobs(nchunks, move |ci| {
            let mut viol: Vec<(Vec<Vec<Call>>, String, String)> = vec![];
            let mut ties = 0u64;
            let mut cache: BTreeMap<Vec<Call>, Vec<Vec<Rec>>> = BTreeMap::new();
            for w in &hs2[ci * chunk..((ci + 1) * chunk).min(hs2.len())] {
                let h: Vec<Vec<Call>> = w.iter().map(|o| ops2[*o].clone()).collect();
                // the run with multi-scene batches
                let mut t = Guarded::new(AnyTrk::new(&cfg2));
                let mut per_scene: BTreeMap<u64, Vec<Vec<Rec>>> = BTreeMap::new();
                let mut ok = true;
                for op in &h {
                    let batch: Vec<(u64, Vec<Det>)> = op.iter().map(|(s, l)| (*s, ls2[*l].clone())).collect();
                    let res = t.predict_batch(&batch);
                    if res.len() != op.len() {
                        viol.push((h.clone(), "isolation/batch-result-count".into(), format!("{} results for {} scenes", res.len(), op.len())));
                        ok = false;
                        break;
                    }
                    for (s, recs) in res {
                        per_scene.entry(s).or_default().push(recs);
                    }
                }
                drop(t);
                if !ok {
                    continue;
                }
                for (s, inter) in &per_scene {
                    let proj: Vec<Call> = h.iter().flat_map(|op| op.iter().filter(|c| c.0 == *s).cloned()).collect();
                    let solo = cache.entry(proj.clone()).or_insert_with(|| transcript(&cfg2, &ls2, &proj)).clone();
                    let (mut m, mut rm) = (BTreeMap::new(), BTreeMap::new());
                    for (k, (x, y)) in inter.iter().zip(solo.iter()).enumerate() {
                        if let Err(e) = same_records(x, y, &mut m, &mut rm, false) {
                            // a difference counts only if the solo run itself is reproducible: an exact tie (broken by
                            // the hash order of a fresh map in every run) makes the solo transcripts differ among themselves
                            let reproducible = (0..6).all(|_| transcript(&cfg2, &ls2, &proj) == solo);
                            if reproducible {
                                viol.push((h.clone(), "isolation/scene-in-shared-batch-differs-from-solo-run".into(), format!("scene {s}, its call #{k}: {e}")));
                            } else {
                                ties += 1;
                            }
                            break;
                        }
                    }
                }
            }
            (viol, ties)
        });
        for o in outs {
            match o {
                Ok((v, t)) => {
                    skipped_ties += t;
                    for (h, key, what) in v {
                        rep.violation(Violation { key, what, replay: json!({"part":"multi-scene batches","config":cfg.json(),"batches":h,"lists":ls.iter().map(|l| l.iter().map(|d| d.json()).collect::<Vec<_>>()).collect::<Vec<_>>()}) });
                    }
                }
                Err(e) => rep.violation(Violation { key: format!("{}/panic-or-deadlock", cfg.kind.name()), what: e.chars().take(300).collect(), replay: json!({"part":"multi-scene batches","config":cfg.json()}) }),
            }
        }
        total += hs.len() as u64;
        rep.add(hs.len() as u64, hs.len() as u64 * 3, hs.len() as u64 * 3, 0);
    }
    rep.distinct_count(total);
    rep.extra("multi_scene_batch_histories", json!(total));
    rep.extra("multi_scene_batch_histories_skipped_because_the_solo_run_is_not_reproducible", json!(skipped_ties));
}
