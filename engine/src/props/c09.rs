//! C09 — the track store is a faithful id->track map and reports merge failures.
//! Engine A: breadth-first search over operation sequences with exact-state de-duplication; the
//! real TrackStore (inside the shuttle runtime, default schedule) in lock-step with a BTreeMap model.
//! The non-blocking merge is additionally explored under all schedules (engine B).

use super::store_h::*;
use super::tmodel::*;
use crate::common::*;
use crate::sched::{self, in_shuttle, Guarded};
use serde_json::json;
use similari::prelude::TrackStoreBuilder;
use similari::track::TrackStatus;
use std::collections::{BTreeMap, HashSet};
use std::sync::{Arc, Mutex};

#[derive(Clone, Debug, PartialEq)]
pub enum Op {
    /// add_track(new_track(id) [+ one observation in class 0])
    AddTrack(u64, bool),
    /// add(id, variant)
    Add(u64, u8),
    /// add(id, ..) whose attribute update (0) or observation optimisation (1) fails
    AddFault(u64, u8),
    Fetch(Vec<u64>),
    /// merge_owned(dest, src, variant): variants = (classes, remove, history)
    MergeOwned(u64, u64, u8),
    /// merge_owned with the attribute merge callback failing
    MergeOwnedFault(u64, u64),
    /// merge_external(dest, external track 9 / track with id == dest, variant)
    MergeExternal(u64, u8),
    MergeNoblock(u64),
    Lookup(u8),
    FindUsable,
    Clear,
    /// clear_wasted(): removes exactly the stored tracks whose status is Wasted
    ClearWasted,
    Stats,
}

fn add_variant(v: u8) -> (u64, Option<f32>, Option<Vec<f32>>, Option<HUpdate>) {
    match v {
        0 => (0, Some(1.0), None, None),
        1 => (1, Some(2.0), Some(vec![0.5, 1.5, 2.5]), Some(HUpdate { add: 1, group: None })),
        2 => (0, None, None, Some(HUpdate { add: 1, group: Some(1) })),
        3 => (0, None, None, None),
        _ => (0, Some(4.0), Some(vec![1.0; 9]), Some(HUpdate { add: 2, group: None })),
    }
}

fn owned_variant(v: u8) -> (Option<Vec<u64>>, bool, bool) {
    match v {
        0 => (None, false, true),
        1 => (Some(vec![0]), true, false),
        _ => (None, true, true),
    }
}

pub fn alphabet() -> Vec<Op> {
    let mut a = vec![];
    for i in 1..=3u64 {
        a.push(Op::AddTrack(i, false));
    }
    for i in 1..=3u64 {
        a.push(Op::AddTrack(i, true));
    }
    for i in 1..=3u64 {
        for v in 0..5u8 {
            a.push(Op::Add(i, v));
        }
    }
    for i in 1..=3u64 {
        for w in 0..2u8 {
            a.push(Op::AddFault(i, w));
        }
    }
    for i in 1..=3u64 {
        a.push(Op::Fetch(vec![i]));
    }
    a.push(Op::Fetch(vec![1, 2]));
    a.push(Op::Fetch(vec![3, 1]));
    // three ids: two of one shard (for 2 shards: 1 and 3) followed by one of another, and the other way round
    a.push(Op::Fetch(vec![1, 3, 2]));
    a.push(Op::Fetch(vec![2, 3, 1]));
    for (d, s) in [(1u64, 2u64), (2, 1), (1, 3), (3, 3), (2, 3)] {
        for v in 0..3u8 {
            a.push(Op::MergeOwned(d, s, v));
        }
    }
    a.push(Op::MergeOwnedFault(1, 2));
    a.push(Op::MergeOwnedFault(3, 1));
    for d in 1..=3u64 {
        for v in 0..3u8 {
            a.push(Op::MergeExternal(d, v));
        }
    }
    a.push(Op::MergeNoblock(1));
    a.push(Op::MergeNoblock(2));
    for q in 0..3u8 {
        a.push(Op::Lookup(q));
    }
    a.push(Op::FindUsable);
    a.push(Op::Clear);
    a.push(Op::ClearWasted);
    a.push(Op::Stats);
    a
}

type Model = BTreeMap<u64, TrackDump>;

fn status_of(t: &TrackDump) -> u8 {
    // 0 Pending, 1 Ready, 2 Wasted, 9 = the status computation fails (same code as status_code gives an Err)
    match t.counter % 4 {
        3 => 9,
        c => c as u8,
    }
}

fn status_code(s: &anyhow::Result<TrackStatus>) -> u8 {
    match s {
        Ok(TrackStatus::Pending) => 0,
        Ok(TrackStatus::Ready) => 1,
        Ok(TrackStatus::Wasted) => 2,
        Err(_) => 9,
    }
}

pub fn external_track(id: u64) -> (HTrack, TrackDump) {
    disarm();
    let mut t = HTrack::new(id, HMetric::default(), HAttrs { counter: 1, ..Default::default() }, HNotifier);
    let mut m = m_new(id);
    m.counter = 1;
    let mut cx = MCtx::new(FaultPlan::default());
    t.add_observation(0, Some(3.5), Some(feat(&[1.0, 1.0])), None).unwrap();
    m_add_observation(&mut m, 0, Some(3.5), Some(&[1.0, 1.0]), None, &mut cx).unwrap();
    t.add_observation(1, Some(0.5), None, None).unwrap();
    m_add_observation(&mut m, 1, Some(0.5), None, None, &mut cx).unwrap();
    let _ = take_notifications();
    (t, m)
}

/// Apply `op` to the real store and to the model; Err(key, what) on disagreement.
fn step(store: &mut HStore, model: &mut Model, op: &Op, shards: usize) -> Result<(), (String, String)> {
    let _ = take_notifications();
    let bad = |k: &str, w: String| Err((k.to_string(), w));
    match op {
        Op::AddTrack(id, with_obs) => {
            let mut b = store.new_track(*id);
            let mut m = m_new(*id);
            if *with_obs {
                b = b.observation((0u64, Some(2.0f32), Some(feat(&[0.25, 0.75])), None));
                m_add_observation(&mut m, 0, Some(2.0), Some(&[0.25, 0.75]), None, &mut MCtx::new(FaultPlan::default())).unwrap();
            }
            let t = b.build().map_err(|e| ("add_track/build".to_string(), e.to_string()))?;
            if dump_track(&t) != m {
                return bad("new_track/differs-from-model", format!("{:?} vs {m:?}", dump_track(&t)));
            }
            let _ = take_notifications();
            let r = store.add_track(t);
            let exp_ok = !model.contains_key(id);
            if r.is_ok() != exp_ok {
                return bad("add_track/duplicate-handling", format!("add_track({id}) returned {r:?}, id present: {}", !exp_ok));
            }
            if let Ok(rid) = r {
                if rid != *id {
                    return bad("add_track/returned-id", format!("{rid}"));
                }
                model.insert(*id, m);
            }
        }
        Op::Add(id, v) => {
            let (cls, attr, f, upd) = add_variant(*v);
            let r = store.add(*id, cls, attr, f.as_ref().map(|x| feat(x)), upd.clone());
            let notes = take_notifications();
            let mut cx = MCtx::new(FaultPlan::default());
            if let Some(t) = model.get_mut(id) {
                let n = m_add_observation(t, cls, attr, f.as_deref(), upd.as_ref(), &mut cx).unwrap();
                if r.is_err() {
                    return bad("add/existing/error", format!("{r:?}"));
                }
                if notes.len() as u32 != n {
                    return bad("add/existing/notifications", format!("{} notifications, expected {n}", notes.len()));
                }
            } else {
                // a missing track is created exactly as new_track(id).observation(..).build() + add_track would
                let mut t = m_new(*id);
                let n = 1 + m_add_observation(&mut t, cls, attr, f.as_deref(), upd.as_ref(), &mut cx).unwrap();
                if r.is_err() {
                    return bad("add/missing/error", format!("{r:?}"));
                }
                model.insert(*id, t);
                if notes.len() as u32 != n {
                    return bad("add/missing-id/notifications", format!("{} notifications, the builder path sends {n}", notes.len()));
                }
            }
        }
        Op::AddFault(id, which) => {
            let (cls, attr, f, upd) = add_variant(if *which == 0 { 1 } else { 0 });
            arm(if *which == 0 { FaultPlan { fail_apply: true, ..Default::default() } } else { FaultPlan { fail_optimize_kth: Some(1), ..Default::default() } });
            let r = store.add(*id, cls, attr, f.as_ref().map(|x| feat(x)), upd.clone());
            disarm();
            let notes = take_notifications();
            if r.is_ok() {
                return bad("add/ok-despite-callback-error", format!("add({id}, ..) = Ok although the {} fails", if *which == 0 { "attribute update" } else { "observation optimisation" }));
            }
            // the model is unchanged: an existing track is left as it was; a missing one is NOT created (building
            // it externally fails, so there is nothing to insert) - the store dump is compared after the step
            if model.contains_key(id) && !notes.is_empty() {
                return bad("add/notification-on-failure", format!("{notes:?}"));
            }
        }
        Op::Fetch(ids) => {
            let got = store.fetch_tracks(ids);
            let mut exp: Vec<TrackDump> = vec![];
            for id in ids {
                if let Some(t) = model.remove(id) {
                    exp.push(t);
                }
            }
            let mut g: Vec<TrackDump> = got.iter().map(dump_track).collect();
            g.sort();
            exp.sort();
            if g != exp {
                return bad("fetch/result", format!("fetched {g:?}, expected {exp:?}"));
            }
        }
        Op::MergeOwned(d, s, v) => {
            let (classes, remove, history) = owned_variant(*v);
            let r = store.merge_owned(*d, *s, classes.as_deref(), remove, history);
            let notes = take_notifications();
            let exp_ok = d != s && model.contains_key(d) && model.contains_key(s);
            match (&r, exp_ok) {
                (Ok(ret), true) => {
                    let src = model.get(s).unwrap().clone();
                    let list: Vec<u64> = match &classes {
                        Some(l) if !l.is_empty() => l.clone(),
                        _ => src.obs.keys().cloned().collect(),
                    };
                    let dest = model.get_mut(d).unwrap();
                    let (n, rule) = m_merge(dest, &src, &list, history, &mut MCtx::new(FaultPlan::default())).unwrap();
                    // adopt the implementation's history when the rule admits it (checked below via the dump)
                    if let HistoryRule::Either(_, b) = &rule {
                        let g = store.get_store(*d as usize);
                        if let Some(t) = g.get(d) {
                            if t.get_merge_history() == b {
                                dest.history = b.clone();
                            }
                        }
                    }
                    if notes.len() as u32 != n {
                        return bad("merge_owned/notifications", format!("{} notifications, expected {n}", notes.len()));
                    }
                    if remove {
                        model.remove(s);
                        match ret {
                            Some(t) if dump_track(t) == src => {}
                            other => return bad("merge_owned/returned-source", format!("returned {:?}, expected the source {src:?}", other.as_ref().map(dump_track))),
                        }
                    } else if ret.is_some() {
                        return bad("merge_owned/returned-source", "returned the source although it was to be kept".into());
                    }
                }
                (Err(_), false) => {
                    if !notes.is_empty() {
                        return bad("merge_owned/notification-on-failure", format!("{notes:?}"));
                    }
                }
                (Ok(ret), false) => {
                    return bad(
                        if !model.contains_key(d) { "merge_owned/ok-for-missing-destination" } else if d == s { "merge_owned/ok-for-same-track" } else { "merge_owned/ok-for-missing-source" },
                        format!("merge_owned({d},{s},remove={remove}) = Ok({:?}) although dest present: {}, src present: {}", ret.as_ref().map(|t| t.get_track_id()), model.contains_key(d), model.contains_key(s)),
                    )
                }
                (Err(e), true) => return bad("merge_owned/unexpected-error", format!("{e}")),
            }
        }
        Op::MergeOwnedFault(d, s) => {
            arm(FaultPlan { fail_attr_merge: true, ..Default::default() });
            let r = store.merge_owned(*d, *s, None, true, true);
            disarm();
            let notes = take_notifications();
            if r.is_ok() {
                return bad("merge_owned/ok-despite-merge-error", format!("merge_owned({d},{s}) = Ok although the attribute merge fails (or a track is missing)"));
            }
            if !notes.is_empty() {
                return bad("merge_owned/notification-on-failure", format!("{notes:?}"));
            }
        }
        Op::MergeExternal(d, v) => {
            let same = *v == 2;
            let (ext, mext) = external_track(if same { *d } else { 9 });
            let (classes, history): (Option<Vec<u64>>, bool) = if *v == 1 { (Some(vec![1]), false) } else { (None, true) };
            let r = store.merge_external(*d, &ext, classes.as_deref(), history);
            let notes = take_notifications();
            let exp_ok = !same && model.contains_key(d);
            match (&r, exp_ok) {
                (Ok(()), true) => {
                    let list: Vec<u64> = match &classes {
                        Some(l) => l.clone(),
                        None => mext.obs.keys().cloned().collect(),
                    };
                    let dest = model.get_mut(d).unwrap();
                    let (n, _) = m_merge(dest, &mext, &list, history, &mut MCtx::new(FaultPlan::default())).unwrap();
                    if notes.len() as u32 != n {
                        return bad("merge_external/notifications", format!("{} notifications, expected {n}", notes.len()));
                    }
                }
                (Err(_), false) => {}
                (Ok(()), false) => return bad(if same { "merge_external/ok-for-same-track" } else { "merge_external/ok-for-missing-destination" }, format!("merge_external({d}) = Ok, destination present: {}", model.contains_key(d))),
                (Err(e), true) => return bad("merge_external/unexpected-error", format!("{e}")),
            }
        }
        Op::MergeNoblock(d) => {
            let (ext, mext) = external_track(9);
            let fut = store.merge_external_noblock(*d, ext, None, true).map_err(|e| ("merge_noblock/send".to_string(), e.to_string()))?;
            let r = fut.get();
            let exp_ok = model.contains_key(d);
            match (&r, exp_ok) {
                (Ok(()), true) => {
                    let list: Vec<u64> = mext.obs.keys().cloned().collect();
                    m_merge(model.get_mut(d).unwrap(), &mext, &list, true, &mut MCtx::new(FaultPlan::default())).unwrap();
                }
                (Err(_), false) => {}
                (Ok(()), false) => return bad("merge_noblock/ok-for-missing-destination", format!("future.get() = Ok for missing destination {d}")),
                (Err(e), true) => return bad("merge_noblock/unexpected-error", format!("{e}")),
            }
        }
        Op::Lookup(q) => {
            let (query, pred): (HLookup, Box<dyn Fn(&TrackDump) -> bool>) = match q {
                0 => (HLookup::Group(1), Box::new(|t: &TrackDump| t.group == 1)),
                1 => (HLookup::HasClass(1), Box::new(|t: &TrackDump| t.obs.contains_key(&1))),
                _ => (HLookup::MergedFrom(2), Box::new(|t: &TrackDump| t.history.contains(&2))),
            };
            let mut got: Vec<(u64, u8)> = store.lookup(query).iter().map(|(id, s)| (*id, status_code(s))).collect();
            got.sort();
            let exp: Vec<(u64, u8)> = model.values().filter(|t| pred(t)).map(|t| (t.id, status_of(t))).collect();
            if got != exp {
                return bad("lookup/result", format!("lookup #{q}: {got:?}, expected {exp:?}"));
            }
        }
        Op::FindUsable => {
            let mut got: Vec<(u64, u8)> = store.find_usable().iter().map(|(id, s)| (*id, status_code(s))).collect();
            got.sort();
            let exp: Vec<(u64, u8)> = model.values().filter(|t| status_of(t) != 0).map(|t| (t.id, status_of(t))).collect();
            if got != exp {
                return bad("find_usable/result", format!("{got:?}, expected {exp:?}"));
            }
        }
        Op::Clear => {
            store.clear();
            model.clear();
        }
        Op::ClearWasted => {
            store.clear_wasted();
            model.retain(|_, t| status_of(t) != 2);
        }
        Op::Stats => {}
    }
    // after every step: shard statistics and every shard's contents
    let stats = store.shard_stats();
    let mut exp_stats = vec![0usize; shards];
    for id in model.keys() {
        exp_stats[(*id as usize) % shards] += 1;
    }
    if stats != exp_stats {
        return bad("shard_stats", format!("{stats:?}, expected {exp_stats:?}"));
    }
    let dump = dump_store(store, shards);
    for (k, tracks) in &dump {
        let exp: Vec<TrackDump> = model.values().filter(|t| (t.id as usize) % shards == *k).cloned().collect();
        if *tracks != exp {
            // name the first difference
            let key = match op {
                Op::Add(id, _) if !exp.iter().any(|t| t.id == *id && tracks.iter().any(|x| x == t)) && tracks.iter().any(|t| t.id == *id) => "add/track-state",
                Op::MergeOwned(..) | Op::MergeOwnedFault(..) => "merge_owned/store-state",
                Op::MergeExternal(..) | Op::MergeNoblock(..) => "merge_external/store-state",
                _ => "store-state",
            };
            return bad(key, format!("shard {k}: {tracks:?}, model {exp:?}"));
        }
    }
    Ok(())
}

fn canon(model: &Model) -> u64 {
    hash_of(&model.values().collect::<Vec<_>>())
}

struct Node {
    seq: Vec<usize>,
}

pub fn run(tier: Tier) -> Report {
    let rep = Report::new("C09", tier);
    let alpha = alphabet();
    rep.set_rule(&format!("breadth-first search over operation sequences on ids {{1,2,3}} x classes {{0,1}} ({} symbols: add_track, add, fetch, merge_owned (+ failing attribute merge), merge_external, merge_external_noblock+get, lookup, find_usable, clear, clear_wasted, shard_stats) with exact de-duplication of model states; every transition is executed on the real TrackStore (fresh store, prefix replayed) and compared with a BTreeMap model: return value, notifications, shard statistics and every shard's contents. Shard counts 1..5. Non-trivial state = at least one stored track. Schedule part: a non-blocking merge racing with one other operation; several merge results outstanding in one store (futures read in either order or dropped unread, then a blocking / owned merge); two threads looking up at the same time.", alpha.len()));
    rep.assume("runs inside the shuttle runtime under the deterministic default schedule; harness attributes/metric of store_h.rs");
    let depth = tier.pick(3usize, 5usize);
    let shard_counts: Vec<usize> = tier.pick(vec![1, 2, 3], vec![1, 2, 3, 4, 5]);
    let violated_keys: Arc<Mutex<HashSet<String>>> = Arc::new(Mutex::new(HashSet::new()));
    for &shards in &shard_counts {
        let mut frontier: Vec<Node> = vec![Node { seq: vec![] }];
        let mut seen: HashSet<u64> = HashSet::new();
        seen.insert(canon(&Model::new()));
        let mut states = 1u64;
        let mut transitions = 0u64;
        let mut fixpoint_at = None;
        for level in 0..depth {
            if rep.out_of_time() {
                rep.cap_hit(&format!("wall budget reached at shards={shards} level={level}"));
                break;
            }
            // expand every frontier node by every symbol; batches run inside one shuttle execution each
            let batch = 4usize;
            let nb = (frontier.len() + batch - 1) / batch;
            let results: Mutex<Vec<(Vec<usize>, u64)>> = Mutex::new(vec![]);
            let frontier_seqs: Arc<Vec<Vec<usize>>> = Arc::new(frontier.iter().map(|n| n.seq.clone()).collect());
            let alpha_arc: Arc<Vec<Op>> = Arc::new(alpha.clone());
            let (fs, al) = (frontier_seqs.clone(), alpha_arc.clone());
            let outs = sched::run_jobs(nb, move |bi| {
                let lo = bi * batch;
                let hi = (lo + batch).min(fs.len());
                let mut out: Vec<(Vec<usize>, Result<u64, (String, String)>)> = vec![];
                for seq in &fs[lo..hi] {
                    for (ai, a) in al.iter().enumerate() {
                        let mut store: Guarded<HStore> = Guarded::new(TrackStoreBuilder::new(shards).default_attributes(HAttrs::default()).metric(HMetric::default()).notifier(HNotifier).build());
                        let mut model = Model::new();
                        let mut ok = true;
                        for s in seq {
                            // the prefix was validated when it was a frontier transition; a failure here is a
                            // replay divergence
                            if step(&mut store, &mut model, &al[*s], shards).is_err() {
                                ok = false;
                                break;
                            }
                        }
                        let mut full = seq.clone();
                        full.push(ai);
                        if !ok {
                            out.push((full, Err(("harness/replay-diverged".into(), "prefix failed on replay".into()))));
                            continue;
                        }
                        let r = step(&mut store, &mut model, a, shards);
                        out.push((full, r.map(|_| canon(&model))));
                    }
                }
                out
            });
            for (bi, res) in outs.into_iter().enumerate() {
                let lo = bi * batch;
                match res {
                    Ok(v) => {
                        let mut keep = vec![];
                        for (seq, r) in v {
                            match r {
                                Ok(h) => keep.push((seq, h)),
                                Err((key, what)) => {
                                    if key.starts_with("harness/") {
                                        machinery_error(&format!("C09: {key}: {what}"));
                                    }
                                    violated_keys.lock().unwrap().insert(key.clone());
                                    rep.violation(Violation {
                                        key,
                                        what,
                                        replay: json!({"shards":shards,"ops":seq.iter().map(|i| format!("{:?}", alpha[*i])).collect::<Vec<_>>()}),
                                    });
                                }
                            }
                        }
                        results.lock().unwrap().extend(keep);
                    }
                    Err(e) => rep.violation(Violation { key: "store/panic-or-deadlock".into(), what: e, replay: json!({"shards":shards,"batch_first_seq":frontier_seqs[lo].iter().map(|i| format!("{:?}", alpha[*i])).collect::<Vec<_>>()}) }),
                }
            }
            let mut res = results.into_inner().unwrap();
            res.sort();
            transitions += res.len() as u64;
            let mut next: Vec<Node> = vec![];
            for (seq, h) in res {
                if seen.insert(h) {
                    states += 1;
                    next.push(Node { seq });
                }
            }
            if next.is_empty() {
                fixpoint_at = Some(level + 1);
                break;
            }
            frontier = next;
        }
        rep.add(states, transitions, transitions, 0);
        rep.distinct_count(states - 1);
        rep.extra(&format!("shards_{shards}"), json!({"states":states,"transitions":transitions,"depth_completed":depth,"fixpoint_at_level":fixpoint_at}));
    }
    rep.sample(json!({"shards":2,"ops":["AddTrack(1, true)","Add(3, 1)","MergeOwned(1, 3, 2)"]}));
    noblock_schedules(&rep, tier);
    noblock_pairs(&rep, tier);
    concurrent_lookups(&rep, tier);
    rep
}

/// Engine B: two threads that share one store issue lookups (`lookup(&self)`) with different predicates at the
/// same time; each must get exactly the tracks that satisfy ITS predicate, under every schedule.
fn concurrent_lookups(rep: &Report, tier: Tier) {
    let mut total = 0u64;
    for (shards, fine) in [(1usize, false), (2, false), (3, false), (1, true), (2, true)] {
        // every departure from the default schedule counts (delay bounding): three caller threads plus the shard
        // workers have too many free switches for preemption bounding; each scenario has its own wall slice
        let deadline = Some(std::time::Instant::now() + std::time::Duration::from_secs_f64(tier.pick(1.5, 60.0)));
        let cfg = if fine { sched::ExploreCfg { mode: sched::Mode::Fine, count_all_deviations: true, bound: tier.pick(1, 2), deadline, ..Default::default() } } else { sched::ExploreCfg { count_all_deviations: true, bound: tier.pick(2, 4), deadline, ..Default::default() } };
        let outcomes: Mutex<BTreeMap<String, u64>> = Mutex::new(BTreeMap::new());
        let stats = sched::explore(
            &cfg,
            move || {
                let mut store: Guarded<HStore> = Guarded::new(TrackStoreBuilder::new(shards).default_attributes(HAttrs::default()).metric(HMetric::default()).notifier(HNotifier).build());
                let mut model = Model::new();
                for op in [Op::AddTrack(1, true), Op::AddTrack(2, false), Op::AddTrack(3, false), Op::Add(2, 1)] {
                    step(&mut store, &mut model, &op, shards).unwrap();
                }
                let queries = [HLookup::HasClass(1), HLookup::HasClass(0), HLookup::All];
                let expect: Vec<Vec<(u64, u8)>> = queries
                    .iter()
                    .map(|q| {
                        let mut l: Vec<(u64, u8)> = store.lookup(q.clone()).iter().map(|(i, s)| (*i, status_code(s))).collect();
                        l.sort();
                        l
                    })
                    .collect();
                let shared = std::sync::Arc::new(store);
                let mut hs = vec![];
                for q in queries.iter().skip(1).cloned() {
                    let st = shared.clone();
                    hs.push(shuttle::thread::spawn(move || {
                        let mut l: Vec<(u64, u8)> = st.lookup(q).iter().map(|(i, s)| (*i, status_code(s))).collect();
                        l.sort();
                        l
                    }));
                }
                let mut got: Vec<Vec<(u64, u8)>> = vec![{
                    let mut l: Vec<(u64, u8)> = shared.lookup(queries[0].clone()).iter().map(|(i, s)| (*i, status_code(s))).collect();
                    l.sort();
                    l
                }];
                for h in hs {
                    got.push(h.join().unwrap());
                }
                (expect, got)
            },
            |x| match &x.outcome {
                sched::Outcome::Done((expect, got)) => {
                    *outcomes.lock().unwrap().entry(format!("{got:?}")).or_insert(0) += 1;
                    if expect != got {
                        rep.violation(Violation {
                            key: "lookup/concurrent-lookups-mixed-up".into(),
                            what: format!("three overlapping lookups (has class 1 / has class 0 / all) returned {got:?}; each alone returns {expect:?}"),
                            replay: json!({"engine":"B","scenario":"concurrent lookups","shards":shards,"granularity":if fine { "fine" } else { "macro" },"schedule":x.schedule_json()}),
                        });
                    }
                }
                sched::Outcome::Machinery(m) => machinery_error(m),
                other => rep.violation(Violation { key: "lookup/panic-or-deadlock".into(), what: format!("{other:?}").chars().take(300).collect(), replay: json!({"engine":"B","scenario":"concurrent lookups","shards":shards,"schedule":x.schedule_json()}) }),
            },
        );
        total += stats.executions;
        rep.add(stats.executions, stats.decision_points, stats.executions, 0);
        if stats.truncated {
            rep.cap_hit(&format!("concurrent lookups, {shards} shard(s){}: bound {} not completed within its wall slice ({} schedules)", if fine { ", fine" } else { "" }, stats.bound, stats.executions));
        }
        rep.extra(&format!("concurrent_lookups_shards{shards}{}", if fine { "_fine" } else { "" }), json!({"schedules":stats.executions,"max_decision_points":stats.max_points,"bound":stats.bound,"distinct_outcomes":outcomes.lock().unwrap().len(),"truncated":stats.truncated}));
    }
    rep.extra("concurrent_lookup_schedules_total", json!(total));
}

#[derive(Clone, Debug, Default, PartialEq, Eq, Hash)]
struct Mid {
    stats: Option<Vec<usize>>,
    lookup: Option<Vec<(u64, u8)>>,
    fetched: Option<Vec<(u64, Vec<u64>)>>,
    dup_add_ok: Option<bool>,
    add_ok: Option<bool>,
    cleared: bool,
}

/// Several merge results outstanding in one store: every future reports the outcome of ITS merge, whatever the
/// order in which the futures are read and whatever became of earlier futures. Plans: 0 = a merge into a stored
/// track and one into a missing track, read in dispatch order; 1 = the same read in the opposite order; 2 = a
/// future for a missing destination dropped unread, then a blocking merge into a stored track; 3 = a future for a
/// stored destination dropped unread, then a blocking merge into a missing track; 4 = a dropped future (missing
/// destination), then an owned merge 1 <- 3 that must succeed and remove the source.
pub fn noblock_pairs(rep: &Report, tier: Tier) {
    let mut total = 0u64;
    for shards in [1usize, 2, 3] {
        for plan in 0..5u8 {
            for fine in [false, true] {
                let cfg = if fine { sched::ExploreCfg { mode: sched::Mode::Fine, count_all_deviations: true, bound: tier.pick(1, 3), ..Default::default() } } else { sched::ExploreCfg { bound: tier.pick(2, 3), ..Default::default() } };
                let outcomes: Mutex<BTreeMap<String, u64>> = Mutex::new(BTreeMap::new());
                let stats = sched::explore(
                    &cfg,
                    move || {
                        let mut store: Guarded<HStore> = Guarded::new(TrackStoreBuilder::new(shards).default_attributes(HAttrs::default()).metric(HMetric::default()).notifier(HNotifier).build());
                        let mut model = Model::new();
                        for op in [Op::AddTrack(1, true), Op::AddTrack(3, true)] {
                            step(&mut store, &mut model, &op, shards).unwrap();
                        }
                        let (ext, _) = external_track(9);
                        // (result reported for the merge into the stored track 1, result for the missing track 7, owned merge result)
                        let mut seen: (Option<bool>, Option<bool>, Option<bool>) = (None, None, None);
                        match plan {
                            0 | 1 => {
                                let fa = store.merge_external_noblock(1, ext.clone(), None, true).unwrap();
                                let fb = store.merge_external_noblock(7, ext.clone(), None, true).unwrap();
                                if plan == 0 {
                                    seen.0 = Some(fa.get().is_ok());
                                    seen.1 = Some(fb.get().is_ok());
                                } else {
                                    seen.1 = Some(fb.get().is_ok());
                                    seen.0 = Some(fa.get().is_ok());
                                }
                            }
                            2 => {
                                drop(store.merge_external_noblock(7, ext.clone(), None, true).unwrap());
                                seen.0 = Some(store.merge_external(1, &ext, None, true).is_ok());
                            }
                            3 => {
                                drop(store.merge_external_noblock(1, ext.clone(), None, true).unwrap());
                                seen.1 = Some(store.merge_external(7, &ext, None, true).is_ok());
                            }
                            _ => {
                                drop(store.merge_external_noblock(7, ext.clone(), None, true).unwrap());
                                seen.2 = Some(store.merge_owned(1, 3, None, true, true).is_ok());
                            }
                        }
                        // a last blocking command on every shard orders the dump after everything queued before
                        let _ = store.lookup(HLookup::Group(1));
                        (seen, dump_store(&store, shards))
                    },
                    |x| match &x.outcome {
                        sched::Outcome::Done((seen, after)) => {
                            *outcomes.lock().unwrap().entry(format!("{seen:?}")).or_insert(0) += 1;
                            let tracks: Vec<TrackDump> = after.iter().flat_map(|s| s.1.iter().cloned()).collect();
                            let t1 = tracks.iter().find(|t| t.id == 1);
                            let merged_from_9 = t1.map_or(0, |t| t.history.iter().filter(|h| **h == 9).count());
                            let mut bad: Vec<(&str, String)> = vec![];
                            if seen.0 == Some(false) {
                                bad.push(("merge_noblock/result-of-another-merge", format!("the merge into stored track 1 was reported as failed; stored track 1 afterwards: {t1:?}")));
                            }
                            if seen.1 == Some(true) {
                                bad.push(("merge_noblock/result-of-another-merge", "the merge into the missing track 7 was reported as a success".to_string()));
                            }
                            if plan != 4 && merged_from_9 != 1 {
                                bad.push(("merge_noblock/merge-not-applied-once", format!("track 1 was merged from track 9 {merged_from_9} times: {t1:?}")));
                            }
                            if plan == 4 {
                                let src_left = tracks.iter().any(|t| t.id == 3);
                                let applied = t1.map_or(false, |t| t.history.contains(&3));
                                if seen.2 != Some(true) || src_left || !applied {
                                    bad.push(("merge_owned/result-of-another-merge", format!("merge_owned(1 <- 3, remove source) after an abandoned future: ok={:?}, source still stored: {src_left}, destination merged: {applied}", seen.2)));
                                }
                            }
                            if tracks.iter().any(|t| t.id == 7) {
                                bad.push(("merge_noblock/created-a-track", format!("{tracks:?}")));
                            }
                            for (key, what) in bad {
                                rep.violation(Violation { key: key.into(), what, replay: json!({"engine":"B","part":"several merge results outstanding","shards":shards,"plan":plan,"granularity":if fine { "fine" } else { "macro" },"schedule":x.schedule_json()}) });
                            }
                        }
                        sched::Outcome::Machinery(m) => machinery_error(m),
                        other_outcome => rep.violation(Violation {
                            key: "merge_noblock/panic-or-deadlock".into(),
                            what: format!("{other_outcome:?}").chars().take(300).collect(),
                            replay: json!({"engine":"B","part":"several merge results outstanding","shards":shards,"plan":plan,"granularity":if fine { "fine" } else { "macro" },"schedule":x.schedule_json()}),
                        }),
                    },
                );
                total += stats.executions;
                rep.add(stats.executions, stats.decision_points, stats.executions, 0);
                rep.extra(&format!("noblock_pairs_shards{shards}_plan{plan}{}", if fine { "_fine" } else { "" }), json!({"schedules":stats.executions,"max_decision_points":stats.max_points,"bound":stats.bound,"distinct_outcomes":outcomes.lock().unwrap().clone(),"truncated":stats.truncated}));
            }
        }
    }
    rep.extra("noblock_pairs_total", json!(total));
}

/// Engine B: "noblock; other op; get" under every schedule: what is observed must be explained by the
/// merge taking effect at one point between the call and get().
pub fn noblock_schedules(rep: &Report, tier: Tier) {
    // (shards, destination id, operation while the merge is in flight): 0 shard_stats, 1 lookup, 2 fetch of the
    // destination, 3 add_track with the destination's id (a duplicate), 4 clear, 5 add (observation + attribute update by id) to the destination
    let cfgs: Vec<(usize, u64, u8)> = vec![(1, 1, 0), (2, 1, 0), (2, 1, 1), (2, 2, 0), (2, 1, 2), (1, 1, 3), (2, 1, 3), (1, 1, 4), (2, 1, 4), (1, 1, 2), (1, 1, 5), (2, 1, 5)];
    let mut total = 0u64;
    let cfgs: Vec<(usize, u64, u8, bool)> = cfgs.iter().map(|c| (c.0, c.1, c.2, false)).chain(cfgs.iter().map(|c| (c.0, c.1, c.2, true))).collect();
    for (shards, dest, other, fine) in cfgs {
        // macro pass: command granularity, preemption-bounded; fine pass: every synchronisation
        // operation is a decision point, the bound counts every departure from the default schedule
        let cfg = if fine { sched::ExploreCfg { mode: sched::Mode::Fine, count_all_deviations: true, bound: tier.pick(2, 4), ..Default::default() } } else { sched::ExploreCfg { bound: tier.pick(2, 3), ..Default::default() } };
        let outcomes: Mutex<BTreeMap<String, u64>> = Mutex::new(BTreeMap::new());
        let stats = sched::explore(
            &cfg,
            move || {
                let mut store: Guarded<HStore> = Guarded::new(TrackStoreBuilder::new(shards).default_attributes(HAttrs::default()).metric(HMetric::default()).notifier(HNotifier).build());
                let mut model = Model::new();
                for op in [Op::AddTrack(1, true), Op::AddTrack(3, false)] {
                    step(&mut store, &mut model, &op, shards).unwrap();
                }
                let (ext, mext) = external_track(9);
                let fut = store.merge_external_noblock(dest, ext, None, true).unwrap();
                // another operation while the merge is in flight
                let mut mid = Mid::default();
                match other {
                    0 => mid.stats = Some(store.shard_stats()),
                    1 => {
                        let mut l: Vec<(u64, u8)> = store.lookup(HLookup::MergedFrom(9)).iter().map(|(i, s)| (*i, status_code(s))).collect();
                        l.sort();
                        mid.lookup = Some(l);
                    }
                    2 => {
                        let f = store.fetch_tracks(&[dest]);
                        mid.fetched = Some(f.iter().map(|t| (t.get_track_id(), t.get_merge_history().clone())).collect());
                    }
                    3 => {
                        let (dup, _) = external_track(dest);
                        mid.dup_add_ok = Some(store.add_track(dup).is_ok());
                    }
                    5 => {
                        mid.add_ok = Some(store.add(dest, 0, Some(1.0), None, Some(HUpdate { add: 1, group: None })).is_ok());
                    }
                    _ => {
                        store.clear();
                        mid.cleared = true;
                    }
                }
                let r = fut.get();
                let after = dump_store(&store, shards);
                (mid, r.is_ok(), after, mext, model)
            },
            |x| match &x.outcome {
                sched::Outcome::Done((mid, ok, after, mext, model)) => {
                    // explanation: merge applied (dest present at that time) or rejected (dest absent)
                    let mut m_applied = model.clone();
                    let list: Vec<u64> = mext.obs.keys().cloned().collect();
                    let applied_possible = m_applied.get_mut(&dest).map(|d| m_merge(d, mext, &list, true, &mut MCtx::new(FaultPlan::default())).is_ok()).unwrap_or(false);
                    let tracks_after: Vec<TrackDump> = after.iter().flat_map(|s| s.1.iter().cloned()).collect();
                    let initially_present = model.contains_key(&dest);
                    let fetched = mid.fetched.as_ref().map_or(false, |f| !f.is_empty());
                    let removed = fetched || mid.cleared;
                    if let Some(add_ok) = mid.add_ok {
                        // an add by id that raced with the merge: it reported success, so its attribute update is in the
                        // stored destination - whether it ran before or after the merge
                        let before = model.get(&dest).map(|t| t.updates).unwrap_or(0);
                        let after = tracks_after.iter().find(|t| t.id == dest);
                        *outcomes.lock().unwrap().entry(format!("mid={mid:?} ok={ok}")).or_insert(0) += 1;
                        let good = add_ok && *ok && after.map_or(false, |t| t.updates == before + 1 && t.history.contains(&9));
                        if !good {
                            rep.violation(Violation {
                                key: "merge_noblock/add-while-in-flight-lost".into(),
                                what: format!("store.add({dest}, ..) returned ok={add_ok} while a merge into {dest} was in flight (get() ok={ok}); afterwards the stored track is {after:?}, it had {before} attribute updates before"),
                                replay: json!({"engine":"B","shards":shards,"dest":dest,"other_op":other,"granularity":if fine { "fine" } else { "macro" },"schedule":x.schedule_json()}),
                            });
                        }
                        return;
                    }
                    let explained = if *ok {
                        // the merge happened: the destination existed; if it was fetched / cleared afterwards it is gone
                        initially_present && applied_possible && (removed || tracks_after.iter().any(|t| t.id == dest && Some(t) == m_applied.get(&dest)))
                    } else {
                        // rejected: the destination was absent when the worker ran (never there, or removed first)
                        (!initially_present || removed) && !tracks_after.iter().any(|t| t.id == dest)
                    };
                    *outcomes.lock().unwrap().entry(format!("mid={mid:?} ok={ok}")).or_insert(0) += 1;
                    let viol = |key: &str, what: String| {
                        rep.violation(Violation { key: key.into(), what, replay: json!({"engine":"B","shards":shards,"dest":dest,"other_op":other,"granularity":if fine { "fine" } else { "macro" },"schedule":x.schedule_json()}) })
                    };
                    if !explained {
                        viol(if *ok { "merge_noblock/ok-unexplained" } else { "merge_noblock/err-unexplained" }, format!("get() ok={ok}, mid observation {mid:?}, store after {tracks_after:?}"));
                    }
                    // what the operation in the middle saw: the store is a map from id to track at every moment
                    // (a merge changes the destination only; it never makes a stored track disappear for a while)
                    if let Some(st) = &mid.stats {
                        let exp: Vec<usize> = (0..shards).map(|k| model.keys().filter(|id| **id as usize % shards == k).count()).collect();
                        if *st != exp {
                            viol("merge_noblock/shard-stats-while-in-flight", format!("shard_stats() = {st:?} while a merge into track {dest} was in flight; the store holds {exp:?}"));
                        }
                    }
                    if let Some(f) = &mid.fetched {
                        if initially_present && f.is_empty() {
                            viol("merge_noblock/fetch-misses-destination-while-in-flight", format!("fetch_tracks([{dest}]) returned nothing although track {dest} was added and never fetched or cleared (merge result ok={ok})"));
                        }
                        if let Some((_, h)) = f.first() {
                            if h.contains(&9) != *ok {
                                viol("merge_noblock/fetched-track-vs-merge-result", format!("the fetched destination has merge history {h:?} but get() ok={ok}"));
                            }
                        }
                        if !initially_present && !f.is_empty() {
                            viol("merge_noblock/fetch-returned-unknown-track", format!("{f:?}"));
                        }
                    }
                    if let Some(dup_ok) = mid.dup_add_ok {
                        if initially_present && dup_ok {
                            viol("merge_noblock/duplicate-accepted-while-in-flight", format!("add_track with the id of stored track {dest} succeeded while a merge into it was in flight"));
                        }
                    }
                    if mid.cleared && !tracks_after.is_empty() {
                        viol("merge_noblock/store-not-empty-after-clear", format!("clear() was called while the merge was in flight; after get() the store holds {tracks_after:?}"));
                    }
                    if let Some(l) = &mid.lookup {
                        if l.iter().any(|(i, _)| *i != dest) || (!initially_present && !l.is_empty()) {
                            viol("merge_noblock/lookup-while-in-flight", format!("lookup(merged from 9) = {l:?}"));
                        }
                    }
                }
                sched::Outcome::Machinery(m) => machinery_error(m),
                other_outcome => rep.violation(Violation {
                    key: "merge_noblock/panic-or-deadlock".into(),
                    what: format!("{other_outcome:?}").chars().take(300).collect(),
                    replay: json!({"engine":"B","shards":shards,"dest":dest,"other_op":other,"granularity":if fine { "fine" } else { "macro" },"schedule":x.schedule_json()}),
                }),
            },
        );
        total += stats.executions;
        rep.add(stats.executions, stats.decision_points, stats.executions, 0);
        rep.extra(&format!("noblock_shards{shards}_dest{dest}_other{other}{}", if fine { "_fine" } else { "" }), json!({"schedules":stats.executions,"max_decision_points":stats.max_points,"bound_kind":if fine { "deviations, every synchronisation operation" } else { "preemptions, command granularity" },"bound":stats.bound,"distinct_outcomes":outcomes.lock().unwrap().clone(),"truncated":stats.truncated}));
    }
    rep.extra("noblock_schedules_total", json!(total));
}
