//! C07 — Kalman filters equal the textbook filter, stay SPD, gate consistently.
//! (a) engine A: all words over {predict, update(delta)} up to a depth, plus periodic words unrolled
//!     to 300 steps; each step checked against an f64 textbook step from the implementation's own
//!     pre-state (hook H4). (b) engine C: cost conversions over f32 bit patterns.

use crate::common::*;
use nalgebra_shim::*;
use serde_json::json;
use similari::utils::bbox::Universal2DBox;
use similari::utils::kalman::kalman_2d_box::Universal2DBoxKalmanFilter;
use similari::utils::kalman::kalman_2d_point::Point2DKalmanFilter;
use similari::utils::kalman::kalman_2d_point_vec::Vec2DKalmanFilter;
use similari::utils::kalman::KalmanState;
use std::sync::atomic::{AtomicU64, Ordering};

mod nalgebra_shim {
    /// dense row-major f64 matrix helpers (reference side; deliberately boring)
    #[derive(Clone, Debug)]
    pub struct M {
        pub r: usize,
        pub c: usize,
        pub d: Vec<f64>,
    }
    impl M {
        pub fn zeros(r: usize, c: usize) -> M {
            M { r, c, d: vec![0.0; r * c] }
        }
        pub fn ident(n: usize) -> M {
            let mut m = M::zeros(n, n);
            for i in 0..n {
                m.d[i * n + i] = 1.0;
            }
            m
        }
        pub fn at(&self, i: usize, j: usize) -> f64 {
            self.d[i * self.c + j]
        }
        pub fn set(&mut self, i: usize, j: usize, v: f64) {
            self.d[i * self.c + j] = v;
        }
        pub fn mul(&self, o: &M) -> M {
            assert_eq!(self.c, o.r);
            let mut m = M::zeros(self.r, o.c);
            for i in 0..self.r {
                for k in 0..self.c {
                    let a = self.at(i, k);
                    if a != 0.0 {
                        for j in 0..o.c {
                            m.d[i * o.c + j] += a * o.at(k, j);
                        }
                    }
                }
            }
            m
        }
        pub fn t(&self) -> M {
            let mut m = M::zeros(self.c, self.r);
            for i in 0..self.r {
                for j in 0..self.c {
                    m.set(j, i, self.at(i, j));
                }
            }
            m
        }
        pub fn add(&self, o: &M) -> M {
            let mut m = self.clone();
            for i in 0..m.d.len() {
                m.d[i] += o.d[i];
            }
            m
        }
        pub fn sub(&self, o: &M) -> M {
            let mut m = self.clone();
            for i in 0..m.d.len() {
                m.d[i] -= o.d[i];
            }
            m
        }
        /// inverse by Gauss-Jordan with partial pivoting; None if singular
        pub fn inv(&self) -> Option<M> {
            let n = self.r;
            let mut a = self.clone();
            let mut b = M::ident(n);
            for col in 0..n {
                let mut piv = col;
                for r in col + 1..n {
                    if a.at(r, col).abs() > a.at(piv, col).abs() {
                        piv = r;
                    }
                }
                if a.at(piv, col) == 0.0 {
                    return None;
                }
                if piv != col {
                    for j in 0..n {
                        let (x, y) = (a.at(col, j), a.at(piv, j));
                        a.set(col, j, y);
                        a.set(piv, j, x);
                        let (x, y) = (b.at(col, j), b.at(piv, j));
                        b.set(col, j, y);
                        b.set(piv, j, x);
                    }
                }
                let p = a.at(col, col);
                for j in 0..n {
                    a.set(col, j, a.at(col, j) / p);
                    b.set(col, j, b.at(col, j) / p);
                }
                for r in 0..n {
                    if r != col {
                        let f = a.at(r, col);
                        if f != 0.0 {
                            for j in 0..n {
                                a.set(r, j, a.at(r, j) - f * a.at(col, j));
                                b.set(r, j, b.at(r, j) - f * b.at(col, j));
                            }
                        }
                    }
                }
            }
            Some(b)
        }
        /// Cholesky factorisation succeeds with strictly positive pivots
        pub fn is_pd(&self) -> bool {
            let n = self.r;
            let mut l = M::zeros(n, n);
            for i in 0..n {
                for j in 0..=i {
                    let mut s = self.at(i, j);
                    for k in 0..j {
                        s -= l.at(i, k) * l.at(j, k);
                    }
                    if i == j {
                        if !(s > 0.0) {
                            return false;
                        }
                        l.set(i, j, s.sqrt());
                    } else {
                        l.set(i, j, s / l.at(j, j));
                    }
                }
            }
            true
        }
        pub fn max_abs(&self) -> f64 {
            self.d.iter().fold(0.0, |a, b| a.max(b.abs()))
        }
    }
}

#[derive(Clone, Copy, Debug, PartialEq)]
enum Kind {
    Box,
    Point,
}

#[derive(Clone, Debug)]
struct St {
    mean: Vec<f64>,
    cov: M,
}

fn raw<const X: usize>(s: &KalmanState<X>) -> St {
    let (m, c) = s.verif_raw();
    St {
        mean: m.iter().map(|x| *x as f64).collect(),
        cov: M {
            r: X,
            c: X,
            d: c.iter().map(|x| *x as f64).collect(),
        },
    }
}

struct Ref {
    kind: Kind,
    n: usize,
    pw: f64,
    vw: f64,
}

impl Ref {
    fn std_pos(&self, k: f64, cnst: f64, h: f64) -> Vec<f64> {
        match self.kind {
            Kind::Box => {
                let w = k * self.pw * h;
                vec![w, w, w, cnst, w]
            }
            Kind::Point => vec![k * self.pw; 2],
        }
    }
    fn std_vel(&self, k: f64, cnst: f64, h: f64) -> Vec<f64> {
        match self.kind {
            Kind::Box => {
                let w = k * self.vw * h;
                vec![w, w, w, cnst, w]
            }
            Kind::Point => vec![k * self.vw; 2],
        }
    }
    fn noise_predict(&self, s: &St) -> Vec<f64> {
        let h = self.height(s);
        let sp = self.std_pos(1.0, 1e-2, h);
        let sv = self.std_vel(1.0, 1e-5, h);
        (0..self.n).map(|i| (sp[i] * sp[i]).max(sv[i] * sv[i])).collect()
    }
    fn noise_update(&self, s: &St) -> Vec<f64> {
        let h = self.height(s);
        let sp = self.std_pos(1.0, 1e-1, h);
        (0..self.n).map(|i| sp[i] * sp[i]).collect()
    }
    fn height(&self, s: &St) -> f64 {
        if self.kind == Kind::Box {
            s.mean[4]
        } else {
            1.0
        }
    }
    fn f(&self) -> M {
        let n = self.n;
        let mut f = M::ident(2 * n);
        for i in 0..n {
            f.set(i, n + i, 1.0);
        }
        f
    }
    fn initiate(&self, z: &[f64]) -> St {
        let n = self.n;
        let h = if self.kind == Kind::Box { z[4] } else { 1.0 };
        let mut mean = z.to_vec();
        mean.extend(std::iter::repeat(0.0).take(n));
        let mut cov = M::zeros(2 * n, 2 * n);
        let sp = self.std_pos(2.0, 1e-2, h);
        let sv = self.std_vel(10.0, 1e-5, h);
        for i in 0..n {
            cov.set(i, i, sp[i] * sp[i]);
            cov.set(n + i, n + i, sv[i] * sv[i]);
        }
        St { mean, cov }
    }
    fn predict(&self, s: &St) -> St {
        let n = self.n;
        let h = self.height(s);
        let f = self.f();
        let mut q = M::zeros(2 * n, 2 * n);
        let sp = self.std_pos(1.0, 1e-2, h);
        let sv = self.std_vel(1.0, 1e-5, h);
        for i in 0..n {
            q.set(i, i, sp[i] * sp[i]);
            q.set(n + i, n + i, sv[i] * sv[i]);
        }
        let mut mean = s.mean.clone();
        for i in 0..n {
            mean[i] += s.mean[n + i];
        }
        let cov = f.mul(&s.cov).mul(&f.t()).add(&q);
        St { mean, cov }
    }
    fn s_matrix(&self, s: &St) -> M {
        let n = self.n;
        let h = self.height(s);
        let sp = self.std_pos(1.0, 1e-1, h);
        let mut sm = M::zeros(n, n);
        for i in 0..n {
            for j in 0..n {
                sm.set(i, j, s.cov.at(i, j) + if i == j { sp[i] * sp[i] } else { 0.0 });
            }
        }
        sm
    }
    fn update(&self, s: &St, z: &[f64]) -> Option<St> {
        let n = self.n;
        let sm = self.s_matrix(s);
        let sinv = sm.inv()?;
        // K = P H^T S^-1  (2n x n)
        let mut pht = M::zeros(2 * n, n);
        for i in 0..2 * n {
            for j in 0..n {
                pht.set(i, j, s.cov.at(i, j));
            }
        }
        let k = pht.mul(&sinv);
        let mut mean = s.mean.clone();
        for i in 0..2 * n {
            for j in 0..n {
                mean[i] += k.at(i, j) * (z[j] - s.mean[j]);
            }
        }
        let cov = s.cov.sub(&k.mul(&sm).mul(&k.t()));
        Some(St { mean, cov })
    }
    fn distance(&self, s: &St, z: &[f64]) -> Option<f64> {
        let n = self.n;
        let sinv = self.s_matrix(s).inv()?;
        let mut d = 0.0;
        for i in 0..n {
            for j in 0..n {
                d += (z[i] - s.mean[i]) * sinv.at(i, j) * (z[j] - s.mean[j]);
            }
        }
        Some(d)
    }
}

const EPS32: f64 = 5.96e-8; // 2^-24

/// per-dimension operand scales of a step: magnitudes of everything that entered the arithmetic
fn scales(n: usize, pre: Option<&St>, post: &St, z: Option<&[f64]>, noise: &[f64]) -> (Vec<f64>, Vec<f64>) {
    let mut ms = vec![0.0f64; n];
    let mut cs = vec![0.0f64; n];
    for d in 0..n {
        let mut m = post.mean[d].abs().max(post.mean[n + d].abs());
        let mut c = post.cov.at(d, d).abs().max(post.cov.at(n + d, n + d).abs()).max(post.cov.at(d, n + d).abs());
        if let Some(p) = pre {
            m = m.max(p.mean[d].abs()).max(p.mean[n + d].abs());
            c = c.max(p.cov.at(d, d).abs()).max(p.cov.at(n + d, n + d).abs()).max(p.cov.at(d, n + d).abs());
        }
        if let Some(z) = z {
            m = m.max(z[d].abs());
        }
        c = c.max(noise[d].abs());
        ms[d] = m;
        cs[d] = c;
    }
    (ms, cs)
}

/// compare an implementation state with the reference state; tolerances relative to operand scales
fn cmp_state(n: usize, imp: &St, rf: &St, ms: &[f64], cs: &[f64]) -> Option<String> {
    for i in 0..2 * n {
        let d = i % n;
        let tol = 256.0 * EPS32 * ms[d] + 1e-30;
        if (imp.mean[i] - rf.mean[i]).abs() > tol {
            return Some(format!(
                "mean[{i}] = {:e}, reference {:e} (tol {:e})",
                imp.mean[i], rf.mean[i], tol
            ));
        }
    }
    for i in 0..2 * n {
        for j in 0..2 * n {
            let (di, dj) = (i % n, j % n);
            if di != dj {
                // cross-dimension terms are exactly zero in the model
                if imp.cov.at(i, j).abs() > 256.0 * EPS32 * cs[di].max(cs[dj]) {
                    return Some(format!("cov[{i},{j}] = {:e} should be 0", imp.cov.at(i, j)));
                }
                continue;
            }
            let tol = 512.0 * EPS32 * cs[di] + 1e-38;
            if (imp.cov.at(i, j) - rf.cov.at(i, j)).abs() > tol {
                return Some(format!(
                    "cov[{i},{j}] = {:e}, reference {:e} (tol {:e})",
                    imp.cov.at(i, j),
                    rf.cov.at(i, j),
                    tol
                ));
            }
        }
    }
    None
}

fn spd(n: usize, s: &St, cs: &[f64]) -> Option<String> {
    for d in 0..n {
        let a = s.cov.at(d, d);
        let b = s.cov.at(d, n + d);
        let b2 = s.cov.at(n + d, d);
        let c = s.cov.at(n + d, n + d);
        if (b - b2).abs() > 64.0 * EPS32 * cs[d] {
            return Some(format!("covariance not symmetric in dimension {d}: {b:e} vs {b2:e} (largest operand scale so far {:e})", cs[d]));
        }
        let bm = 0.5 * (b + b2);
        let blk = M { r: 2, c: 2, d: vec![a, bm, bm, c] };
        if !blk.is_pd() {
            return Some(format!("covariance block of dimension {d} not positive definite: [[{a:e},{bm:e}],[{bm:e},{c:e}]]"));
        }
    }
    // whole matrix (symmetrised)
    let mut m = s.cov.clone();
    for i in 0..2 * n {
        for j in 0..i {
            let v = 0.5 * (m.at(i, j) + m.at(j, i));
            m.set(i, j, v);
            m.set(j, i, v);
        }
    }
    if !m.is_pd() {
        return Some("covariance not positive definite (f64 Cholesky of the f32 state fails)".into());
    }
    None
}

/// the seven step symbols: 0 = predict, 1.. = update with measurement = current position + delta
const SYMS: [&str; 7] = ["P", "Ustill", "Udrift", "Ujump", "Ushrink", "Ugrow", "Ujitter"];

/// The object's true trajectory (independent of the filter): each update symbol moves the object,
/// the measurement is the object's new box. Shrinking / growing is bounded to [h0/4, 4*h0] so that
/// every measurement is a physically plausible valid box.
fn box_meas(obj: &mut [f64; 5], h0: f64, asp0: f64, sym: usize, step: usize) -> [f32; 5] {
    let h = obj[4];
    match sym {
        1 => {}
        2 => {
            obj[0] += 0.1 * h;
            obj[1] += 0.05 * h;
        }
        3 => {
            obj[0] += 2.0 * h;
            obj[1] -= 1.5 * h;
        }
        4 => {
            obj[4] = (obj[4] * 0.9).max(0.25 * h0);
            obj[3] = (obj[3] * 0.95).max(0.25 * asp0);
        }
        5 => {
            obj[4] = (obj[4] * 1.1).min(4.0 * h0);
            obj[3] = (obj[3] * 1.05).min(4.0 * asp0);
        }
        _ => {
            let s = if step % 2 == 0 { 1.0 } else { -1.0 };
            obj[0] += s * 0.03 * h;
            obj[1] -= s * 0.02 * h;
        }
    }
    [obj[0] as f32, obj[1] as f32, obj[2] as f32, obj[3] as f32, obj[4] as f32]
}

fn point_meas(obj: &mut [f64; 2], sym: usize, step: usize) -> [f32; 2] {
    match sym {
        1 => {}
        2 => {
            obj[0] += 0.1;
            obj[1] += 0.05;
        }
        3 => {
            obj[0] += 20.0;
            obj[1] -= 15.0;
        }
        4 => {
            obj[0] -= 1.0;
        }
        5 => {
            obj[1] += 3.0;
        }
        _ => {
            let s = if step % 2 == 0 { 1.0 } else { -1.0 };
            obj[0] += s * 0.03;
            obj[1] -= s * 0.02;
        }
    }
    [obj[0] as f32, obj[1] as f32]
}

struct Ctx<'a> {
    rep: &'a Report,
    steps: AtomicU64,
    words: AtomicU64,
}

fn viol(ctx: &Ctx, key: &str, what: String, cfg: &serde_json::Value, word: &[usize]) {
    ctx.rep.violation(Violation {
        key: key.to_string(),
        what,
        replay: json!({"part":"steps","config":cfg,"word":word.iter().map(|s| SYMS[*s]).collect::<Vec<_>>()}),
    });
}

/// run one word on the box filter, checking every step; returns false on violation
fn run_box_word(ctx: &Ctx, pw: f32, vw: f32, init: &Universal2DBox, word: &[usize], cfg: &serde_json::Value) {
    let f = Universal2DBoxKalmanFilter::new(pw, vw);
    let r = Ref { kind: Kind::Box, n: 5, pw: pw as f64, vw: vw as f64 };
    let mut st = f.initiate(init);
    let z0 = [init.xc as f64, init.yc as f64, init.angle.unwrap_or(0.0) as f64, init.aspect as f64, init.height as f64];
    let mut obj = z0;
    let imp0 = raw(&st);
    let (ms0, cs0) = scales(5, None, &imp0, Some(&z0), &[0.0; 5]);
    if let Some(e) = cmp_state(5, &imp0, &r.initiate(&z0), &ms0, &cs0) {
        viol(ctx, "box/initiate", e, cfg, &[]);
        return;
    }
    let mut last_cs = cs0;
    for (k, &sym) in word.iter().enumerate() {
        let pre = raw(&st);
        ctx.steps.fetch_add(1, Ordering::Relaxed);
        if sym == 0 {
            st = f.predict(&st);
            let post = raw(&st);
            let (ms, cs) = scales(5, Some(&pre), &post, None, &r.noise_predict(&pre));
            for d in 0..last_cs.len() { last_cs[d] = last_cs[d].max(cs[d]); }
            if let Some(e) = cmp_state(5, &post, &r.predict(&pre), &ms, &cs) {
                viol(ctx, "box/predict", format!("step {k}: {e}"), cfg, &word[..=k]);
                return;
            }
        } else {
            let m = box_meas(&mut obj, z0[4], z0[3], sym, k);
            // a jitter step at an even position reports the box without an angle (a detector that lost
            // the orientation): the library's measurement model reads a missing angle as 0
            let mut m = m;
            if sym == 6 && k % 2 == 0 {
                m[2] = 0.0;
            }
            let mb = Universal2DBox::new(m[0], m[1], if m[2] == 0.0 { None } else { Some(m[2]) }, m[3], m[4]);
            let z: Vec<f64> = m.iter().map(|x| *x as f64).collect();
            // distance first (uses the pre-state)
            let d_imp = f.distance(st, &mb) as f64;
            match r.distance(&pre, &z) {
                Some(d_ref) => {
                    if (d_imp - d_ref).abs() > 2048.0 * EPS32 * d_ref.abs().max(1e-6) + 1e-9 {
                        viol(ctx, "box/distance", format!("step {k}: distance {d_imp:e}, reference {d_ref:e}"), cfg, &word[..=k]);
                        return;
                    }
                }
                None => {
                    viol(ctx, "box/innovation-singular", format!("step {k}: innovation covariance singular"), cfg, &word[..=k]);
                    return;
                }
            }
            st = f.update(&st, &mb);
            let post = raw(&st);
            let (ms, cs) = scales(5, Some(&pre), &post, Some(&z), &r.noise_update(&pre));
            for d in 0..last_cs.len() { last_cs[d] = last_cs[d].max(cs[d]); }
            match r.update(&pre, &z) {
                Some(rf) => {
                    if let Some(e) = cmp_state(5, &post, &rf, &ms, &cs) {
                        viol(ctx, "box/update", format!("step {k}: {e}"), cfg, &word[..=k]);
                        return;
                    }
                }
                None => return,
            }
        }
        let post = raw(&st);
        if let Some(e) = spd(5, &post, &last_cs) {
            viol(ctx, "box/spd", format!("step {k}: {e}"), cfg, &word[..=k]);
            return;
        }
        // the named accessors of the state read the components they name
        if st.mean_pos_xc() as f64 != post.mean[0] || st.mean_pos_yc() as f64 != post.mean[1] || st.mean_vel_xc() as f64 != post.mean[5] || st.mean_vel_yc() as f64 != post.mean[6] {
            viol(ctx, "box/state-accessors", format!("step {k}: pos ({}, {}) vel ({}, {}) against mean {:?}", st.mean_pos_xc(), st.mean_pos_yc(), st.mean_vel_xc(), st.mean_vel_yc(), post.mean), cfg, &word[..=k]);
            return;
        }
    }
}

fn run_point_word(ctx: &Ctx, pw: f32, vw: f32, init: [f32; 2], word: &[usize], cfg: &serde_json::Value) {
    use similari_point::*;
    let f = Point2DKalmanFilter::new(pw, vw);
    let vf = Vec2DKalmanFilter::new(pw, vw);
    let r = Ref { kind: Kind::Point, n: 2, pw: pw as f64, vw: vw as f64 };
    let p0 = pt(init[0], init[1]);
    let q0 = pt(init[1] * 0.5 + 3.0, -init[0]);
    let mut st = f.initiate(&p0);
    let mut st2 = f.initiate(&q0);
    let mut vst = vf.initiate(&[p0, q0]);
    let zi = [init[0] as f64, init[1] as f64];
    let mut obj = zi;
    let mut obj2 = [(init[1] * 0.5 + 3.0) as f64, (-init[0]) as f64];
    let (ms0, cs0) = scales(2, None, &raw(&st), Some(&zi), &[0.0; 2]);
    let mut last_cs = cs0.clone();
    if let Some(e) = cmp_state(2, &raw(&st), &r.initiate(&zi), &ms0, &cs0) {
        viol(ctx, "point/initiate", e, cfg, &[]);
        return;
    }
    // a third point that joins late (initiated after the first step): from then on its covariance lags the
    // others', so a vector holding it next to an older point mixes states with different histories
    let mut late: Option<KalmanState<4>> = None;
    let same_state = |x: &KalmanState<4>, y: &KalmanState<4>| {
        let (a, b) = (x.verif_raw(), y.verif_raw());
        a.0.iter().zip(&b.0).all(|(p, q)| p.to_bits() == q.to_bits()) && a.1.iter().zip(&b.1).all(|(p, q)| p.to_bits() == q.to_bits())
    };
    for (k, &sym) in word.iter().enumerate() {
        let pre = raw(&st);
        let pre2 = raw(&st2);
        ctx.steps.fetch_add(1, Ordering::Relaxed);
        if k == 1 {
            late = Some(f.initiate(&pt(init[0] + 7.0, init[1] - 2.0)));
        }
        if let Some(l) = late.take() {
            // both orders of [late joiner, old point]; every operation must equal the per-point filter bit for bit
            let lm = pt(l.verif_raw().0[0] + 0.5, l.verif_raw().0[1] - 0.25);
            let om = pt(obj[0] as f32 + 0.125, obj[1] as f32);
            for order in 0..2 {
                let (sts, ms) = if order == 0 { (vec![l.clone(), st.clone()], [lm, om]) } else { (vec![st.clone(), l.clone()], [om, lm]) };
                let (vp, vu, vd) = (vf.predict(&sts), vf.update(&sts, &ms), vf.distance(&sts, &ms));
                for i in 0..2 {
                    let (pp, pu, pd) = (f.predict(&sts[i]), f.update(&sts[i], &ms[i]), f.distance(&sts[i], &ms[i]));
                    if vp.len() != 2 || vu.len() != 2 || vd.len() != 2 || !same_state(&vp[i], &pp) || !same_state(&vu[i], &pu) || vd[i].to_bits() != pd.to_bits() {
                        viol(ctx, "vec/mixed-histories-differ-from-point", format!("step {k}: element {i} of a vector [{}] : predict / update / distance differ from the point filter on that element alone (distance {} vs {pd})", if order == 0 { "late joiner, old point" } else { "old point, late joiner" }, vd.get(i).cloned().unwrap_or(f32::NAN)), cfg, &word[..=k]);
                        return;
                    }
                }
            }
            late = Some(if sym == 0 { f.predict(&l) } else { f.update(&l, &lm) });
        }
        if sym == 0 {
            st = f.predict(&st);
            st2 = f.predict(&st2);
            vst = vf.predict(&vst);
            let post = raw(&st);
            let (ms, cs) = scales(2, Some(&pre), &post, None, &r.noise_predict(&pre));
            for d in 0..last_cs.len() { last_cs[d] = last_cs[d].max(cs[d]); }
            if let Some(e) = cmp_state(2, &post, &r.predict(&pre), &ms, &cs) {
                viol(ctx, "point/predict", format!("step {k}: {e}"), cfg, &word[..=k]);
                return;
            }
        } else {
            let m = point_meas(&mut obj, sym, k);
            let m2 = point_meas(&mut obj2, sym, k + 1);
            let (a, b) = (pt(m[0], m[1]), pt(m2[0], m2[1]));
            let z = [m[0] as f64, m[1] as f64];
            let d_imp = f.distance(&st, &a);
            let d2_imp = f.distance(&st2, &b);
            let dv = vf.distance(&vst, &[a, b]);
            if dv.len() != 2 || dv[0].to_bits() != d_imp.to_bits() || dv[1].to_bits() != d2_imp.to_bits() {
                viol(ctx, "vec/distance-differs-from-point", format!("step {k}: vec {dv:?} vs point [{d_imp}, {d2_imp}]"), cfg, &word[..=k]);
                return;
            }
            if let Some(d_ref) = r.distance(&pre, &z) {
                if (d_imp as f64 - d_ref).abs() > 2048.0 * EPS32 * d_ref.abs().max(1e-6) + 1e-9 {
                    viol(ctx, "point/distance", format!("step {k}: distance {d_imp:e}, reference {d_ref:e}"), cfg, &word[..=k]);
                    return;
                }
            }
            st = f.update(&st, &a);
            st2 = f.update(&st2, &b);
            vst = vf.update(&vst, &[a, b]);
            let post = raw(&st);
            let (ms, cs) = scales(2, Some(&pre), &post, Some(&z), &r.noise_update(&pre));
            for d in 0..last_cs.len() { last_cs[d] = last_cs[d].max(cs[d]); }
            if let Some(rf) = r.update(&pre, &z) {
                if let Some(e) = cmp_state(2, &post, &rf, &ms, &cs) {
                    viol(ctx, "point/update", format!("step {k}: {e}"), cfg, &word[..=k]);
                    return;
                }
            }
        }
        // vector filter == per-point filter, bit for bit
        let (a1, a2) = (st.verif_raw(), st2.verif_raw());
        let (b1, b2) = (vst[0].verif_raw(), vst[1].verif_raw());
        let same = |x: &(Vec<f32>, Vec<f32>), y: &(Vec<f32>, Vec<f32>)| {
            x.0.iter().zip(&y.0).all(|(p, q)| p.to_bits() == q.to_bits())
                && x.1.iter().zip(&y.1).all(|(p, q)| p.to_bits() == q.to_bits())
        };
        if vst.len() != 2 || !same(&a1, &b1) || !same(&a2, &b2) {
            viol(ctx, "vec/state-differs-from-point", format!("step {k}"), cfg, &word[..=k]);
            return;
        }
        if let Some(e) = spd(2, &raw(&st), &last_cs) {
            viol(ctx, "point/spd", format!("step {k}: {e}"), cfg, &word[..=k]);
            return;
        }
    }
}

mod similari_point {
    pub fn pt(x: f32, y: f32) -> nalgebra::Point2<f32> {
        nalgebra::Point2::new(x, y)
    }
}

fn words(len: usize, nsym: usize, f: &mut dyn FnMut(&[usize])) {
    let mut w = vec![0usize; len];
    loop {
        f(&w);
        let mut i = len;
        loop {
            if i == 0 {
                return;
            }
            i -= 1;
            w[i] += 1;
            if w[i] < nsym {
                break;
            }
            w[i] = 0;
        }
    }
}

pub fn run(tier: Tier) -> Report {
    let rep = Report::new("C07", tier);
    rep.set_rule("(a) every word over {predict, update(still|drift|jump|shrink|grow|jitter)} of length <= L (quick 5, thorough 7) and every word of length <= 4 repeated to 300 steps, for box / point / 2-point-vector filters x 3 weight pairs x initial measurements, plus small scales (boxes of height 0.04 / 0.02 in normalised coordinates, a point filter with weights 1e-3 / 1.25e-4) and boxes with a signed (-0.3, -1.4) or unwrapped (7.0) angle (the vector filter additionally on vectors that mix a late-initiated point with an older one, both orders, and on long vectors of 17 ... 500 (thorough 5000) distinct points, element by element); rotated tracks also receive angle-less measurements (jitter at even positions); every step compared with the f64 textbook step computed from the implementation's own pre-state. (b) cost(d,true) == 100 - cost(d,false) and the gate value for f32 bit patterns d >= 0 (thorough: all 2^31; quick: stride + neighbourhoods of every chi-square table entry). Distinct = words / patterns enumerated without repetition.");
    rep.assume("f64 reference recurrence with the library's documented noise model; tolerances k*2^-24*block scale");
    let ctx = Ctx { rep: &rep, steps: AtomicU64::new(0), words: AtomicU64::new(0) };

    let weights: [(f32, f32); 3] = [(1.0 / 20.0, 1.0 / 160.0), (0.1, 0.01), (0.02, 0.003)];
    let mut box_inits: Vec<Universal2DBox> = vec![];
    for &c in &[1.0f32, 100.0, 1e4] {
        for &h in &[10.0f32, 100.0] {
            for &rot in &[None, Some(0.7f32)] {
                box_inits.push(Universal2DBox::new(c, c * 0.5 + 2.0, rot, 0.5, h));
            }
        }
    }
    let pt_inits: Vec<[f32; 2]> = vec![[1.0, 0.0], [100.0, -50.0], [1e4, 1e4]];
    let depth = tier.pick(5usize, 7usize);

    // all words up to `depth`, all configurations, in parallel over (config, first two symbols)
    let mut jobs: Vec<(usize, usize, usize)> = vec![]; // (weight idx, init idx (box then point), word length)
    for wi in 0..weights.len() {
        for ii in 0..box_inits.len() + pt_inits.len() {
            for len in 1..=depth {
                jobs.push((wi, ii, len));
            }
        }
    }
    par_for(jobs.len(), 1, |j| {
        let (wi, ii, len) = jobs[j];
        let (pw, vw) = weights[wi];
        if ii < box_inits.len() {
            let init = &box_inits[ii];
            let cfg = json!({"filter":"box","weights":[pw,vw],"init":[init.xc,init.yc,init.angle,init.aspect,init.height]});
            words(len, 7, &mut |w| {
                ctx.words.fetch_add(1, Ordering::Relaxed);
                run_box_word(&ctx, pw, vw, init, w, &cfg);
            });
        } else {
            let init = pt_inits[ii - box_inits.len()];
            let cfg = json!({"filter":"point+vec","weights":[pw,vw],"init":init});
            words(len, 7, &mut |w| {
                ctx.words.fetch_add(1, Ordering::Relaxed);
                run_point_word(&ctx, pw, vw, init, w, &cfg);
            });
        }
    });
    // small scales: boxes in frame-normalised coordinates (height 0.04: innovation variances of a few 1e-6) and a
    // point filter with small weights - the textbook recurrence has no absolute scale
    {
        // ... and boxes whose angle is given in a signed convention (-0.3, -1.4) or unwrapped past a full turn (7.0):
        // the filter is linear in the angle, it has no business folding it
        let tiny_boxes = [
            Universal2DBox::new(0.5, 0.4, None, 0.5, 0.04),
            Universal2DBox::new(0.25, 0.75, Some(0.3), 2.0, 0.02),
            Universal2DBox::new(300.0, 120.0, Some(-0.3), 2.0, 40.0),
            Universal2DBox::new(40.0, 60.0, Some(-1.4), 0.4, 8.0),
            Universal2DBox::new(500.0, 200.0, Some(7.0), 1.5, 20.0),
        ];
        let n_extra = tiny_boxes.len();
        let small_w: (f32, f32) = (0.001, 0.000125);
        let sdepth = depth.min(4);
        par_for((n_extra + 1) * sdepth, 1, |j| {
            let (which, len) = (j / sdepth, j % sdepth + 1);
            if which < n_extra {
                let init = &tiny_boxes[which];
                let (pw, vw) = weights[0];
                let cfg = json!({"filter":"box","weights":[pw,vw],"init":[init.xc,init.yc,init.angle,init.aspect,init.height],"family":if which < 2 { "small scale" } else { "signed / unwrapped angle" }});
                words(len, 7, &mut |w| {
                    ctx.words.fetch_add(1, Ordering::Relaxed);
                    run_box_word(&ctx, pw, vw, init, w, &cfg);
                });
            } else {
                let cfg = json!({"filter":"point+vec","weights":[small_w.0,small_w.1],"init":[0.3,0.7],"family":"small scale"});
                words(len, 7, &mut |w| {
                    ctx.words.fetch_add(1, Ordering::Relaxed);
                    run_point_word(&ctx, small_w.0, small_w.1, [0.3, 0.7], w, &cfg);
                });
            }
        });
    }
    let exhaustive_words = ctx.words.load(Ordering::Relaxed);

    // periodic families: every word of length <= 4 repeated to 300 steps
    let mut fam: Vec<Vec<usize>> = vec![];
    for len in 1..=4 {
        words(len, 7, &mut |w| fam.push(w.to_vec()));
    }
    let fam_cfgs: Vec<(usize, usize)> = (0..weights.len())
        .flat_map(|w| (0..box_inits.len() + pt_inits.len()).map(move |i| (w, i)))
        .collect();
    let fam_cfgs = if tier == Tier::Quick {
        fam_cfgs.into_iter().filter(|(w, i)| *w == 0 || i % 5 == 0).collect::<Vec<_>>()
    } else {
        fam_cfgs
    };
    par_for(fam.len(), 8, |k| {
        let unrolled: Vec<usize> = fam[k].iter().cycle().take(300).cloned().collect();
        for &(wi, ii) in &fam_cfgs {
            let (pw, vw) = weights[wi];
            ctx.words.fetch_add(1, Ordering::Relaxed);
            if ii < box_inits.len() {
                let init = &box_inits[ii];
                let cfg = json!({"filter":"box","weights":[pw,vw],"init":[init.xc,init.yc,init.angle,init.aspect,init.height],"periodic":fam[k],"unrolled_to":300});
                run_box_word(&ctx, pw, vw, init, &unrolled, &cfg);
            } else {
                let init = pt_inits[ii - box_inits.len()];
                let cfg = json!({"filter":"point+vec","weights":[pw,vw],"init":init,"periodic":fam[k],"unrolled_to":300});
                run_point_word(&ctx, pw, vw, init, &unrolled, &cfg);
            }
        }
    });

    // stationary object: initiate + (predict, update(same)) cycles -> prediction stays put
    let mut n_stat = 0u64;
    for &(pw, vw) in &weights {
        for init in &box_inits {
            let f = Universal2DBoxKalmanFilter::new(pw, vw);
            let mut st = f.initiate(init);
            for cyc in 0..50 {
                st = f.predict(&st);
                let p = Universal2DBox::try_from(st).unwrap();
                n_stat += 1;
                let tol = 64.0 * ulp32((init.xc.abs().max(init.yc.abs()).max(init.height)) as f64);
                if cyc >= 3
                    && ((p.xc - init.xc).abs() as f64 > tol
                        || (p.yc - init.yc).abs() as f64 > tol
                        || (p.height - init.height).abs() as f64 > tol
                        || (p.aspect - init.aspect).abs() as f64 > 64.0 * ulp32(init.aspect as f64)
                        || (p.angle.unwrap_or(0.0) - init.angle.unwrap_or(0.0)).abs() as f64 > 64.0 * ulp32(1.0))
                {
                    rep.violation(Violation {
                        key: "box/stationary".into(),
                        what: format!("cycle {cyc}: predicted {p:?} for stationary {init:?}"),
                        replay: json!({"part":"stationary","weights":[pw,vw],"init":[init.xc,init.yc,init.angle,init.aspect,init.height],"cycle":cyc}),
                    });
                    break;
                }
                st = f.update(&st, init);
            }
        }
        for init in &pt_inits {
            let f = Point2DKalmanFilter::new(pw, vw);
            let p0 = similari_point::pt(init[0], init[1]);
            let mut st = f.initiate(&p0);
            for cyc in 0..50 {
                st = f.predict(&st);
                let (m, _) = st.verif_raw();
                n_stat += 1;
                let tol = 64.0 * ulp32(init[0].abs().max(init[1].abs()) as f64);
                if cyc >= 3 && ((m[0] - init[0]).abs() as f64 > tol || (m[1] - init[1]).abs() as f64 > tol) {
                    rep.violation(Violation {
                        key: "point/stationary".into(),
                        what: format!("cycle {cyc}: predicted {:?} for stationary {init:?}", &m[..2]),
                        replay: json!({"part":"stationary","weights":[pw,vw],"init":init,"cycle":cyc}),
                    });
                    break;
                }
                st = f.update(&st, &p0);
            }
        }
    }

    let steps = ctx.steps.load(Ordering::Relaxed);
    let nwords = ctx.words.load(Ordering::Relaxed);
    rep.add(steps + n_stat, steps + n_stat, nwords, 0);
    rep.distinct_count(nwords);
    rep.extra("words_exhaustive_to_depth", json!({"depth": depth, "words": exhaustive_words}));
    rep.extra("periodic_family_words", json!(nwords - exhaustive_words));
    rep.extra("filter_steps_checked", json!(steps));
    rep.sample(json!({"part":"steps","filter":"box","weights":[0.05,0.00625],"init":[1.0,2.5,null,0.5,10.0],"word":["P","Udrift","P","Ujump","Ushrink"]}));

    // (a') long point vectors (17 ... 1000 points): element i of every result belongs to point i
    {
        use similari_point::pt;
        let mut checked = 0u64;
        for &(pw, vw) in &weights {
            let f = Point2DKalmanFilter::new(pw, vw);
            let vf = Vec2DKalmanFilter::new(pw, vw);
            for n in tier.pick(vec![17usize, 127, 128, 129, 500], vec![17, 64, 127, 128, 129, 256, 500, 1000, 5000]) {
                for rep_k in 0..tier.pick(3usize, 6usize) {
                    let pts: Vec<nalgebra::Point2<f32>> = (0..n).map(|i| pt(i as f32 * 1.5 + rep_k as f32, 1000.0 - i as f32 * 0.75)).collect();
                    let meas: Vec<nalgebra::Point2<f32>> = (0..n).map(|i| pt(i as f32 * 1.5 + 0.5 + (i % 7) as f32 * 0.1, 1000.0 - i as f32 * 0.75 - 0.25)).collect();
                    let s0 = vf.initiate(&pts);
                    let s1 = vf.predict(&s0);
                    let d1 = vf.distance(&s1, &meas);
                    let s2 = vf.update(&s1, &meas);
                    let same_state = |x: &KalmanState<4>, y: &KalmanState<4>| {
                        let (a, b) = (x.verif_raw(), y.verif_raw());
                        a.0.iter().zip(&b.0).all(|(p, q)| p.to_bits() == q.to_bits()) && a.1.iter().zip(&b.1).all(|(p, q)| p.to_bits() == q.to_bits())
                    };
                    checked += n as u64;
                    let mut bad: Option<String> = None;
                    if s0.len() != n || s1.len() != n || s2.len() != n || d1.len() != n {
                        bad = Some(format!("lengths {} {} {} {} for {n} points", s0.len(), s1.len(), s2.len(), d1.len()));
                    } else {
                        for i in 0..n {
                            let p0 = f.initiate(&pts[i]);
                            let p1 = f.predict(&p0);
                            let pd = f.distance(&p1, &meas[i]);
                            let p2 = f.update(&p1, &meas[i]);
                            if !same_state(&s0[i], &p0) || !same_state(&s1[i], &p1) || !same_state(&s2[i], &p2) || d1[i].to_bits() != pd.to_bits() {
                                bad = Some(format!("element {i} of {n}: the vector filter's initiate / predict / distance / update result differs from the point filter on point {i} (distance {} vs {pd})", d1[i]));
                                break;
                            }
                        }
                    }
                    if let Some(w) = bad {
                        rep.violation(Violation { key: "vec/long-vector-differs-from-point".into(), what: w, replay: json!({"filter":"vec","weights":[pw,vw],"points":n}) });
                    }
                }
            }
        }
        ctx.steps.fetch_add(checked, Ordering::Relaxed);
        rep.extra("long_vector_points_checked", json!(checked));
    }

    // (b) costs
    let cnt = AtomicU64::new(0);
    let nviol = AtomicU64::new(0);
    let chi: [f32; 9] = [3.8415, 5.9915, 7.8147, 9.4877, 11.070, 12.592, 14.067, 15.507, 16.919];
    let check_cost = |d: f32| {
        cnt.fetch_add(1, Ordering::Relaxed);
        let bd = Universal2DBoxKalmanFilter::calculate_cost(d, false);
        let bi = Universal2DBoxKalmanFilter::calculate_cost(d, true);
        let pd = Point2DKalmanFilter::calculate_cost(d, false);
        let pi = Point2DKalmanFilter::calculate_cost(d, true);
        let vd = Vec2DKalmanFilter::calculate_cost(&[d, d], false);
        let vi = Vec2DKalmanFilter::calculate_cost(&[d, d], true);
        let mut bad: Vec<(&str, String)> = vec![];
        if bi.to_bits() != (100.0f32 - bd).to_bits() {
            bad.push(("cost/box/inverted-ne-100-minus-direct", format!("box: d={d:e} direct={bd} inverted={bi}")));
        }
        if pi.to_bits() != (100.0f32 - pd).to_bits() {
            bad.push(("cost/point/inverted-ne-100-minus-direct", format!("point: d={d:e} direct={pd} inverted={pi}")));
        }
        if vd.len() != 2 || vi.len() != 2 || vd[0].to_bits() != pd.to_bits() || vd[1].to_bits() != pd.to_bits() || vi[0].to_bits() != pi.to_bits() || vi[1].to_bits() != pi.to_bits() {
            bad.push(("cost/vec/differs-from-point", format!("vec: d={d:e} {vd:?} {vi:?} vs point {pd} {pi}")));
        }
        // gate value: 95% chi-square quantile of the filter's measurement dimension
        let bexp = if d > chi[4] { 100.0 } else { d };
        if bd.to_bits() != bexp.to_bits() {
            bad.push(("cost/box/gate-value", format!("box direct: d={d:e} cost={bd} expected {bexp} (gate 11.070)")));
        }
        let pexp = if d > chi[1] { 100.0 } else { d };
        if pd.to_bits() != pexp.to_bits() {
            bad.push(("cost/point/gate-value", format!("point direct: d={d:e} cost={pd} expected {pexp} (gate 5.9915)")));
        }
        for (k, w) in bad {
            if nviol.fetch_add(1, Ordering::Relaxed) < 64 {
                rep.violation(Violation { key: k.into(), what: w, replay: json!({"part":"cost","d_bits":f32_hex(d)}) });
            } else {
                rep.violation(Violation { key: k.into(), what: String::new(), replay: json!({"part":"cost","d_bits":f32_hex(d)}) });
            }
        }
    };
    let inf_bits = f32::INFINITY.to_bits() as u64;
    if tier == Tier::Thorough {
        let chunk = 1u64 << 22;
        let n_chunks = (inf_bits + 1 + chunk - 1) / chunk;
        par_for(n_chunks as usize, 1, |ci| {
            let lo = ci as u64 * chunk;
            let hi = (lo + chunk).min(inf_bits + 1);
            for b in lo..hi {
                check_cost(f32::from_bits(b as u32));
            }
        });
        rep.extra("cost_patterns", json!({"all_nonnegative_f32_incl_inf": inf_bits + 1}));
    } else {
        let stride = 1021u64;
        par_for(((inf_bits + 1) / stride) as usize, 8192, |i| {
            check_cost(f32::from_bits((i as u64 * stride) as u32));
        });
        for c in chi.iter().chain([0.0f32, 100.0, 50.0].iter()) {
            for j in -(1i64 << 16)..=(1i64 << 16) {
                let b = c.to_bits() as i64 + j;
                if b >= 0 && (b as u64) <= inf_bits {
                    check_cost(f32::from_bits(b as u32));
                }
            }
        }
        check_cost(f32::INFINITY);
        rep.extra("cost_patterns", json!({"stride": stride, "neighbourhoods": "every CHI2INV95 entry, 0, 50, 100: +-65536 ulps"}));
    }
    let c = cnt.load(Ordering::Relaxed);
    rep.add(c, c, c, c);
    rep.distinct_count(c);
    rep.sample(json!({"part":"cost","d":7.5,"box":[Universal2DBoxKalmanFilter::calculate_cost(7.5,false),Universal2DBoxKalmanFilter::calculate_cost(7.5,true)],"point":[Point2DKalmanFilter::calculate_cost(7.5,false),Point2DKalmanFilter::calculate_cost(7.5,true)]}));
    rep
}
