//! C02 — positional association is gated and a maximum-weight one-to-one assignment.
//! (a) engine C: SortVoting::winners over complete weight grids; (b) engine A: tracker histories with
//! crossing objects, association re-derived from the observable store (see c02b in trk.rs).

use super::assoc::*;
use super::hung::*;
use super::trk::*;
use similari::utils::bbox::Universal2DBox;
use crate::common::*;
use crate::sched::{run_jobs, Guarded};
use serde_json::json;
use std::sync::atomic::{AtomicU64, Ordering};
use std::sync::Arc;

fn weight_menu(thr: f32, full: bool) -> Vec<Option<f32>> {
    let d = if thr < 1.0 { 0.01 } else { 0.015625 };
    let (hi1, hi2) = if thr < 1.0 { (0.5, 0.9) } else { (89.5, 95.25) };
    if full {
        vec![None, Some(0.0), Some(thr - d), Some(thr), Some(thr + d), Some(hi1), Some(hi2)]
    } else {
        vec![None, Some(thr - d), Some(thr + d), Some(hi2)]
    }
}

fn case_json(c: &Case, order: &[(usize, usize, f32)]) -> serde_json::Value {
    json!({"part":"a","threshold":c.thr,"declared":[c.declared_c,c.declared_t],
           "weights":c.weights.iter().map(|r| r.iter().map(|w| w.map(|x| x as f64)).collect::<Vec<_>>()).collect::<Vec<_>>(),
           "stream_order":order.iter().map(|(c,t,w)| json!([c,t,w])).collect::<Vec<_>>()})
}

pub fn run_a(rep: &Report, tier: Tier) {
    let evals = AtomicU64::new(0);
    let nontrivial = AtomicU64::new(0);
    let report = |c: &Case, order: &[(usize, usize, f32)], v: Verdict| {
        rep.violation(Violation { key: v.key.to_string(), what: format!("{} (assignment {:?})", v.what, v.assignment), replay: case_json(c, order) });
    };
    for &thr in &[0.3f32, 1.0] {
        // complete grids for c x t <= 3 x 3
        for nc in 1..=3usize {
            for nt in 1..=3usize {
                let full = tier == Tier::Thorough || nc * nt <= 6;
                let menu = weight_menu(thr, full);
                let cells = nc * nt;
                let total = menu.len().pow(cells as u32);
                par_for(total, 4096, |idx| {
                    let mut k = idx;
                    let mut w = vec![vec![None; nt]; nc];
                    for cell in 0..cells {
                        w[cell / nt][cell % nt] = menu[k % menu.len()];
                        k /= menu.len();
                    }
                    // declared sizes: exact, and larger than actual (other scenes' tracks, empty candidates)
                    for (dc, dt) in [(nc, nt), (nc + 1, nt + 2)] {
                        let case = Case { thr, weights: w.clone(), declared_c: dc, declared_t: dt };
                        let s = case.stream();
                        evals.fetch_add(1, Ordering::Relaxed);
                        if s.len() >= 2 {
                            nontrivial.fetch_add(1, Ordering::Relaxed);
                        }
                        let v = judge(&case, &s);
                        if !v.ok {
                            report(&case, &s, v);
                            continue;
                        }
                        // arrival orders
                        if s.len() <= 4 && nc <= 2 && nt <= 2 {
                            for p in permutations(s.len()) {
                                let o: Vec<_> = p.iter().map(|i| s[*i]).collect();
                                evals.fetch_add(1, Ordering::Relaxed);
                                let v = judge(&case, &o);
                                if !v.ok {
                                    report(&case, &o, v);
                                }
                            }
                        } else {
                            let mut r = s.clone();
                            r.reverse();
                            let mut bytrack = s.clone();
                            bytrack.sort_by_key(|(c, t, _)| (*t, std::cmp::Reverse(*c)));
                            for o in [r, bytrack] {
                                evals.fetch_add(1, Ordering::Relaxed);
                                let v = judge(&case, &o);
                                if !v.ok {
                                    report(&case, &o, v);
                                }
                            }
                        }
                        if rep.want_sample(idx as u64) && s.len() >= 3 {
                            rep.sample(case_json(&case, &s));
                        }
                    }
                });
            }
        }
        // structured families 4x4 .. 8x8 (enumerated, not random): permutation matrices with one
        // perturbation, and greedy traps where the row-wise greedy choice loses by delta
        let nmax = tier.pick(6usize, 8usize);
        let (lo, hi, d) = if thr < 1.0 { (0.5f32, 0.9f32, 0.01f32) } else { (89.5, 95.25, 0.03125) };
        for n in 4..=nmax {
            let perms = permutations(n);
            par_for(perms.len(), 16, |pi| {
                let p = &perms[pi];
                for pert in 0..=(n * n) {
                    // pert == n*n: no perturbation
                    let mut w = vec![vec![Some(lo); n]; n];
                    for c in 0..n {
                        w[c][p[c]] = Some(hi);
                    }
                    if pert < n * n {
                        let (c, t) = (pert / n, pert % n);
                        if p[c] == t {
                            w[c][t] = None; // remove a matched pair
                        } else {
                            w[c][t] = Some(hi + d);
                        }
                    }
                    if n >= 7 && pert % 5 != 0 && pert != n * n {
                        continue;
                    }
                    let case = Case { thr, weights: w, declared_c: n, declared_t: n + 1 };
                    let s = case.stream();
                    evals.fetch_add(1, Ordering::Relaxed);
                    nontrivial.fetch_add(1, Ordering::Relaxed);
                    let v = judge(&case, &s);
                    if !v.ok {
                        report(&case, &s, v);
                    }
                }
            });
            // greedy traps: candidate i slightly prefers track i+1; the chain forces the last one out
            for k in 1..n {
                for rot in 0..n {
                    let mut w = vec![vec![None; n]; n];
                    for i in 0..n {
                        let c = (i + rot) % n;
                        w[c][i] = Some(hi - d);
                        if i + 1 < k + 1 && i + 1 < n {
                            w[c][i + 1] = Some(hi);
                        }
                    }
                    let case = Case { thr, weights: w, declared_c: n, declared_t: n };
                    let s = case.stream();
                    evals.fetch_add(1, Ordering::Relaxed);
                    nontrivial.fetch_add(1, Ordering::Relaxed);
                    let v = judge(&case, &s);
                    if !v.ok {
                        report(&case, &s, v);
                    }
                    let mut r = s.clone();
                    r.reverse();
                    let v = judge(&case, &r);
                    if !v.ok {
                        report(&case, &r, v);
                    }
                }
            }
        }
    }
    let e = evals.load(Ordering::Relaxed);
    rep.add(e, e, e, e);
    rep.distinct_count(nontrivial.load(Ordering::Relaxed));
    rep.extra("part_a_weight_matrices", json!(e));
}

/// detections of one step of a relative-motion word
fn frame(word: &[usize], step: usize, family: usize) -> Vec<Det> {
    if family == 7 || family == 8 {
        // the approach / cross / separate family turned as a whole by 0.6 rad about the origin: every object keeps
        // its heading from frame to frame (detection and track are equally oriented), IoU does not change under a
        // rotation of the plane
        // family 8: the same with a NEGATIVE heading (a signed angle convention)
        let ang = if family == 7 { 0.6f32 } else { -0.5 };
        let (sn, cs) = ang.sin_cos();
        return frame(word, step, 1)
            .into_iter()
            .map(|d| {
                let (x, y) = (d.bbox.xc, d.bbox.yc);
                let mut n = Det { bbox: Universal2DBox::new_with_confidence(cs * x - sn * y, sn * x + cs * y, Some(ang), d.bbox.aspect, d.bbox.height, d.bbox.confidence), custom_id: d.custom_id, feature: None, quality: None };
                n.custom_id = d.custom_id;
                n
            })
            .collect();
    }
    if family == 6 {
        // the approach / cross / separate family in a small unit (normalised image coordinates): boxes 0.002 x 0.004,
        // overlap areas of a few 1e-6 - IoU is a ratio and has no absolute scale
        return frame(word, step, 0)
            .into_iter()
            .map(|d| {
                let k = 2e-4f32;
                let mut n = Det::ltwh((d.bbox.xc - d.bbox.aspect * d.bbox.height / 2.0) * k, (d.bbox.yc - d.bbox.height / 2.0) * k, d.bbox.aspect * d.bbox.height * k, d.bbox.height * k).conf(d.bbox.confidence);
                n.custom_id = d.custom_id;
                n
            })
            .collect();
    }
    if family == 4 {
        // low-confidence detections (below a high configured minimum): the clamp decides gate and weight
        let mut gap = 4.0f32;
        for d in &word[..step] {
            gap += [-2.0f32, 0.0, 3.0][*d];
        }
        let a = Det::ltwh(0.5 * step as f32, 0.0, 10.0, 20.0).conf(if step % 2 == 1 { 0.1 } else { 1.0 });
        let b = Det::ltwh(0.5 * step as f32 + gap, 1.0, 10.0, 20.0).conf(if step % 3 == 2 { 0.2 } else { 0.7 });
        return if step % 2 == 0 { vec![a, b] } else { vec![b, a] };
    }
    if family == 5 {
        // a single object that hops by 0.75 / 1.5 / 3 px per step: decided by the chi-square gate of a filter
        // with SMALL Kalman weights (the gate is then narrower than a few pixels), far from a static one
        let mut x = 0.0f32;
        for d in &word[..step] {
            x += [0.75f32, 1.5, 3.0][*d];
        }
        return vec![Det::ltwh(x, 0.0, 10.0, 20.0), Det::ltwh(-500.0, 0.0, 10.0, 20.0).conf(0.7)];
    }
    if family == 3 {
        // a single object that jumps by 16 / 24 / 30 px per step (bounding-circle reach of two 10x20
        // boxes: 22.4 px), far away from a second, static one
        let mut x = 0.0f32;
        for d in &word[..step] {
            x += [16.0f32, 24.0, 30.0][*d];
        }
        return vec![Det::ltwh(x, 0.0, 10.0, 20.0), Det::ltwh(-500.0, 0.0, 10.0, 20.0).conf(0.7)];
    }
    let mut gap = 18.0f32;
    for d in &word[..step] {
        gap += [-6.0f32, 0.0, 6.0][*d];
    }
    let xa = 1.0 * step as f32;
    let a = Det::ltwh(xa, 0.0, 10.0, 20.0);
    let b = Det::ltwh(xa + gap, 1.0, 10.0, 20.0).conf(0.8);
    let mut v = if step % 2 == 0 { vec![a, b] } else { vec![b, a] };
    match family {
        1 => v.push(Det::ltwh(9.0, 4.0, 6.0, 10.0).conf(0.9)), // a small static object between them
        2 => v.insert(0, Det::ltwh(xa + gap * 0.5, 0.5, 10.0, 20.0).conf(0.6).rot(0.2)), // a rotated one in the middle
        _ => {}
    }
    v
}

pub fn run_b(rep: &Report, tier: Tier) {
    let len = tier.pick(5usize, 6usize);
    let words: Vec<Vec<usize>> = super::hist::words(3, len);
    let mut cfgs: Vec<TrkCfg> = vec![];
    for kind in [Kind::Sort, Kind::VisualSort, Kind::BatchSort] {
        for pos in [Pos::Iou(0.3), Pos::Maha] {
            for shards in [1usize, 2] {
                if kind != Kind::Sort && (shards == 2 || tier == Tier::Quick && pos == Pos::Maha) {
                    continue;
                }
                let mut c = TrkCfg::new(kind);
                c.pos = pos;
                c.shards = shards;
                c.max_idle = 1;
                cfgs.push(c);
            }
        }
    }
    // large Kalman weights: the chi-square gate becomes wider than the bounding-circle reach
    for shards in [1usize, 2] {
        let mut c = TrkCfg::new(Kind::Sort);
        c.pos = Pos::Maha;
        c.shards = shards;
        c.max_idle = 1;
        c.kalman_w = (0.5, 0.1);
        cfgs.push(c);
    }
    // small Kalman weights: the chi-square gate is a few pixels wide (decides the small-hop family)
    {
        let mut c = TrkCfg::new(Kind::Sort);
        c.pos = Pos::Maha;
        c.max_idle = 1;
        c.kalman_w = (1.0 / 80.0, 1.0 / 640.0);
        cfgs.push(c);
    }
    // a high minimal confidence (above the IoU threshold): low-confidence detections are lifted over the gate
    for kind in [Kind::Sort, Kind::VisualSort] {
        let mut c = TrkCfg::new(kind);
        c.pos = Pos::Iou(0.3);
        c.min_conf = 0.6;
        c.max_idle = 1;
        cfgs.push(c);
    }
    let calls = AtomicU64::new(0);
    let undecided = AtomicU64::new(0);
    let greedy_differs = AtomicU64::new(0);
    let continued = AtomicU64::new(0);
    for cfg in cfgs {
        for family in 0..9usize {
            if rep.out_of_time() {
                rep.cap_hit("wall budget reached in the end-to-end association part");
                return;
            }
            let chunk = 8usize;
            let nchunks = (words.len() + chunk - 1) / chunk;
            let ws = Arc::new(words.clone());
            let (ws2, cfg2) = (ws.clone(), cfg.clone());
            let outs = run_jobs(nchunks, move |ci| {
                let pc = PosCfg::of(&cfg2);
                let mut viol: Vec<(Vec<usize>, usize, String, String)> = vec![];
                let mut stats = (0u64, 0u64, 0u64, 0u64);
                for w in &ws2[ci * chunk..((ci + 1) * chunk).min(ws2.len())] {
                    let mut trk = Guarded::new(AnyTrk::new(&cfg2));
                    for step in 0..=w.len() {
                        let dets = frame(w, step, family);
                        let pre = trk.all_stored(false, cfg2.shards);
                        let recs = trk.predict(0, &dets);
                        stats.0 += 1;
                        if recs.len() != dets.len() {
                            viol.push((w.clone(), step, "association/record-count".into(), format!("{} records", recs.len())));
                            break;
                        }
                        let now = step + 1;
                        let v = judge_positional(&pc, 0, now, &dets.iter().collect::<Vec<_>>(), &recs.iter().collect::<Vec<_>>(), &pre.iter().collect::<Vec<_>>());
                        if v.undecided {
                            stats.1 += 1;
                        }
                        if v.greedy_differs {
                            stats.2 += 1;
                        }
                        stats.3 += recs.iter().filter(|r| pre.iter().any(|t| t.id == r.id)).count() as u64;
                        if let Some((key, what)) = v.violation {
                            viol.push((w.clone(), step, key, what));
                            break;
                        }
                        // a detection that continues nothing starts a track with a fresh id
                        for r in &recs {
                            if !pre.iter().any(|t| t.id == r.id) && r.length != 1 {
                                viol.push((w.clone(), step, "association/new-track-length".into(), format!("{r:?}")));
                            }
                        }
                    }
                }
                (viol, stats)
            });
            for o in outs {
                match o {
                    Ok((viol, st)) => {
                        calls.fetch_add(st.0, Ordering::Relaxed);
                        undecided.fetch_add(st.1, Ordering::Relaxed);
                        greedy_differs.fetch_add(st.2, Ordering::Relaxed);
                        continued.fetch_add(st.3, Ordering::Relaxed);
                        for (w, step, key, what) in viol {
                            rep.violation(Violation { key, what, replay: json!({"part":"b","config":cfg.json(),"family":family,"relative_motion_word":w,"failing_step":step,"frames":(0..=step).map(|k| frame(&w, k, family).iter().map(|d| d.json()).collect::<Vec<_>>()).collect::<Vec<_>>()}) });
                        }
                    }
                    Err(e) => rep.violation(Violation { key: format!("{}/panic-or-deadlock", cfg.kind.name()), what: e.chars().take(300).collect(), replay: json!({"part":"b","config":cfg.json(),"family":family}) }),
                }
            }
        }
    }
    let c = calls.load(Ordering::Relaxed);
    rep.add(c, c, c, 0);
    rep.distinct_count(c);
    rep.extra("part_b_calls", json!(c));
    rep.extra("part_b_undecided_by_margin", json!(undecided.load(Ordering::Relaxed)));
    rep.extra("part_b_calls_where_rowwise_greedy_differs_from_optimum", json!(greedy_differs.load(Ordering::Relaxed)));
    rep.extra("part_b_continuations", json!(continued.load(Ordering::Relaxed)));
}

/// Schedule part: the association of the batch SORT tracker under pipelined use (results retrieved by consumer
/// threads while the next batch is submitted). Every scene's records must be those of the simple tracker, i.e.
/// every detection continues exactly the track the gated maximum-weight assignment on the up-to-date store gives
/// it - a store that lags one batch behind shows as a detection that starts a track although it passes the gate.
pub fn run_schedules(rep: &Report, tier: Tier) {
    use super::c06;
    let mut scen = vec![];
    let slice = tier.pick(2.0f64, 60.0f64);
    for (vs, variant, fine, max_bound) in [(1usize, 1usize, false, tier.pick(2usize, 4usize)), (2, 1, false, tier.pick(2, 4)), (2, 0, false, tier.pick(2, 4)), (2, 1, true, tier.pick(1, 2))] {
        let mut cfg = TrkCfg::new(Kind::BatchSort);
        cfg.shards = 1;
        cfg.voting_shards = vs;
        cfg.max_idle = 2;
        let bs = c06::batches(variant);
        let reference = c06::simple_reference(&cfg, &bs);
        scen.push(c06::explore_batch(rep, "association", &cfg, variant, 1, fine, max_bound, slice, &|o| c06::judge(o, &bs, &reference).map_err(|(k, w)| (format!("association/pipelined-{}", k.replace('/', "-")), w))));
    }
    rep.extra("schedule_part", json!(scen));
}
