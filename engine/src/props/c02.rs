//! C02 — positional association is gated and a maximum-weight one-to-one assignment.
//! (a) engine C: SortVoting::winners over complete weight grids; (b) engine A: tracker histories with
//! crossing objects, association re-derived from the observable store (see c02b in trk.rs).

use super::hung::*;
use crate::common::*;
use serde_json::json;
use std::sync::atomic::{AtomicU64, Ordering};

fn weight_menu(thr: f32, full: bool) -> Vec<Option<f32>> {
    let d = if thr < 1.0 { 0.01 } else { 0.015625 };
    let (hi1, hi2) = if thr < 1.0 { (0.5, 0.9) } else { (89.5, 95.25) };
    if full {
        vec![None, Some(0.0), Some(thr - d), Some(thr), Some(thr + d), Some(hi1), Some(hi2)]
    } else {
        vec![None, Some(thr - d), Some(thr + d), Some(hi2)]
    }
}

fn case_json(c: &Case, order: &[(usize, usize, f32)]) -> serde_json::Value {
    json!({"part":"a","threshold":c.thr,"declared":[c.declared_c,c.declared_t],
           "weights":c.weights.iter().map(|r| r.iter().map(|w| w.map(|x| x as f64)).collect::<Vec<_>>()).collect::<Vec<_>>(),
           "stream_order":order.iter().map(|(c,t,w)| json!([c,t,w])).collect::<Vec<_>>()})
}

pub fn run_a(rep: &Report, tier: Tier) {
    let evals = AtomicU64::new(0);
    let nontrivial = AtomicU64::new(0);
    let report = |c: &Case, order: &[(usize, usize, f32)], v: Verdict| {
        rep.violation(Violation { key: v.key.to_string(), what: format!("{} (assignment {:?})", v.what, v.assignment), replay: case_json(c, order) });
    };
    for &thr in &[0.3f32, 1.0] {
        // complete grids for c x t <= 3 x 3
        for nc in 1..=3usize {
            for nt in 1..=3usize {
                let full = tier == Tier::Thorough || nc * nt <= 6;
                let menu = weight_menu(thr, full);
                let cells = nc * nt;
                let total = menu.len().pow(cells as u32);
                par_for(total, 4096, |idx| {
                    let mut k = idx;
                    let mut w = vec![vec![None; nt]; nc];
                    for cell in 0..cells {
                        w[cell / nt][cell % nt] = menu[k % menu.len()];
                        k /= menu.len();
                    }
                    // declared sizes: exact, and larger than actual (other scenes' tracks, empty candidates)
                    for (dc, dt) in [(nc, nt), (nc + 1, nt + 2)] {
                        let case = Case { thr, weights: w.clone(), declared_c: dc, declared_t: dt };
                        let s = case.stream();
                        evals.fetch_add(1, Ordering::Relaxed);
                        if s.len() >= 2 {
                            nontrivial.fetch_add(1, Ordering::Relaxed);
                        }
                        let v = judge(&case, &s);
                        if !v.ok {
                            report(&case, &s, v);
                            continue;
                        }
                        // arrival orders
                        if s.len() <= 4 && nc <= 2 && nt <= 2 {
                            for p in permutations(s.len()) {
                                let o: Vec<_> = p.iter().map(|i| s[*i]).collect();
                                evals.fetch_add(1, Ordering::Relaxed);
                                let v = judge(&case, &o);
                                if !v.ok {
                                    report(&case, &o, v);
                                }
                            }
                        } else {
                            let mut r = s.clone();
                            r.reverse();
                            let mut bytrack = s.clone();
                            bytrack.sort_by_key(|(c, t, _)| (*t, std::cmp::Reverse(*c)));
                            for o in [r, bytrack] {
                                evals.fetch_add(1, Ordering::Relaxed);
                                let v = judge(&case, &o);
                                if !v.ok {
                                    report(&case, &o, v);
                                }
                            }
                        }
                        if rep.want_sample(idx as u64) && s.len() >= 3 {
                            rep.sample(case_json(&case, &s));
                        }
                    }
                });
            }
        }
        // structured families 4x4 .. 8x8 (enumerated, not random): permutation matrices with one
        // perturbation, and greedy traps where the row-wise greedy choice loses by delta
        let nmax = tier.pick(6usize, 8usize);
        let (lo, hi, d) = if thr < 1.0 { (0.5f32, 0.9f32, 0.01f32) } else { (89.5, 95.25, 0.03125) };
        for n in 4..=nmax {
            let perms = permutations(n);
            par_for(perms.len(), 16, |pi| {
                let p = &perms[pi];
                for pert in 0..=(n * n) {
                    // pert == n*n: no perturbation
                    let mut w = vec![vec![Some(lo); n]; n];
                    for c in 0..n {
                        w[c][p[c]] = Some(hi);
                    }
                    if pert < n * n {
                        let (c, t) = (pert / n, pert % n);
                        if p[c] == t {
                            w[c][t] = None; // remove a matched pair
                        } else {
                            w[c][t] = Some(hi + d);
                        }
                    }
                    if n >= 7 && pert % 5 != 0 && pert != n * n {
                        continue;
                    }
                    let case = Case { thr, weights: w, declared_c: n, declared_t: n + 1 };
                    let s = case.stream();
                    evals.fetch_add(1, Ordering::Relaxed);
                    nontrivial.fetch_add(1, Ordering::Relaxed);
                    let v = judge(&case, &s);
                    if !v.ok {
                        report(&case, &s, v);
                    }
                }
            });
            // greedy traps: candidate i slightly prefers track i+1; the chain forces the last one out
            for k in 1..n {
                for rot in 0..n {
                    let mut w = vec![vec![None; n]; n];
                    for i in 0..n {
                        let c = (i + rot) % n;
                        w[c][i] = Some(hi - d);
                        if i + 1 < k + 1 && i + 1 < n {
                            w[c][i + 1] = Some(hi);
                        }
                    }
                    let case = Case { thr, weights: w, declared_c: n, declared_t: n };
                    let s = case.stream();
                    evals.fetch_add(1, Ordering::Relaxed);
                    nontrivial.fetch_add(1, Ordering::Relaxed);
                    let v = judge(&case, &s);
                    if !v.ok {
                        report(&case, &s, v);
                    }
                    let mut r = s.clone();
                    r.reverse();
                    let v = judge(&case, &r);
                    if !v.ok {
                        report(&case, &r, v);
                    }
                }
            }
        }
    }
    let e = evals.load(Ordering::Relaxed);
    rep.add(e, e, e, e);
    rep.distinct_count(nontrivial.load(Ordering::Relaxed));
    rep.extra("part_a_weight_matrices", json!(e));
}
