//! Engine A for trackers: enumerate operation histories over an alphabet, run each on a fresh real
//! tracker (inside the shuttle runtime, default schedule) with a per-step monitor.

use super::trk::*;
use crate::common::*;
use crate::sched::{in_shuttle, Guarded};
use std::sync::Mutex;

#[derive(Clone, Debug, PartialEq)]
pub enum TOp {
    Predict(u64, usize),
    Skip(u64, usize),
    Wasted,
    ClearWasted,
    SetAutoWaste(usize),
}

impl TOp {
    pub fn json(&self, lists: &[Vec<Det>]) -> serde_json::Value {
        match self {
            TOp::Predict(s, l) => serde_json::json!({"predict":{"scene":s,"list":l,"detections":lists[*l].iter().map(|d| d.json()).collect::<Vec<_>>()}}),
            TOp::Skip(s, n) => serde_json::json!({"skip":{"scene":s,"n":n}}),
            TOp::Wasted => serde_json::json!("wasted"),
            TOp::ClearWasted => serde_json::json!("clear_wasted"),
            TOp::SetAutoWaste(p) => serde_json::json!({"set_auto_waste":p}),
        }
    }
}

#[derive(Clone, Debug, PartialEq)]
pub enum TOut {
    Recs(Vec<Rec>),
    Wasted(Vec<WRec>),
    Unit,
}

pub fn apply(trk: &mut AnyTrk, op: &TOp, lists: &[Vec<Det>]) -> TOut {
    match op {
        TOp::Predict(s, l) => TOut::Recs(trk.predict(*s, &lists[*l])),
        TOp::Skip(s, n) => {
            trk.skip(*s, *n);
            TOut::Unit
        }
        TOp::Wasted => TOut::Wasted(trk.wasted()),
        TOp::ClearWasted => {
            trk.clear_wasted();
            TOut::Unit
        }
        TOp::SetAutoWaste(p) => {
            trk.set_auto_waste(*p);
            TOut::Unit
        }
    }
}

/// A monitor sees every step of one history on one tracker instance.
pub trait Monitor {
    /// called after `op` produced `out`; may query the tracker; Err((key, what)) = violation
    fn step(&mut self, trk: &mut AnyTrk, op: &TOp, out: &TOut, lists: &[Vec<Det>]) -> Result<(), (String, String)>;
    /// called once after the last step
    fn finish(&mut self, _trk: &mut AnyTrk) -> Result<(), (String, String)> {
        Ok(())
    }
}

pub struct HistStats {
    pub histories: u64,
    pub steps: u64,
}

/// all words over `0..n` of length exactly `len`
pub fn words(n: usize, len: usize) -> Vec<Vec<usize>> {
    let mut out = vec![];
    let mut w = vec![0usize; len];
    if n == 0 {
        return out;
    }
    loop {
        out.push(w.clone());
        let mut i = len;
        loop {
            if i == 0 {
                return out;
            }
            i -= 1;
            w[i] += 1;
            if w[i] < n {
                break;
            }
            w[i] = 0;
        }
    }
}

/// Run every history (list of alphabet indices) on a fresh tracker with a fresh monitor.
#[allow(clippy::too_many_arguments)]
pub fn run_histories<M, F>(rep: &Report, cfg: &TrkCfg, alphabet: &[TOp], lists: &[Vec<Det>], histories: &[Vec<usize>], mk: F, tag: &str) -> HistStats
where
    M: Monitor,
    F: Fn(&TrkCfg) -> M + Send + Sync + Clone + 'static,
{
    let chunk = 8usize;
    let nchunks = (histories.len() + chunk - 1) / chunk;
    let steps = Mutex::new(0u64);
    let hs_all: std::sync::Arc<Vec<Vec<usize>>> = std::sync::Arc::new(histories.to_vec());
    let cfg2 = cfg.clone();
    let alpha: std::sync::Arc<Vec<TOp>> = std::sync::Arc::new(alphabet.to_vec());
    let lists2: std::sync::Arc<Vec<Vec<Det>>> = std::sync::Arc::new(lists.to_vec());
    let mk2 = mk.clone();
    let hs_job = hs_all.clone();
    let results = crate::sched::run_jobs(nchunks, move |ci| {
        let lo = ci * chunk;
        let hi = (lo + chunk).min(hs_job.len());
        let mut viol: Vec<(Vec<usize>, String, String)> = vec![];
        let mut steps = 0u64;
        for h in &hs_job[lo..hi] {
            let mut trk = Guarded::new(AnyTrk::new(&cfg2));
            let mut mon = mk2(&cfg2);
            let mut failed = false;
            for (k, a) in h.iter().enumerate() {
                let op = &alpha[*a];
                let out = apply(&mut trk, op, &lists2);
                steps += 1;
                if let Err((key, what)) = mon.step(&mut trk, op, &out, &lists2) {
                    viol.push((h[..=k].to_vec(), key, what));
                    failed = true;
                    break;
                }
            }
            if !failed {
                if let Err((key, what)) = mon.finish(&mut trk) {
                    viol.push((h.clone(), key, what));
                }
            }
        }
        (viol, steps)
    });
    for (ci, res) in results.into_iter().enumerate() {
        let lo = ci * chunk;
        let hi = (lo + chunk).min(histories.len());
        match res {
            Ok((viol, st)) => {
                *steps.lock().unwrap() += st;
                for (h, key, what) in viol {
                    rep.violation(Violation {
                        key,
                        what,
                        replay: serde_json::json!({"check":tag,"config":cfg.json(),"history":h.iter().map(|a| alphabet[*a].json(lists)).collect::<Vec<_>>()}),
                    });
                }
            }
            Err(e) => {
                // a panic / deadlock inside the subject: find the offending history by re-running one at a time
                let mut located = false;
                for h in &histories[lo..hi] {
                    let (cfg3, alpha3, lists3, h3, mk3) = (cfg.clone(), alphabet.to_vec(), lists.to_vec(), h.clone(), mk.clone());
                    let r = in_shuttle(move || {
                        let mut trk = Guarded::new(AnyTrk::new(&cfg3));
                        let mut mon = mk3(&cfg3);
                        for a in &h3 {
                            let out = apply(&mut trk, &alpha3[*a], &lists3);
                            let _ = mon.step(&mut trk, &alpha3[*a], &out, &lists3);
                        }
                    });
                    if let Err(e2) = r {
                        located = true;
                        rep.violation(Violation {
                            key: format!("{}/panic-or-deadlock", cfg.kind.name()),
                            what: e2.chars().take(300).collect(),
                            replay: serde_json::json!({"check":tag,"config":cfg.json(),"history":h.iter().map(|a| alphabet[*a].json(lists)).collect::<Vec<_>>()}),
                        });
                        break;
                    }
                }
                if !located {
                    machinery_error(&format!("{tag}: batch failed ({e}) but no single history reproduces it"));
                }
            }
        }
    }
    // an actual history of this run as evidence sample (which one rotates with VERIF_SEED)
    if !histories.is_empty() {
        let k = (histories.len() / 2 + rep.seed as usize * 7919) % histories.len();
        rep.sample(serde_json::json!({"check":tag,"config":cfg.json(),"history":histories[k].iter().map(|a| alphabet[*a].json(lists)).collect::<Vec<_>>(),"verdict":"held"}));
    }
    let st = *steps.lock().unwrap();
    HistStats { histories: histories.len() as u64, steps: st }
}

fn parse_op(j: &serde_json::Value) -> Option<TOp> {
    if let Some(p) = j.get("predict") {
        return Some(TOp::Predict(p["scene"].as_u64()?, p["list"].as_u64()? as usize));
    }
    if let Some(p) = j.get("skip") {
        return Some(TOp::Skip(p["scene"].as_u64()?, p["n"].as_u64()? as usize));
    }
    if let Some(p) = j.get("set_auto_waste") {
        return Some(TOp::SetAutoWaste(p.as_u64()? as usize));
    }
    match j.as_str()? {
        "wasted" => Some(TOp::Wasted),
        "clear_wasted" => Some(TOp::ClearWasted),
        _ => None,
    }
}

/// `./check <ID> quick --replay <file>` for the history-based checks: re-run the one recorded history
/// with the property's monitor and print every step.
pub fn replay<M, F>(id: &str, file: &serde_json::Value, lists: &[Vec<Det>], mk: F) -> i32
where
    M: Monitor,
    F: Fn(&TrkCfg) -> M + Send + Sync + Clone + 'static,
{
    let r = &file["replay"];
    let Some(cfg) = TrkCfg::from_json(&r["config"]) else { machinery_error("replay file: cannot parse the tracker configuration") };
    let ops: Vec<TOp> = match r["history"].as_array() {
        Some(a) => a.iter().filter_map(parse_op).collect(),
        None => machinery_error("replay file: no history"),
    };
    println!("config {}", r["config"]);
    let lists2 = lists.to_vec();
    let id2 = id.to_string();
    let res = in_shuttle(move || {
        let mut trk = Guarded::new(AnyTrk::new(&cfg));
        let mut mon = mk(&cfg);
        let mut lines = vec![];
        for (k, op) in ops.iter().enumerate() {
            let out = apply(&mut trk, op, &lists2);
            lines.push(format!("step {k}: {op:?} -> {}", format!("{out:?}").chars().take(400).collect::<String>()));
            if let Err((key, what)) = mon.step(&mut trk, op, &out, &lists2) {
                lines.push(format!("VIOLATION property={id2} replay=(replayed) {key}: {what}"));
                return (lines, 1);
            }
        }
        lines.push("the recorded history no longer violates the property".to_string());
        (lines, 0)
    });
    match res {
        Ok((lines, rc)) => {
            for l in lines {
                println!("{l}");
            }
            rc
        }
        Err(e) => {
            println!("VIOLATION property={id} replay=(replayed) {e}");
            1
        }
    }
}
