//! C13 — bounded galleries and histories: newest kept, lowest quality evicted. Engine A:
//! all quality words up to a length (plus periodic words unrolled) on one continuing object with
//! a distractor, galleries and histories read from the live store after every update.

use super::hist::words;
use super::trk::*;
use crate::common::*;
use crate::sched::{run_jobs, Guarded};
use serde_json::json;
use std::sync::Arc;

const Q_COLLECT: f32 = 0.3;

/// symbol -> (feature, quality) of the continuing object's detection
fn sym(k: usize, step: usize) -> (Option<Vec<f32>>, Option<f32>) {
    // distinct vectors so that individual features can be followed through the gallery
    let mut f = vec![0.0f32; 16];
    f[0] = 1.0;
    f[1 + (step % 7)] = 0.01 * (step as f32 + 1.0);
    match k {
        0 => (Some(f), Some(0.1)),
        1 => (Some(f), Some(0.5)),
        2 => {
            f[9] = 0.02;
            (Some(f), Some(0.5))
        }
        3 | 5 | 6 | 7 => (Some(f), Some(0.9)),
        _ => (None, None),
    }
}

fn pad(f: &[f32]) -> Vec<u32> {
    let mut v: Vec<u32> = f.iter().map(|x| x.to_bits()).collect();
    v.resize((f.len() + 7) / 8 * 8, 0);
    v
}

type Stored1 = (u32, Vec<u32>); // (quality bits, feature)

fn stored_features(t: &Stored) -> Vec<Stored1> {
    let mut v: Vec<Stored1> = t.obs0.iter().filter_map(|o| o.3.as_ref().map(|f| (o.1, f.clone()))).collect();
    v.sort();
    v
}

struct Viol(Vec<usize>, String, String);

/// where the records and store dumps of a lane come from: a live tracker of its own, or the recording of one
/// scene of a shared two-scene batch run
enum Drive {
    Live(Guarded<AnyTrk>),
    Recorded { recs: Vec<Vec<Rec>>, stored: Vec<Vec<Stored>>, wasted: Vec<WRec> },
}

impl Drive {
    fn predict(&mut self, k: usize, frame: &[Det]) -> Vec<Rec> {
        match self {
            Drive::Live(t) => t.predict(0, frame),
            Drive::Recorded { recs, .. } => recs[k].clone(),
        }
    }
    fn stored(&mut self, k: usize, shards: usize) -> Vec<Stored> {
        match self {
            Drive::Live(t) => t.all_stored(false, shards),
            Drive::Recorded { stored, .. } => stored[k].clone(),
        }
    }
    fn expire(&mut self, max_idle: usize) -> Vec<WRec> {
        match self {
            Drive::Live(t) => {
                t.skip(0, max_idle + 1);
                t.wasted()
            }
            Drive::Recorded { wasted, .. } => wasted.clone(),
        }
    }
}

/// the detections of update k: the object's detection first. `far_cover`: the lane in which the detection that
/// comes with symbol 5 lies far away from the object instead of covering half of it (same frame length, same
/// index, own-area share 1 instead of .5)
fn frame_of(rotated: bool, far_cover: bool, word: &[usize], k: usize) -> (Det, Vec<Det>, Option<Vec<f32>>, Option<f32>) {
    let s = word[k];
    let (f, qual) = sym(s, k);
    // the object drifts slowly so that boxes in the histories are all different
    let mut d = p().shift(0.25 * k as f32, 0.125 * k as f32);
    if let (Some(f), Some(q)) = (&f, qual) {
        d = d.feat(f, q);
    }
    // symbols 6 / 7: a good feature on a box that is suddenly smaller (area 141) / larger (area 288) than the
    // object was so far (area 200): the 'collect' area threshold is about the DETECTION's box, whatever the
    // filter has smoothed it to
    if s == 6 || s == 7 {
        let f6 = if s == 6 { 0.84f32 } else { 1.2 };
        let (cx, cy) = (5.0 + 0.25 * k as f32, 10.0 + 0.125 * k as f32);
        let mut nd = Det::ltwh(cx - 5.0 * f6, cy - 10.0 * f6, 10.0 * f6, 20.0 * f6);
        nd.feature = d.feature.clone();
        nd.quality = d.quality;
        d = nd;
    }
    // rotated configuration: every detection of the object is turned by a quarter turn (real footprint 20 x 10)
    if rotated {
        d = d.rot(std::f32::consts::FRAC_PI_2);
    }
    // symbol 5: a good feature, but half of the box is covered by another detection of the same frame
    // (exclusively owned share 0.5; rotated configuration: the partner lies 11 to the right along the long
    // side, share 0.55 - the unrotated extents of the two boxes do not even touch there)
    let distractor = q().feat(&fb(), 0.9);
    let mut frame = vec![d.clone(), distractor.shift(0.0, 0.1 * k as f32)];
    if s == 5 {
        let dx = if far_cover { 400.0 + 30.0 * k as f32 } else if rotated { 11.0 } else { 5.0 };
        frame.push(Det { bbox: d.shift(dx, 0.0).bbox, custom_id: None, feature: None, quality: None });
    }
    (d, frame, f, qual)
}

/// Two lanes in ONE tracker: scenes 0 and 3 of two-scene batches carry the same word; in scene 3 the detection
/// that comes with symbol 5 is far away. The two scenes need different own-area shares at the same index of
/// their frames, whichever of them the batch hands out first. Each lane is then judged like a run of its own.
fn run_word_shared_batch(cfg: &TrkCfg, rotated: bool, word: &[usize], viol: &mut Vec<Viol>, steps: &mut u64) {
    let mut trk = Guarded::new(AnyTrk::new(cfg));
    let mut lanes: Vec<(Vec<Vec<Rec>>, Vec<Vec<Stored>>)> = vec![(vec![], vec![]), (vec![], vec![])];
    for k in 0..word.len() {
        let batch: Vec<(u64, Vec<Det>)> = vec![(0, frame_of(rotated, false, word, k).1), (3, frame_of(rotated, true, word, k).1)];
        let res = trk.submit_batch(&batch);
        for _ in 0..2 {
            let (scene, recs) = res.get();
            let lane = if scene == 0 { 0 } else { 1 };
            lanes[lane].0.push(recs.iter().map(Rec::from).collect());
        }
        let st = trk.all_stored(false, cfg.shards);
        for (i, scene) in [0u64, 3].iter().enumerate() {
            lanes[i].1.push(st.iter().filter(|t| t.scene == *scene).cloned().collect());
        }
    }
    trk.skip(0, cfg.max_idle + 1);
    trk.skip(3, cfg.max_idle + 1);
    let w = trk.wasted();
    for (i, (recs, stored)) in lanes.into_iter().enumerate() {
        let scene = [0u64, 3][i];
        let drive = Drive::Recorded { recs, stored, wasted: w.iter().filter(|x| x.scene == scene).cloned().collect() };
        let before = viol.len();
        run_word_on(drive, cfg, rotated, i == 1, word, viol, steps);
        for v in &mut viol[before..] {
            v.2 = format!("[two-scene batches, scene {scene}{}] {}", if i == 1 { ", covering detection far away" } else { "" }, v.2);
        }
    }
}

fn run_word(cfg: &TrkCfg, rotated: bool, word: &[usize], viol: &mut Vec<Viol>, steps: &mut u64) {
    run_word_on(Drive::Live(Guarded::new(AnyTrk::new(cfg))), cfg, rotated, false, word, viol, steps)
}

fn run_word_on(mut trk: Drive, cfg: &TrkCfg, rotated: bool, far_cover: bool, word: &[usize], viol: &mut Vec<Viol>, steps: &mut u64) {
    let visual = cfg.kind.is_visual();
    let max = cfg.vis.max_obs;
    let hlen = cfg.history;
    let mut id: Option<u64> = None;
    let mut prev: Vec<Stored1> = vec![];
    let mut obs_hist: Vec<BoxR> = vec![];
    let mut pred_hist: Vec<BoxR> = vec![];
    let mut feat_hist: Vec<Option<Vec<u32>>> = vec![];
    macro_rules! bad {
        ($k:expr, $key:expr, $what:expr) => {{
            viol.push(Viol(word[..=$k].to_vec(), $key.to_string(), $what));
            return;
        }};
    }
    for (k, s) in word.iter().enumerate() {
        *steps += 1;
        let (d, frame, f, qual) = frame_of(rotated, far_cover, word, k);
        let recs = trk.predict(k, &frame);
        if recs.len() != frame.len() {
            bad!(k, "gallery/record-count", format!("{} records", recs.len()));
        }
        let r = &recs[0];
        match id {
            None => id = Some(r.id),
            Some(i) => {
                if r.id != i {
                    bad!(k, "gallery/object-not-continued", format!("the continuing object got track {} instead of {i}", r.id));
                }
            }
        }
        if recs[1].id == r.id {
            bad!(k, "gallery/distractor-merged", "both detections on one track".to_string());
        }
        let stored = trk.stored(k, cfg.shards);
        let Some(t) = stored.iter().find(|t| t.id == r.id) else { bad!(k, "gallery/track-missing", format!("track {} not in the store", r.id)) };
        // histories ----------------------------------------------------------------------------
        obs_hist.push(box_r(&d.bbox));
        pred_hist.push(r.predicted);
        feat_hist.push(f.as_ref().map(|f| pad(f)));
        let n = obs_hist.len().min(hlen);
        let exp_obs = &obs_hist[obs_hist.len() - n..];
        let exp_pred = &pred_hist[pred_hist.len() - n..];
        if t.observed != exp_obs {
            bad!(k, "history/observed-boxes", format!("{} entries {:?}, expected the last {n} observed boxes in arrival order", t.observed.len(), t.observed.iter().map(|b| box_f(b)[0]).collect::<Vec<_>>()));
        }
        if t.predicted != exp_pred {
            bad!(k, "history/predicted-boxes", format!("{} entries, expected the last {n} predicted boxes in arrival order", t.predicted.len()));
        }
        if r.observed != *exp_obs.last().unwrap() || r.predicted != *exp_pred.last().unwrap() {
            bad!(k, "history/record-not-last-entry", "the record does not echo the last history entries".to_string());
        }
        if t.length != k + 1 || r.length != k + 1 {
            bad!(k, "history/length", format!("length {} / {} after {} updates", t.length, r.length, k + 1));
        }
        if visual {
            let exp_feat = &feat_hist[feat_hist.len() - n..];
            if t.feat_hist != exp_feat {
                bad!(k, "history/observed-features", format!("{} entries, expected the last {n} features in arrival order", t.feat_hist.len()));
            }
            // gallery ---------------------------------------------------------------------------
            let now = stored_features(t);
            if t.obs0.len() > max.max(1) {
                bad!(k, "gallery/too-many-entries", format!("{} gallery entries, visual_max_observations = {max}", t.obs0.len()));
            }
            if now.len() > max {
                bad!(k, "gallery/too-many-features", format!("{} stored features, visual_max_observations = {max}", now.len()));
            }
            if t.collected != now.len() {
                bad!(k, "gallery/collected-count", format!("visual_features_collected_count = {}, stored features = {}", t.collected, now.len()));
            }
            // index 0 is the newest entry: carries a box; the others do not
            if t.obs0.is_empty() || t.obs0[0].0.is_none() {
                bad!(k, "gallery/newest-entry", "the first gallery entry has no box".to_string());
            }
            let newcomer: Option<Stored1> = f.as_ref().map(|f| (qual.unwrap().to_bits(), pad(f)));
            let collectable = match (&newcomer, k) {
                (None, _) => false,
                (Some(_), 0) => true, // the detection that starts a track keeps its feature
                // the own-area shares are computed when either own-area threshold is configured
                (Some(n), _) => f32::from_bits(n.0) >= Q_COLLECT && d.bbox.area() >= cfg.vis.min_area && !(*s == 5 && !far_cover && cfg.vis.own_use + cfg.vis.own_collect > 0.0 && (if rotated { 0.55 } else { 0.5 }) < cfg.vis.own_collect),
            };
            let has_new = newcomer.as_ref().map_or(false, |n| now.contains(n));
            // the statement speaks of detections that continue a track; for the one that starts it a
            // below-threshold feature may be kept or not
            let undecided_first = k == 0 && newcomer.as_ref().map_or(false, |n| f32::from_bits(n.0) < Q_COLLECT);
            let collectable = if undecided_first { has_new } else { collectable };
            if collectable && !has_new {
                bad!(k, "gallery/collectable-feature-not-stored", format!("quality {:?} >= collect threshold but the feature is not in the gallery", qual));
            }
            if !collectable && has_new && newcomer.is_some() {
                bad!(k, "gallery/uncollectable-feature-stored", format!("quality {:?} below the collect threshold but the feature was stored", qual));
            }
            // what disappeared
            let mut old = prev.clone();
            let mut removed: Vec<Stored1> = vec![];
            let mut remaining = now.clone();
            if let Some(n) = &newcomer {
                if let Some(p) = remaining.iter().position(|x| x == n) {
                    remaining.remove(p);
                }
            }
            for o in old.drain(..) {
                if let Some(p) = remaining.iter().position(|x| *x == o) {
                    remaining.remove(p);
                } else {
                    removed.push(o);
                }
            }
            if !remaining.is_empty() {
                bad!(k, "gallery/foreign-feature", format!("{} stored features that were neither stored before nor submitted now", remaining.len()));
            }
            if removed.len() > 1 {
                bad!(k, "gallery/more-than-one-eviction", format!("{} stored features disappeared in one update", removed.len()));
            }
            if let Some(rm) = removed.first() {
                let minq = prev.iter().map(|x| f32::from_bits(x.0)).fold(f32::INFINITY, f32::min);
                if f32::from_bits(rm.0) > minq {
                    bad!(k, "gallery/evicted-not-lowest-quality", format!("evicted a feature of quality {}, the lowest stored quality was {minq}", f32::from_bits(rm.0)));
                }
                if prev.len() < max {
                    bad!(k, "gallery/eviction-below-capacity", format!("a feature was evicted although only {} of {max} were stored", prev.len()));
                }
            } else if prev.len() + usize::from(collectable) > max {
                bad!(k, "gallery/over-capacity-without-eviction", "capacity exceeded".to_string());
            }
            prev = now;
        }
    }
    // wasted conversion echoes the histories
    let w = trk.expire(cfg.max_idle);
    let Some(wt) = w.iter().find(|x| Some(x.id) == id) else {
        viol.push(Viol(word.to_vec(), "history/wasted-track-missing".into(), "the expired track was not handed out".into()));
        return;
    };
    let n = obs_hist.len().min(hlen);
    if wt.observed_boxes != obs_hist[obs_hist.len() - n..] || wt.predicted_boxes != pred_hist[pred_hist.len() - n..] || wt.length != word.len() {
        viol.push(Viol(word.to_vec(), "history/wasted-conversion".into(), "the wasted track does not echo the box histories / length".into()));
    }
    if let Some(fh) = &wt.features {
        // the conversion unpacks features to Vec<f32> (padded)
        let exp: Vec<Option<Vec<u32>>> = feat_hist[feat_hist.len() - n..].to_vec();
        if *fh != exp {
            viol.push(Viol(word.to_vec(), "history/wasted-conversion-features".into(), "the wasted track does not echo the feature history".into()));
        }
    }
}

pub fn run(tier: Tier) -> Report {
    let rep = Report::new("C13", tier);
    rep.set_rule("one continuing (slowly drifting) object plus a distractor; per update a symbol from {quality .1 (below the collect threshold .3), .5, .5 (another vector), .9, no feature}; every word of length <= L (quick 6, thorough 8) and every word of length <= 4 repeated to N updates (quick 60, thorough 300) x visual_max_observations 1..4 (thorough 1..8) x history length {1,3} (thorough 1..10 subset) on VisualSort / BatchVisualSort (galleries + histories) and Sort / BatchSort (histories); plus, with the own-area 'collect' threshold configured alone (.6, .4), together with a 'use' threshold, and off, every word of length <= L-1 containing a sixth symbol (quality .9 but half of the box covered by another detection of the frame: exclusively owned share .5; one configuration with every box of the object turned by a quarter turn, share .55; on the batch tracker the same words also as scenes 0 and 3 of shared two-scene batches, the covering detection far away in scene 3, each scene judged as a run of its own); plus, with the area 'collect' threshold at 150 / 250, every word of length <= L-1 over {q .5, q .9, no feature, size jump} containing a detection whose box area jumps across the threshold (141 / 288 against 200 before); after every update the gallery and the histories are read from the live store. Non-trivial = word with at least two features.");
    rep.assume("eviction is demanded only when capacity would be exceeded and allowed whenever the gallery was full before the update (the implementation also evicts when the newcomer carries no feature)");
    let l = tier.pick(6usize, 8usize);
    let unroll = tier.pick(60usize, 300usize);
    let mut cfgs: Vec<TrkCfg> = vec![];
    let mut half_covered: Vec<usize> = vec![];
    let mut size_jump: Vec<usize> = vec![];
    let mut rotated_cfgs: Vec<usize> = vec![];
    let maxes: Vec<usize> = tier.pick(vec![1, 2, 3, 4], vec![1, 2, 3, 4, 5, 8]);
    let hists: Vec<usize> = tier.pick(vec![1, 3], vec![1, 2, 4, 10]);
    // the positional trackers first: cheap, and a wall cap must never skip them
    for &h in &hists {
        for kind in [Kind::Sort, Kind::BatchSort] {
            for pos in [Pos::Iou(0.3), Pos::Maha] {
                let mut c = TrkCfg::new(kind);
                c.history = h;
                c.max_idle = 1;
                c.pos = pos;
                cfgs.push(c);
            }
        }
    }
    for &m in &maxes {
        for &h in &hists {
            for kind in [Kind::VisualSort, Kind::BatchVisualSort] {
                if kind == Kind::BatchVisualSort && !(m == 2 || (m == 3 && tier == Tier::Thorough)) {
                    continue;
                }
                let mut c = TrkCfg::new(kind);
                c.history = h;
                c.max_idle = 1;
                c.vis.max_obs = m;
                c.vis.min_track_len = 1.max(m.min(2));
                c.vis.q_collect = Q_COLLECT;
                c.vis.q_use = 0.2;
                c.vis.metric = Vis::Euclid(0.5);
                if kind == Kind::BatchVisualSort {
                    c.shards = 2;
                    c.voting_shards = 2;
                }
                cfgs.push(c);
            }
        }
    }
    // the own-area 'collect' threshold (alone, and together with a 'use' threshold): 6-symbol alphabet with
    // the half-covered detection
    for (m, own_use, own_collect, kind) in [(2usize, 0.0f32, 0.6f32, Kind::VisualSort), (3, 0.1, 0.6, Kind::VisualSort), (2, 0.0, 0.0, Kind::VisualSort), (2, 0.0, 0.6, Kind::BatchVisualSort), (3, 0.0, 0.4, Kind::VisualSort), (2, 0.0, 0.6001, Kind::VisualSort)] {
        // the last entry (threshold written 0.6001) is the ROTATED configuration: same thresholds, every box turned
        let mut c = TrkCfg::new(kind);
        c.history = 2;
        c.max_idle = 1;
        c.vis.max_obs = m;
        c.vis.min_track_len = 2;
        c.vis.q_collect = Q_COLLECT;
        c.vis.q_use = 0.2;
        c.vis.metric = Vis::Euclid(0.5);
        c.vis.own_use = own_use;
        c.vis.own_collect = own_collect;
        half_covered.push(cfgs.len());
        if own_collect == 0.6001 {
            rotated_cfgs.push(cfgs.len());
        }
        cfgs.push(c);
    }
    // the area 'collect' threshold with a detection whose size jumps across it (alphabet {q .5, q .9, none, jump})
    for (min_area, kind) in [(150.0f32, Kind::VisualSort), (250.0, Kind::VisualSort), (150.0, Kind::BatchVisualSort)] {
        let mut c = TrkCfg::new(kind);
        c.history = 2;
        c.max_idle = 1;
        c.vis.max_obs = 3;
        c.vis.min_track_len = 2;
        c.vis.q_collect = Q_COLLECT;
        c.vis.q_use = 0.2;
        c.vis.metric = Vis::Euclid(0.5);
        c.vis.min_area = min_area;
        size_jump.push(cfgs.len());
        cfgs.push(c);
    }
    let mut total_w = 0u64;
    let mut total_s = 0u64;
    let mut nontrivial = 0u64;
    for (cfg_i, cfg) in cfgs.into_iter().enumerate() {
        if rep.out_of_time() {
            rep.cap_hit(&format!("wall budget reached before {:?}", cfg.json()));
            continue;
        }
        let visual = cfg.kind.is_visual();
        let mut ws: Vec<Vec<usize>> = vec![];
        // positional-only trackers ignore the symbols: one word per length is enough for the histories
        if visual && size_jump.contains(&cfg_i) {
            let jump = if cfg.vis.min_area < 200.0 { 6usize } else { 7 };
            let lmax = if cfg.kind == Kind::BatchVisualSort { l - 2 } else { l - 1 };
            let map = [1usize, 3, 4, jump];
            for len in 2..=lmax {
                ws.extend(words(4, len).into_iter().map(|w| w.iter().map(|x| map[*x]).collect::<Vec<usize>>()).filter(|w| w.contains(&jump)));
            }
        } else if visual && half_covered.contains(&cfg_i) {
            let lmax = if cfg.kind == Kind::BatchVisualSort { l - 2 } else { l - 1 };
            for len in 1..=lmax {
                ws.extend(words(6, len).into_iter().filter(|w| w.contains(&5)));
            }
            for len in 1..=3 {
                for w in words(6, len).into_iter().filter(|w| w.contains(&5)) {
                    ws.push(w.iter().cycle().take(unroll.min(60)).cloned().collect());
                }
            }
        } else if visual {
            let lmax = if cfg.kind == Kind::BatchVisualSort { l - 2 } else { l };
            for len in 1..=lmax {
                ws.extend(words(5, len));
            }
            for len in 1..=4 {
                for w in words(5, len) {
                    ws.push(w.iter().cycle().take(unroll).cloned().collect());
                }
            }
        } else {
            for len in [1usize, 2, 3, 5, 12, unroll] {
                ws.push(vec![4; len]);
            }
        }
        nontrivial += ws.iter().filter(|w| w.iter().filter(|s| **s != 4).count() >= 2).count() as u64;
        let chunk = 16usize;
        let nchunks = (ws.len() + chunk - 1) / chunk;
        let ws = Arc::new(ws);
        let (ws2, cfg2) = (ws.clone(), cfg.clone());
        let rot2 = rotated_cfgs.contains(&cfg_i);
        let outs = run_jobs(nchunks, move |ci| {
            let mut viol = vec![];
            let mut steps = 0u64;
            for w in &ws2[ci * chunk..((ci + 1) * chunk).min(ws2.len())] {
                run_word(&cfg2, rot2, w, &mut viol, &mut steps);
                // a batch tracker with own-area thresholds: the same word once more as scenes 0 and 3 of shared batches
                if cfg2.kind == Kind::BatchVisualSort && cfg2.vis.own_use + cfg2.vis.own_collect > 0.0 && w.len() <= 8 {
                    run_word_shared_batch(&cfg2, rot2, w, &mut viol, &mut steps);
                }
            }
            (viol.into_iter().map(|v| (v.0, v.1, v.2)).collect::<Vec<_>>(), steps)
        });
        for (ci, o) in outs.into_iter().enumerate() {
            match o {
                Ok((v, st)) => {
                    total_s += st;
                    for (w, key, what) in v {
                        rep.violation(Violation { key, what, replay: json!({"config":cfg.json(),"word":w,"symbols":"0: q=.1, 1: q=.5, 2: q=.5 (other vector), 3: q=.9, 4: no feature, 5: q=.9 but half covered by another detection, 6 / 7: q=.9 on a box suddenly smaller (area 141) / larger (288) than before (200)"}) });
                    }
                }
                Err(e) => rep.violation(Violation { key: format!("{}/panic-or-deadlock", cfg.kind.name()), what: e.chars().take(300).collect(), replay: json!({"config":cfg.json(),"chunk_first_word":ws[ci * chunk]}) }),
            }
        }
        total_w += ws.len() as u64;
    }
    rep.add(total_s, total_s, total_w, 0);
    rep.distinct_count(nontrivial);
    rep.extra("words", json!(total_w));
    rep.extra("updates_checked", json!(total_s));
    rep.sample(json!({"config":"VisualSort max_obs=2 history=3","word":[3,1,0,4,2,3]}));
    rep
}
