//! C10 — distance queries are exact and schedule independent. Engine B: all command-level
//! schedules of the query (window = call .. both result streams drained) on the real store.

use super::store_h::*;
use crate::common::*;
use crate::sched::{self, Guarded};
use serde_json::json;
use similari::prelude::TrackStoreBuilder;
use std::collections::BTreeMap;
use std::sync::Mutex;

#[derive(Clone, Debug)]
struct Spec {
    id: u64,
    group: u8,
    status_add: u32,
    /// (class, attribute, has feature)
    obs: Vec<(u64, f32, bool)>,
}

fn contents() -> Vec<Spec> {
    vec![
        Spec { id: 1, group: 0, status_add: 1, obs: vec![(0, 1.0, true), (1, 2.0, false)] },
        Spec { id: 2, group: 0, status_add: 0, obs: vec![(0, 3.0, false), (0, 0.5, true)] },
        Spec { id: 3, group: 1, status_add: 1, obs: vec![(0, 1.0, true)] },
        Spec { id: 4, group: 0, status_add: 1, obs: vec![(1, 1.5, true)] },
        Spec { id: 5, group: 0, status_add: 1, obs: vec![(0, 9.0, true)] },
        // a Wasted track (status counter 2): compatible, has the queried class, must be skipped by only_baked
        Spec { id: 6, group: 0, status_add: 2, obs: vec![(0, 2.25, true)] },
    ]
}

fn foreign(id: u64, group: u8) -> Spec {
    Spec { id, group, status_add: 1, obs: vec![(0, 2.0, true), (0, 2.5, false)] }
}

fn make(store: &HStore, s: &Spec) -> HTrack {
    let mut b = store.new_track(s.id);
    let mut first = true;
    for (c, a, f) in &s.obs {
        let upd = if first { Some(HUpdate { add: s.status_add, group: Some(s.group) }) } else { None };
        first = false;
        b = b.observation((*c, Some(*a), if *f { Some(feat(&[*a, s.id as f32])) } else { None }, upd));
    }
    b.build().unwrap()
}

type Item = (u64, u64, Option<u32>, Option<u32>);

/// reference: what the query must return, computed from track dumps only
fn reference(cands: &[TrackDump], stored: &[TrackDump], cls: u64, only_baked: bool, post: bool) -> (Vec<Item>, usize) {
    let mut oks: Vec<Item> = vec![];
    let mut errs = 0usize;
    for c in cands {
        for o in stored {
            if o.id == c.id {
                continue;
            }
            if only_baked && o.counter % 4 != 1 {
                continue;
            }
            if o.group != c.group {
                continue;
            }
            match (c.obs.get(&cls), o.obs.get(&cls)) {
                (Some(l), Some(r)) => {
                    let first = oks.len();
                    for x in l {
                        for y in r {
                            let am = match (x.0, y.0) {
                                (Some(a), Some(b)) => Some((f32::from_bits(a) - f32::from_bits(b)).abs()),
                                _ => None,
                            };
                            if let Some(d) = am {
                                if d > METRIC_CUTOFF {
                                    continue;
                                }
                            }
                            let fd = match (&x.1, &y.1) {
                                (Some(a), Some(b)) => {
                                    let s: f32 = a.iter().zip(b.iter()).map(|(p, q)| {
                                        let d = f32::from_bits(*p) - f32::from_bits(*q);
                                        d * d
                                    }).sum();
                                    Some(s.sqrt().to_bits())
                                }
                                _ => None,
                            };
                            oks.push((c.id, o.id, am.map(|v| v.to_bits()), fd));
                        }
                    }
                    if post {
                        // the harness metric's post-processing keeps the closest pairs of THIS comparison
                        let key = |e: &Item| e.2.map(f32::from_bits).unwrap_or(f32::INFINITY);
                        let m = oks[first..].iter().map(key).fold(f32::INFINITY, f32::min);
                        let kept: Vec<Item> = oks[first..].iter().filter(|e| key(e) == m).cloned().collect();
                        oks.truncate(first);
                        oks.extend(kept);
                    }
                }
                _ => errs += 1,
            }
        }
    }
    oks.sort();
    (oks, errs)
}

#[derive(Clone, Debug, PartialEq)]
struct Obs {
    oks: Vec<Item>,
    errs: usize,
    store_after: Vec<(usize, Vec<TrackDump>)>,
    arrival: Vec<u64>,
    /// results / error count of an earlier query that was still in flight (prior == 3), read afterwards
    prior_oks: Vec<Item>,
    prior_errs: usize,
}

#[derive(Clone, Debug)]
struct Scenario {
    shards: usize,
    batch: &'static str,
    only_baked: bool,
    ntracks: usize,
    /// consume the two result streams through into_iter() instead of all()
    iter: bool,
    /// the result half is dropped unread right after the query was dispatched; only the error half is read
    drop_ok: bool,
    /// the harness metric post-processes every track comparison (keeps its closest pairs only)
    post: bool,
    /// before the query, an add of the queried class to a stored track without that class has failed
    failed_add: bool,
    /// after the query was dispatched and before anything of it is read: a blocking merge into stored track 1
    merge_before_read: bool,
    /// an earlier query on the same store: 0 = none, 1 = abandoned (both streams dropped unread),
    /// 2 = results read, error stream dropped unread, 3 = dispatched and NOT read yet: still in flight while the
    /// query under test runs, read afterwards
    prior: u8,
}

fn run_scenario(sc: &Scenario) -> Obs {
    let mut store: Guarded<HStore> = Guarded::new(TrackStoreBuilder::new(sc.shards).default_attributes(HAttrs::default()).metric(HMetric { post: sc.post as u8, ..Default::default() }).notifier(HNotifier).build());
    for s in contents().iter().take(sc.ntracks) {
        let t = make(&store, s);
        store.add_track(t).unwrap();
    }
    if sc.failed_add {
        // an earlier add that FAILED (the observation optimisation of the metric returns an error): an observation of
        // the queried class for track 4, which has none of that class - the track stays as it was, so the query still
        // reports it on the error stream
        arm(FaultPlan { fail_optimize_kth: Some(1), ..Default::default() });
        let r = store.add(4, 0, Some(1.0), None, None);
        disarm();
        let _ = take_notifications();
        assert!(r.is_err(), "the injected failure of optimize() did not make store.add fail");
    }
    let mut in_flight = None;
    if sc.prior == 3 {
        sched::set_phase(1);
        let c = vec![make(&store, &foreign(12, 0))];
        in_flight = Some(store.foreign_track_distances(c, 0, false));
    }
    if sc.prior > 0 && sc.prior < 3 {
        // a different candidate (feature class 1: produces both results and missing-class errors)
        let c = vec![make(&store, &foreign(12, 1)), make(&store, &foreign(13, 0))];
        let (ok0, err0) = store.foreign_track_distances(c, 1, false);
        if sc.prior == 2 {
            let _ = ok0.all();
        } else {
            drop(ok0);
        }
        drop(err0);
    }
    sched::set_phase(1);
    let (ok, err) = match sc.batch {
        "foreign1" => {
            let c = vec![make(&store, &foreign(10, 0))];
            store.foreign_track_distances(c, 0, sc.only_baked)
        }
        "foreign2" => {
            let c = vec![make(&store, &foreign(10, 0)), make(&store, &foreign(11, 1))];
            store.foreign_track_distances(c, 0, sc.only_baked)
        }
        "foreign-stored-id" => {
            let c = vec![make(&store, &foreign(2, 0)), make(&store, &foreign(10, 0))];
            store.foreign_track_distances(c, 0, sc.only_baked)
        }
        "owned1" => store.owned_track_distances(&[1], 0, sc.only_baked),
        "owned2" => store.owned_track_distances(&[1, 2], 0, sc.only_baked),
        _ => store.owned_track_distances(&[2, 4, 1], 0, sc.only_baked),
    };
    if sc.merge_before_read {
        // the query is dispatched, nothing of it has been read: a blocking merge into stored track 1 now - the query
        // describes the store as it was when it was issued, whatever the workers have got to
        let (ext, _) = super::c09::external_track(9);
        store.merge_external(1, &ext, None, true).expect("merge into stored track 1");
        let _ = take_notifications();
    }
    // errors first (as the trackers do), then the results; either through all() or through the iterators
    let (oks, errs) = if sc.drop_ok {
        drop(ok);
        (vec![], err.all())
    } else if sc.iter {
        let e: Vec<_> = err.into_iter().collect();
        let o: Vec<_> = ok.into_iter().collect();
        (o, e)
    } else {
        let o = ok.all();
        let e = err.all();
        (o, e)
    };
    let (mut prior_oks, mut prior_errs) = (vec![], 0usize);
    if let Some((ok0, err0)) = in_flight {
        let o0 = ok0.all();
        prior_errs = err0.all().len();
        prior_oks = o0.iter().map(|o| (o.from, o.to, o.attribute_metric.map(|v| v.to_bits()), o.feature_distance.map(|v| v.to_bits()))).collect();
        prior_oks.sort();
    }
    sched::set_phase(2);
    let arrival: Vec<u64> = oks.iter().map(|o| o.from * 100 + o.to).collect();
    let mut items: Vec<Item> = oks.iter().map(|o| (o.from, o.to, o.attribute_metric.map(|v| v.to_bits()), o.feature_distance.map(|v| v.to_bits()))).collect();
    items.sort();
    Obs { oks: items, errs: errs.len(), store_after: dump_store(&store, sc.shards), arrival, prior_oks, prior_errs }
}

/// what the earlier, still-in-flight query (prior == 3) has to deliver
fn expected_prior(sc: &Scenario) -> (Vec<Item>, usize) {
    if sc.prior != 3 {
        return (vec![], 0);
    }
    let sc2 = sc.clone();
    sched::in_shuttle(move || {
        let store: Guarded<HStore> = Guarded::new(TrackStoreBuilder::new(1).default_attributes(HAttrs::default()).metric(HMetric { post: sc2.post as u8, ..Default::default() }).notifier(HNotifier).build());
        let stored: Vec<TrackDump> = contents().iter().take(sc2.ntracks).map(|s| dump_track(&make(&store, s))).collect();
        let cands = vec![dump_track(&make(&store, &foreign(12, 0)))];
        reference(&cands, &stored, 0, false, sc2.post)
    })
    .unwrap_or_else(|e| machinery_error(&format!("C10 reference computation failed: {e}")))
}

fn expected(sc: &Scenario) -> (Vec<Item>, usize, Vec<TrackDump>) {
    // track dumps from the real Track objects built outside any store race (default schedule)
    let sc2 = sc.clone();
    sched::in_shuttle(move || {
        let store: Guarded<HStore> = Guarded::new(TrackStoreBuilder::new(1).default_attributes(HAttrs::default()).metric(HMetric { post: sc2.post as u8, ..Default::default() }).notifier(HNotifier).build());
        let stored: Vec<TrackDump> = contents().iter().take(sc2.ntracks).map(|s| dump_track(&make(&store, s))).collect();
        let cands: Vec<TrackDump> = match sc2.batch {
            "foreign1" => vec![dump_track(&make(&store, &foreign(10, 0)))],
            "foreign2" => vec![dump_track(&make(&store, &foreign(10, 0))), dump_track(&make(&store, &foreign(11, 1)))],
            "foreign-stored-id" => vec![dump_track(&make(&store, &foreign(2, 0))), dump_track(&make(&store, &foreign(10, 0)))],
            "owned1" => vec![stored[0].clone()],
            "owned2" => vec![stored[0].clone(), stored[1].clone()],
            _ => vec![stored[1].clone(), stored[3].clone(), stored[0].clone()],
        };
        let (oks, errs) = reference(&cands, &stored, 0, sc2.only_baked, sc2.post);
        let mut stored = stored;
        if sc2.merge_before_read {
            // the store afterwards holds the merged track; the query's answer is about the store before
            let (_, mext) = super::c09::external_track(9);
            let list: Vec<u64> = mext.obs.keys().cloned().collect();
            let dest = stored.iter_mut().find(|t| t.id == 1).expect("track 1 stored");
            super::tmodel::m_merge(dest, &mext, &list, true, &mut super::tmodel::MCtx::new(FaultPlan::default())).expect("model merge");
        }
        (oks, errs, stored)
    })
    .unwrap_or_else(|e| machinery_error(&format!("C10 reference computation failed: {e}")))
}

pub fn run(tier: Tier) -> Report {
    let rep = Report::new("C10", tier);
    rep.set_rule("scenarios = store contents (4-6 tracks: mixed compatibility class, status Pending / Ready / Wasted, 0..2 observations in classes {0,1}, a pair beyond the metric cut-off) x candidate batch {one foreign, two foreign, foreign with a stored id, owned [1], owned [1,2], owned [2,4,1]} x only_baked x result streams consumed through all() / into_iter() x {fresh store, after an earlier query that was abandoned unread, after one whose error stream was dropped unread, while an earlier foreign query is still in flight (dispatched before, read after: it must deliver its complete result), result half dropped unread and only the error half read; a metric whose post-processing hook keeps only the closest pairs of each track comparison; after a failed add (optimize() error) of the queried class to a stored track that has none of it; a blocking merge into a stored track after the query was dispatched and before anything of it is read (the answer is about the store as it was)} x shard count; for each scenario every schedule of the store workers and the caller at command granularity within the preemption bound (window = the query until both result streams are drained); oracle: result multiset = reference cartesian product, error count, store unchanged, identical across schedules. states = executions (schedules), transitions = decision points.");
    rep.assume("macro-step granularity: branching at named schedule points (worker dequeues a command; caller finished queueing; owned query between 'commands sent' and 're-added') and whenever the running task blocks");
    let shard_counts: Vec<usize> = tier.pick(vec![1, 2], vec![1, 2, 3]);
    let bound = usize::MAX / 4; // every schedule at command granularity (the spaces are small); the wall cap is the only limit
    let batches = ["foreign1", "foreign2", "foreign-stored-id", "owned1", "owned2", "owned3"];
    let mut total_exec = 0u64;
    let mut vacuity: BTreeMap<String, serde_json::Value> = BTreeMap::new();
    for &shards in &shard_counts {
        for batch in batches {
            for (only_baked, iter, prior) in [(false, false, 0u8), (true, false, 0), (false, true, 0), (true, true, 0), (false, false, 1), (false, false, 2), (false, true, 1), (false, false, 3), (false, false, 4), (false, false, 5), (true, false, 5), (false, false, 6), (true, true, 6), (false, false, 7), (false, true, 7)] {
                if tier == Tier::Quick && (only_baked && (batch == "foreign2" || batch == "owned3") || iter && only_baked && batch != "foreign-stored-id") {
                    continue;
                }
                // an earlier query that was abandoned / half-read: two representative batches (quick), all (thorough)
                if prior > 0 && prior != 4 && (tier == Tier::Quick && !(batch == "foreign1" || batch == "owned2") || iter && batch != "foreign1") {
                    continue;
                }
                let sc = Scenario { shards, batch, only_baked, ntracks: if batch == "owned3" { 5 } else if only_baked { 6 } else { 4 }, iter, drop_ok: prior == 4, post: prior == 5, failed_add: prior == 6, merge_before_read: prior == 7, prior: if prior >= 5 { 0 } else { prior } };
                if rep.out_of_time() {
                    rep.cap_hit(&format!("wall budget reached before scenario {sc:?}"));
                    continue;
                }
                let (exp_ok, exp_err, stored) = expected(&sc);
                // result half dropped unread: nothing is read from it, the error half must still be complete
                let exp_ok = if sc.drop_ok { vec![] } else { exp_ok };
                let (exp_prior_ok, exp_prior_err) = expected_prior(&sc);
                let exp_store: Vec<(usize, Vec<TrackDump>)> = (0..shards).map(|k| (k, stored.iter().filter(|t| (t.id as usize) % shards == k).cloned().collect())).collect();
                let outcomes: Mutex<BTreeMap<u64, (u64, Obs)>> = Mutex::new(BTreeMap::new());
                let arrivals: Mutex<std::collections::BTreeSet<Vec<u64>>> = Mutex::new(Default::default());
                let cfg = sched::ExploreCfg { window: (1, 1), bound, deadline: Some(std::time::Instant::now() + std::time::Duration::from_secs_f64((rep.budget() - rep.elapsed()).max(1.0))), ..Default::default() };
                let sc_run = sc.clone();
                let scj = json!({"shards":shards,"batch":batch,"only_baked":only_baked,"tracks":sc.ntracks,"consumed_through":if iter { "into_iter()" } else { "all()" },"earlier_query":prior});
                let stats = sched::explore(
                    &cfg,
                    move || run_scenario(&sc_run),
                    |x| match &x.outcome {
                        sched::Outcome::Done(o) => {
                            arrivals.lock().unwrap().insert(o.arrival.clone());
                            let h = hash_of(&(format!("{:?}", o.oks), o.errs, format!("{:?}", o.store_after), format!("{:?}", o.prior_oks), o.prior_errs));
                            let mut g = outcomes.lock().unwrap();
                            let e = g.entry(h).or_insert((0, o.clone()));
                            e.0 += 1;
                            let first = e.0 == 1;
                            drop(g);
                            if !first {
                                return;
                            }
                            let site = if batch.starts_with("owned") { "owned_track_distances" } else { "foreign_track_distances" };
                            if o.oks != exp_ok {
                                let missing = exp_ok.iter().filter(|i| !o.oks.contains(i)).count();
                                let extra = o.oks.iter().filter(|i| !exp_ok.contains(i)).count();
                                rep.violation(Violation {
                                    key: format!("{site}/result-multiset"),
                                    what: format!("{} results, expected {}; {missing} missing, {extra} unexpected (e.g. got pairs {:?}, expected pairs {:?})", o.oks.len(), exp_ok.len(), o.oks.iter().map(|i| (i.0, i.1)).collect::<Vec<_>>(), exp_ok.iter().map(|i| (i.0, i.1)).collect::<Vec<_>>()),
                                    replay: json!({"scenario":scj,"schedule":x.schedule_json()}),
                                });
                            }
                            if o.errs != exp_err {
                                rep.violation(Violation { key: format!("{site}/error-stream"), what: format!("{} error items, expected {exp_err}", o.errs), replay: json!({"scenario":scj,"schedule":x.schedule_json()}) });
                            }
                            if o.prior_oks != exp_prior_ok || o.prior_errs != exp_prior_err {
                                rep.violation(Violation { key: format!("{site}/earlier-query-in-flight-disturbed"), what: format!("a foreign query that was dispatched before this one and read after it delivered {} results / {} errors, expected {} / {exp_prior_err}: the later query must leave the store unchanged at every moment", o.prior_oks.len(), o.prior_errs, exp_prior_ok.len()), replay: json!({"scenario":scj,"schedule":x.schedule_json()}) });
                            }
                            if o.store_after != exp_store {
                                rep.violation(Violation { key: format!("{site}/store-changed"), what: format!("store after the query {:?}, expected {:?}", o.store_after, exp_store), replay: json!({"scenario":scj,"schedule":x.schedule_json()}) });
                            }
                        }
                        sched::Outcome::Machinery(m) => machinery_error(m),
                        other => {
                            let site = if batch.starts_with("owned") { "owned_track_distances" } else { "foreign_track_distances" };
                            rep.violation(Violation { key: format!("{site}/panic-or-deadlock"), what: format!("{other:?}").chars().take(400).collect(), replay: json!({"scenario":scj,"schedule":x.schedule_json()}) })
                        }
                    },
                );
                total_exec += stats.executions;
                rep.add(stats.executions, stats.decision_points, stats.executions, 0);
                let n_out = outcomes.lock().unwrap().len();
                if stats.truncated {
                    rep.cap_hit(&format!("scenario {sc:?} truncated by the wall cap after {} schedules", stats.executions));
                }
                vacuity.insert(format!("{batch}/baked={only_baked}/shards={shards}/{}{}", if iter { "iter" } else { "all" }, match prior { 0 => "", 1 => "/after-abandoned-query", 2 => "/after-half-read-query", 3 => "/while-an-earlier-query-is-in-flight", 4 => "/result-half-dropped-unread", 5 => "/closest-pairs-post-processing", 6 => "/after-a-failed-add-of-the-queried-class", _ => "/blocking-merge-before-the-results-are-read" }), json!({"schedules":stats.executions,"max_decision_points":stats.max_points,"distinct_outcomes":n_out,"distinct_arrival_orders":arrivals.lock().unwrap().len(),"bound":"all","truncated":stats.truncated}));
                if rep.want_sample(total_exec) || vacuity.len() == 3 {
                    rep.sample(json!({"scenario":scj,"expected_pairs":exp_ok.iter().map(|i| (i.0,i.1)).collect::<Vec<_>>(),"expected_errors":exp_err,"schedules":stats.executions}));
                }
            }
        }
    }
    // fine tier: branch at every synchronisation operation (one preemption) on the smallest scenarios
    let fine: Vec<Scenario> = tier.pick(
        vec![Scenario { shards: 1, batch: "owned2", only_baked: false, ntracks: 4, iter: false, drop_ok: false, post: false, failed_add: false, merge_before_read: false, prior: 0 }, Scenario { shards: 2, batch: "foreign1", only_baked: false, ntracks: 4, iter: true, drop_ok: false, post: false, failed_add: false, merge_before_read: false, prior: 1 }, Scenario { shards: 2, batch: "owned2", only_baked: false, ntracks: 4, iter: false, drop_ok: false, post: false, failed_add: false, merge_before_read: false, prior: 0 }, Scenario { shards: 1, batch: "owned2", only_baked: false, ntracks: 4, iter: false, drop_ok: false, post: false, failed_add: false, merge_before_read: false, prior: 3 }, Scenario { shards: 2, batch: "owned2", only_baked: false, ntracks: 4, iter: false, drop_ok: false, post: false, failed_add: false, merge_before_read: false, prior: 3 }],
        vec![Scenario { shards: 1, batch: "owned2", only_baked: false, ntracks: 4, iter: false, drop_ok: false, post: false, failed_add: false, merge_before_read: false, prior: 3 }, Scenario { shards: 2, batch: "owned2", only_baked: false, ntracks: 4, iter: false, drop_ok: false, post: false, failed_add: false, merge_before_read: false, prior: 3 }, Scenario { shards: 1, batch: "owned2", only_baked: false, ntracks: 4, iter: false, drop_ok: false, post: false, failed_add: false, merge_before_read: false, prior: 0 }, Scenario { shards: 2, batch: "foreign1", only_baked: false, ntracks: 4, iter: true, drop_ok: false, post: false, failed_add: false, merge_before_read: false, prior: 1 }, Scenario { shards: 2, batch: "owned2", only_baked: false, ntracks: 4, iter: true, drop_ok: false, post: false, failed_add: false, merge_before_read: false, prior: 0 }, Scenario { shards: 2, batch: "foreign2", only_baked: true, ntracks: 4, iter: false, drop_ok: false, post: false, failed_add: false, merge_before_read: false, prior: 0 }],
    );
    let fine_bound = tier.pick(2usize, 3usize);
    for sc in fine {
        let (exp_ok, exp_err, stored) = expected(&sc);
        let (exp_prior_ok, exp_prior_err) = expected_prior(&sc);
        let shards = sc.shards;
        let exp_store: Vec<(usize, Vec<TrackDump>)> = (0..shards).map(|k| (k, stored.iter().filter(|t| (t.id as usize) % shards == k).cloned().collect())).collect();
        let cfg = sched::ExploreCfg { mode: sched::Mode::Fine, count_all_deviations: true, window: (1, 1), bound: fine_bound, deadline: Some(std::time::Instant::now() + std::time::Duration::from_secs_f64((rep.budget() - rep.elapsed()).max(1.0))), ..Default::default() };
        let scj = json!({"shards":shards,"batch":sc.batch,"only_baked":sc.only_baked,"tracks":sc.ntracks,"consumed_through":if sc.iter { "into_iter()" } else { "all()" },"earlier_query":sc.prior,"granularity":format!("every synchronisation operation, at most {fine_bound} departures from the default schedule")});
        let sc_run = sc.clone();
        let stats = sched::explore(&cfg, move || run_scenario(&sc_run), |x| match &x.outcome {
            sched::Outcome::Done(o) => {
                if o.oks != exp_ok || o.errs != exp_err || o.store_after != exp_store || o.prior_oks != exp_prior_ok || o.prior_errs != exp_prior_err {
                    rep.violation(Violation { key: "fine-tier/result-differs".into(), what: format!("{} results / {} errors, expected {} / {exp_err}; earlier in-flight query {} results / {} errors, expected {} / {exp_prior_err}", o.oks.len(), o.errs, exp_ok.len(), o.prior_oks.len(), o.prior_errs, exp_prior_ok.len()), replay: json!({"scenario":scj,"schedule":x.schedule_json()}) });
                }
            }
            sched::Outcome::Machinery(m) => machinery_error(m),
            other => rep.violation(Violation { key: "fine-tier/panic-or-deadlock".into(), what: format!("{other:?}").chars().take(400).collect(), replay: json!({"scenario":scj,"schedule":x.schedule_json()}) }),
        });
        total_exec += stats.executions;
        rep.add(stats.executions, stats.decision_points, stats.executions, 0);
        if stats.truncated {
            rep.cap_hit(&format!("fine tier {sc:?} truncated after {} schedules", stats.executions));
        }
        vacuity.insert(format!("fine/{}/shards={}{}", sc.batch, sc.shards, if sc.prior == 3 { "/while-an-earlier-query-is-in-flight" } else { "" }), json!({"schedules":stats.executions,"max_decision_points":stats.max_points,"bound":fine_bound,"truncated":stats.truncated}));
    }
    rep.distinct_count(total_exec);
    rep.extra("scenarios", json!(vacuity));
    rep.extra("preemption_bound_completed", json!("unbounded: every schedule at command granularity; fine tier: 2 (thorough 3) departures from the default schedule at any synchronisation operation"));
    // determinism self-check: the same schedule twice gives the same observation
    let sc = Scenario { shards: 2, batch: "foreign2", only_baked: false, ntracks: 4, iter: false, drop_ok: false, post: false, failed_add: false, merge_before_read: false, prior: 0 };
    let cfg = sched::ExploreCfg { window: (1, 1), ..Default::default() };
    let f = std::sync::Arc::new(move || run_scenario(&sc));
    let mut replays = 0;
    for prefix in [vec![], vec![1], vec![0, 1], vec![1, 0, 1], vec![0, 0, 1, 1]] {
        let a = sched::run_one(&cfg, &prefix, &f);
        let b = sched::run_one(&cfg, &prefix, &f);
        match (&a.outcome, &b.outcome) {
            (sched::Outcome::Done(x), sched::Outcome::Done(y)) => {
                if x != y || a.choices != b.choices {
                    machinery_error("C10: replaying the same schedule gave a different observation");
                }
                replays += 1;
            }
            (sched::Outcome::Machinery(_), sched::Outcome::Machinery(_)) => {}
            _ => machinery_error("C10: replay of a schedule ended differently"),
        }
    }
    rep.extra("replay_determinism_checks", json!(replays));
    // the channel shim is the one piece of non-Similari code under the cfg: check it against real crossbeam
    rep.extra("channel_shim_selftest", super::selftest::channel_shim_selftest(tier));
    rep
}

/// `./check C10 quick --replay <file>`: re-execute exactly one recorded schedule of one scenario.
pub fn replay(file: &serde_json::Value) -> i32 {
    let r = &file["replay"];
    let sc = &r["scenario"];
    let batch: &'static str = match sc["batch"].as_str().unwrap_or("") {
        "foreign1" => "foreign1",
        "foreign2" => "foreign2",
        "foreign-stored-id" => "foreign-stored-id",
        "owned1" => "owned1",
        "owned2" => "owned2",
        _ => "owned3",
    };
    let scen = Scenario { shards: sc["shards"].as_u64().unwrap_or(1) as usize, batch, only_baked: sc["only_baked"].as_bool().unwrap_or(false), ntracks: sc["tracks"].as_u64().unwrap_or(4) as usize, iter: sc["consumed_through"].as_str() == Some("into_iter()"), drop_ok: sc["earlier_query"].as_u64() == Some(4), post: sc["earlier_query"].as_u64() == Some(5), failed_add: sc["earlier_query"].as_u64() == Some(6), merge_before_read: sc["earlier_query"].as_u64() == Some(7), prior: match sc["earlier_query"].as_u64().unwrap_or(0) as u8 { 5 | 6 | 7 => 0, p => p } };
    let fine = sc["granularity"].is_string();
    let choices: Vec<usize> = r["schedule"]["choices"].as_array().map(|a| a.iter().map(|x| x.as_u64().unwrap_or(0) as usize).collect()).unwrap_or_default();
    let (exp_ok, exp_err, _) = expected(&scen);
    let cfg = sched::ExploreCfg { mode: if fine { sched::Mode::Fine } else { sched::Mode::Macro }, window: (1, 1), ..Default::default() };
    let sc2 = scen.clone();
    let f = std::sync::Arc::new(move || run_scenario(&sc2));
    let a = sched::run_one(&cfg, &choices, &f);
    let b = sched::run_one(&cfg, &choices, &f);
    println!("scenario {scen:?}\nschedule {}", a.schedule_json());
    match (&a.outcome, &b.outcome) {
        (sched::Outcome::Done(x), sched::Outcome::Done(y)) => {
            if x != y {
                machinery_error("replay is not deterministic");
            }
            println!("observed pairs {:?}, errors {}; expected pairs {:?}, errors {exp_err}", x.oks.iter().map(|i| (i.0, i.1)).collect::<Vec<_>>(), x.errs, exp_ok.iter().map(|i| (i.0, i.1)).collect::<Vec<_>>());
            if x.oks != exp_ok || x.errs != exp_err {
                println!("VIOLATION property=C10 replay=(replayed) the recorded schedule still violates the property");
                1
            } else {
                println!("the recorded schedule no longer violates the property");
                0
            }
        }
        (sched::Outcome::Machinery(m), _) => machinery_error(&format!("the recorded schedule does not fit the current code: {m}")),
        (o, _) => {
            println!("VIOLATION property=C10 replay=(replayed) outcome {o:?}");
            1
        }
    }
}
