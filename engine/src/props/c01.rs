//! C01 — tracker output contract. Engine A: all histories to a depth over predict/skip, 4 trackers.

use super::hist::*;
use super::trk::*;
use crate::common::*;
use serde_json::json;
use std::collections::BTreeMap;

pub fn lists() -> Vec<Vec<Det>> {
    vec![
        vec![],
        vec![p()],
        vec![p(), p()],                                           // exact duplicate
        vec![p(), p1(), s()],                                     // crowded, nested
        vec![p1(), p2()],
        vec![q().feat(&fb(), 0.9)],
        vec![r(), p2().rot(-0.3).conf(0.6)],                      // rotated (positive and negative angle) + lower confidence
        vec![p().conf(0.03), q()],                                // below minimal confidence
        vec![p1().cid(7).feat(&fa(), 0.9), q().cid(-3), s().cid(11).feat(&fa1(), 0.2)],
        // 9-10: two tracks with looks a and y (0.36 apart); then a detection with look a, one whose look is close to
        // both (it loses the first track and has the second as its second choice) and a feature-less one on top of
        // the second track
        vec![p().feat(&fa(), 0.9), q().feat(&look2(0.8, 0.3), 0.9)],
        vec![p1().feat(&fa(), 0.9), p().shift(-1.0, 0.5).feat(&look2(0.95, 0.1), 0.9), q().shift(1.0, 0.0)],
        // 11: a call the library rejects (the second detection carries an invalid confidence: the call panics while
        // the candidates are built, the caller recovers and goes on) - simple trackers only
        vec![p1(), q().cid(REJECT_ID)],
    ]
}

fn look2(x: f32, y: f32) -> Vec<f32> {
    let mut v = vec![0.0f32; 16];
    v[0] = x;
    v[1] = y;
    v
}

pub struct ContractMonitor {
    shards: usize,
    epochs: BTreeMap<u64, usize>,
    /// id -> (scene, length)
    known: BTreeMap<u64, (u64, usize)>,
}

impl ContractMonitor {
    pub fn new(cfg: &TrkCfg) -> Self {
        ContractMonitor { shards: cfg.shards, epochs: BTreeMap::new(), known: BTreeMap::new() }
    }
}

impl Monitor for ContractMonitor {
    fn step(&mut self, trk: &mut AnyTrk, op: &TOp, out: &TOut, lists: &[Vec<Det>]) -> Result<(), (String, String)> {
        let bad = |k: &str, w: String| Err((format!("contract/{k}"), w));
        match (op, out) {
            (TOp::Skip(s, n), _) => {
                *self.epochs.entry(*s).or_insert(0) += n;
            }
            (TOp::Predict(scene, l), TOut::Recs(recs)) if has_rejected(&lists[*l]) => {
                // a call the library rejected (invalid confidence): it reports nothing; whether it consumed an epoch
                // is not part of the contract - the model takes the scene's epoch from the tracker
                if !recs.is_empty() {
                    return bad("rejected-call-returned-records", format!("{recs:?}"));
                }
                self.epochs.insert(*scene, trk.epoch(*scene));
            }
            (TOp::Predict(scene, l), TOut::Recs(recs)) => {
                let dets = &lists[*l];
                let e = self.epochs.entry(*scene).or_insert(0);
                *e += 1;
                let epoch = *e;
                if recs.len() != dets.len() {
                    return bad("record-count", format!("{} records for {} detections", recs.len(), dets.len()));
                }
                let mut seen: Vec<u64> = vec![];
                let stored = trk.all_stored(false, self.shards);
                for (i, (r, d)) in recs.iter().zip(dets.iter()).enumerate() {
                    if r.observed != box_r(&d.bbox) {
                        return bad("observed-box-not-echoed", format!("record {i}: observed {:?}, submitted {:?}", box_f(&r.observed), box_f(&box_r(&d.bbox))));
                    }
                    if r.custom != d.custom_id {
                        return bad("custom-id-not-echoed", format!("record {i}: {:?} vs {:?}", r.custom, d.custom_id));
                    }
                    if r.scene != *scene {
                        return bad("scene-not-echoed", format!("record {i}: scene {} for a call on scene {scene}", r.scene));
                    }
                    if r.epoch != epoch {
                        return bad("epoch", format!("record {i}: epoch {}, the scene's current epoch is {epoch}", r.epoch));
                    }
                    if trk.epoch(*scene) != epoch {
                        return bad("epoch-counter", format!("current_epoch_with_scene({scene}) = {}, expected {epoch}", trk.epoch(*scene)));
                    }
                    if seen.contains(&r.id) {
                        return bad("duplicate-track-id-in-call", format!("track id {} given to two detections of one call", r.id));
                    }
                    seen.push(r.id);
                    match self.known.get(&r.id) {
                        None => {
                            if r.length != 1 {
                                return bad("length-of-new-track", format!("record {i}: id {} never issued before but length {}", r.id, r.length));
                            }
                        }
                        Some((sc, len)) => {
                            if r.length == 1 {
                                return bad("recycled-id", format!("record {i}: id {} was issued before (scene {sc}, length {len}) and is now given to a new track", r.id));
                            }
                            if *sc != *scene {
                                return bad("track-changed-scene", format!("record {i}: id {} belonged to scene {sc}", r.id));
                            }
                            if r.length != len + 1 {
                                return bad("length", format!("record {i}: id {} length {} after {len}", r.id, r.length));
                            }
                        }
                    }
                    self.known.insert(r.id, (*scene, r.length));
                    // the stored track agrees with the record
                    match stored.iter().find(|t| t.id == r.id) {
                        None => return bad("record-without-stored-track", format!("record {i}: id {} not in the live store", r.id)),
                        Some(t) => {
                            // a later detection of the same call cannot have updated it (ids are distinct)
                            if t.last_epoch != r.epoch || t.length != r.length || t.scene != r.scene || t.custom != r.custom || t.observed.last() != Some(&r.observed) || t.predicted.last() != Some(&r.predicted) {
                                return bad("record-differs-from-stored-track", format!("record {r:?} vs stored {t:?}"));
                            }
                        }
                    }
                    // predicted box is a valid box near the observation
                    let pf = box_f(&r.predicted);
                    if !(pf[3] > 0.0 && pf[4] > 0.0) || pf.iter().any(|x| !x.is_finite()) {
                        return bad("predicted-box-invalid", format!("record {i}: predicted {pf:?}"));
                    }
                }
            }
            _ => {}
        }
        Ok(())
    }
}

/// The contract judged on a complete run of a batch tracker (results of every batch, retrieved by the
/// submitting thread or by consumer threads): used for the schedule part, where voting threads, store
/// workers, submitter and consumers interleave.
pub fn batch_contract(ro: &super::c06::RunOut, bs: &[super::c06::Batch]) -> Result<(), (String, String)> {
    let bad = |k: &str, w: String| Err((format!("contract/{k}"), w));
    let mut known: BTreeMap<u64, (u64, usize)> = BTreeMap::new();
    let mut epochs: BTreeMap<u64, usize> = BTreeMap::new();
    if ro.obs.len() != bs.len() {
        return bad("batch-result-sets", format!("{} result sets for {} batches", ro.obs.len(), bs.len()));
    }
    for (k, (got, b)) in ro.obs.iter().zip(bs.iter()).enumerate() {
        let mut scenes_seen: Vec<u64> = vec![];
        if got.len() != b.len() {
            return bad("batch-result-count", format!("batch #{k}: {} results for {} scenes", got.len(), b.len()));
        }
        // results arrive in any order; the contract is per scene
        let mut got_sorted = got.clone();
        got_sorted.sort_by_key(|x| x.0);
        for (scene, recs) in &got_sorted {
            if scenes_seen.contains(scene) {
                return bad("batch-result-count", format!("batch #{k}: two results for scene {scene}"));
            }
            scenes_seen.push(*scene);
            let Some((_, dets)) = b.iter().find(|x| x.0 == *scene) else { return bad("scene-not-echoed", format!("batch #{k}: a result for scene {scene}, which was not submitted")) };
            let e = epochs.entry(*scene).or_insert(0);
            *e += 1;
            let epoch = *e;
            if recs.len() != dets.len() {
                return bad("record-count", format!("batch #{k} scene {scene}: {} records for {} detections", recs.len(), dets.len()));
            }
            let mut seen: Vec<u64> = vec![];
            for (i, (r, d)) in recs.iter().zip(dets.iter()).enumerate() {
                if r.observed != box_r(&d.bbox) {
                    return bad("observed-box-not-echoed", format!("batch #{k} scene {scene} record {i}"));
                }
                if r.custom != d.custom_id {
                    return bad("custom-id-not-echoed", format!("batch #{k} scene {scene} record {i}: {:?} vs {:?}", r.custom, d.custom_id));
                }
                if r.scene != *scene {
                    return bad("scene-not-echoed", format!("batch #{k} record {i}: scene {} in the result for scene {scene}", r.scene));
                }
                if r.epoch != epoch {
                    return bad("epoch", format!("batch #{k} scene {scene} record {i}: epoch {}, the scene's current epoch is {epoch}", r.epoch));
                }
                if seen.contains(&r.id) {
                    return bad("duplicate-track-id-in-call", format!("batch #{k} scene {scene}: track id {} given to two detections of one call", r.id));
                }
                seen.push(r.id);
                match known.get(&r.id) {
                    None => {
                        if r.length != 1 {
                            return bad("length-of-new-track", format!("batch #{k} scene {scene} record {i}: id {} never issued before but length {}", r.id, r.length));
                        }
                    }
                    Some((sc, len)) => {
                        if *sc != *scene {
                            return bad("track-changed-scene", format!("batch #{k} record {i}: id {} was issued in scene {sc} and now appears in scene {scene}", r.id));
                        }
                        if r.length == 1 {
                            return bad("recycled-id", format!("batch #{k} scene {scene} record {i}: id {} was issued before (length {len}) and is now given to a new track", r.id));
                        }
                        if r.length != len + 1 {
                            return bad("length", format!("batch #{k} scene {scene} record {i}: id {} length {} after {len}", r.id, r.length));
                        }
                    }
                }
                known.insert(r.id, (*scene, r.length));
            }
        }
    }
    for (s, e) in &epochs {
        if ro.fin.epochs.get(s) != Some(e) {
            return bad("epoch-counter", format!("current epoch of scene {s} = {:?} after {e} calls", ro.fin.epochs.get(s)));
        }
    }
    Ok(())
}

/// schedule part: the contract under every interleaving (within the bound) of voting threads, store workers,
/// submitter and consumers of the batch trackers
fn run_schedules(rep: &Report, tier: Tier) {
    let mut scen = vec![];
    let slice = tier.pick(2.5f64, 60.0f64);
    for kind in [Kind::BatchSort, Kind::BatchVisualSort] {
        // (voting shards, batch variant, discipline, fine granularity, largest deviation bound)
        let plan: Vec<(usize, usize, usize, bool, usize)> = vec![(2, 3, 0, true, tier.pick(1, 3)), (2, 0, 1, false, tier.pick(2, 4)), (2, 1, 1, false, tier.pick(2, 4)), (2, 1, 1, true, tier.pick(1, 2)), (2, 0, 1, true, tier.pick(1, 2))];
        for (vs, variant, discipline, fine, max_bound) in plan {
            let mut cfg = TrkCfg::new(kind);
            cfg.shards = 1;
            cfg.voting_shards = vs;
            cfg.max_idle = 2;
            let bs = super::c06::batches(variant);
            scen.push(super::c06::explore_batch(rep, "contract", &cfg, variant, discipline, fine, max_bound, slice, &|o| batch_contract(o, &bs)));
        }
    }
    rep.extra("schedule_part", json!(scen));
}

pub fn configs(tier: Tier) -> Vec<TrkCfg> {
    let mut v = vec![];
    for kind in Kind::all() {
        for pos in [Pos::Iou(0.3), Pos::Maha] {
            for shards in [1usize, 2] {
                let variants: Vec<(usize, usize)> = if tier == Tier::Thorough { vec![(1, 1), (3, 0), (3, 2)] } else if shards == 1 { vec![(1, 1)] } else { vec![(3, 2)] };
                for (history, max_idle) in variants {
                    let mut c = TrkCfg::new(kind);
                    c.pos = pos;
                    c.shards = shards;
                    c.voting_shards = shards;
                    c.history = history;
                    c.max_idle = max_idle;
                    v.push(c);
                }
            }
        }
    }
    v
}

pub fn run(tier: Tier) -> Report {
    let rep = Report::new("C01", tier);
    let ls = lists();
    rep.set_rule("every history of depth <= D (quick 3, thorough 4) over {predict(scene in {0,7}, one of 11 detection lists incl. empty, (simple trackers:) a call the library rejects because of an invalid confidence - later calls must honour the contract all the same -, exact duplicates, nested, rotated, low confidence, custom ids, features, an appearance contest with a second choice), skip(scene,1)} on a fresh tracker, for Sort / BatchSort / VisualSort / BatchVisualSort x IoU(0.3) / Mahalanobis x shards 1,2 x (history, max_idle) variants; per call: one record per detection in order echoing box / custom id / scene, scene epoch, ids distinct within the call, length 1 exactly for never-issued ids and previous+1 otherwise, stored track agrees with the record. Schedule part (batch trackers, 2 voting threads): the same contract on every complete run of 2-3 multi-scene batches under every interleaving of voting threads, store workers, submitter and consumer threads within a deviation bound (every synchronisation operation a decision point for the two-scene batch that starts two tracks at once; named points for the pipelined consumer-thread runs); a panic, deadlock or step-cap hit is a violation. Non-trivial = history with at least one call of >= 2 detections.");
    rep.assume("history part: sequential use under the default schedule; schedule part: bounded departures from the default schedule (see schedule_part)");
    let depth = tier.pick(3usize, 4usize);
    let mut total_h = 0u64;
    let mut total_s = 0u64;
    let mut nontrivial = 0u64;
    for cfg in configs(tier) {
        if rep.out_of_time() {
            rep.cap_hit(&format!("wall budget reached before config {:?}", cfg.json()));
            continue;
        }
        let mut alpha: Vec<TOp> = vec![];
        for s in [0u64, 7] {
            for l in 0..ls.len() {
                if cfg.kind.is_batch() && (ls[l].is_empty() || has_rejected(&ls[l])) {
                    continue; // a batch cannot carry a scene without detections
                }
                alpha.push(TOp::Predict(s, l));
            }
        }
        alpha.push(TOp::Skip(0, 1));
        let mut hs: Vec<Vec<usize>> = vec![];
        for d in 1..=depth {
            hs.extend(words(alpha.len(), d));
        }
        nontrivial += hs.iter().filter(|h| h.iter().any(|a| matches!(&alpha[*a], TOp::Predict(_, l) if ls[*l].len() >= 2))).count() as u64;
        let st = run_histories(&rep, &cfg, &alpha, &ls, &hs, ContractMonitor::new, "C01");
        total_h += st.histories;
        total_s += st.steps;
    }
    rep.add(total_h, total_s, total_h, 0);
    run_schedules(&rep, tier);
    rep.distinct_count(nontrivial);
    rep.extra("histories", json!(total_h));
    rep.extra("calls_checked", json!(total_s));
    rep.sample(json!({"config":"Sort IoU(0.3) shards=2","history":["predict(0,[P,P,S'])","predict(7,[P',P''])","predict(0,[P,P])"]}));
    rep
}
