//! C17 — voting engines: vote counting, weights, top-N order, one winner per track. Engine C.

use super::hung::{self, permutations};
use crate::common::*;
use serde_json::json;
use similari::track::ObservationMetricOk;
use similari::trackers::sort::voting::SortVoting;
use similari::utils::bbox::Universal2DBox;
use similari::trackers::sort::VotingType;
use similari::trackers::visual_sort::observation_attributes::VisualObservationAttributes;
use similari::trackers::visual_sort::voting::VisualVoting;
use similari::voting::best::BestFitVoting;
use similari::voting::topn::TopNVoting;
use similari::voting::Voting;
use std::collections::{BTreeMap, HashMap};
use std::sync::atomic::{AtomicU64, Ordering};

type Item = (u64, u64, Option<f32>); // (query, track, distance)
const QB: u64 = 100;
const TB: u64 = 1;

fn mk(items: &[Item]) -> Vec<ObservationMetricOk<f32>> {
    items
        .iter()
        .map(|(q, t, d)| ObservationMetricOk::<f32>::new(*q, *t, None, *d))
        .collect()
}

struct Expect {
    max_dist: f32,
    /// qualifying (query, track) -> weight
    pairs: BTreeMap<(u64, u64), f64>,
}

fn expect(items: &[Item], max_distance: f32, min_votes: usize) -> Expect {
    let mut max_dist = -1.0f32;
    for (_, _, d) in items {
        if let Some(d) = d {
            if *d > max_dist {
                max_dist = *d;
            }
        }
    }
    let mut groups: BTreeMap<(u64, u64), Vec<f32>> = BTreeMap::new();
    for (q, t, d) in items {
        if let Some(d) = d {
            if *d <= max_distance {
                groups.entry((*q, *t)).or_default().push(*d);
            }
        }
    }
    let pairs = groups
        .into_iter()
        .filter(|(_, v)| v.len() >= min_votes)
        .map(|(k, v)| (k, v.iter().map(|d| (max_dist - d) as f64).sum()))
        .collect();
    Expect { max_dist, pairs }
}

fn check_topn(items: &[Item], n: usize, max_distance: f32, min_votes: usize) -> Result<String, (&'static str, String)> {
    let ex = expect(items, max_distance, min_votes);
    let v: TopNVoting<f32> = TopNVoting::new(n, max_distance, min_votes);
    let res = v.winners(mk(items));
    let mut canon = String::new();
    let mut by_q: BTreeMap<u64, Vec<(u64, f64)>> = BTreeMap::new();
    for ((q, t), w) in &ex.pairs {
        by_q.entry(*q).or_default().push((*t, *w));
    }
    for q in res.keys() {
        if !by_q.contains_key(q) {
            return Err(("topn/query-without-qualifying-pair", format!("query {q} returned {:?}", res[q])));
        }
    }
    for (q, quals) in &by_q {
        let Some(got) = res.get(q) else {
            return Err(("topn/query-missing", format!("query {q} has qualifying tracks {quals:?} but no answer")));
        };
        if got.len() != n.min(quals.len()) {
            return Err(("topn/wrong-count", format!("query {q}: {} winners, expected {}", got.len(), n.min(quals.len()))));
        }
        let mut seen = vec![];
        let mut last = f64::INFINITY;
        for e in got {
            if e.query_track != *q {
                return Err(("topn/wrong-query-field", format!("{e:?} under key {q}")));
            }
            let Some(w) = ex.pairs.get(&(*q, e.winner_track)) else {
                return Err(("topn/non-qualifying-winner", format!("query {q}: track {} does not qualify", e.winner_track)));
            };
            if seen.contains(&e.winner_track) {
                return Err(("topn/duplicate-winner", format!("query {q}: track {} twice", e.winner_track)));
            }
            seen.push(e.winner_track);
            if e.weight != *w {
                return Err(("topn/wrong-weight", format!("query {q} track {}: weight {} expected {w} (max distance seen {})", e.winner_track, e.weight, ex.max_dist)));
            }
            if e.weight > last {
                return Err(("topn/not-sorted", format!("query {q}: weights not non-increasing: {got:?}")));
            }
            last = e.weight;
        }
        let min_listed = got.iter().map(|e| e.weight).fold(f64::INFINITY, f64::min);
        for (t, w) in quals {
            if !seen.contains(t) && *w > min_listed {
                return Err(("topn/heavier-omitted", format!("query {q}: track {t} with weight {w} omitted, lightest listed {min_listed}")));
            }
        }
        // canonical form for order independence (only meaningful when tie-free)
        let mut g: Vec<(u64, u64)> = got.iter().map(|e| (e.winner_track, e.weight.to_bits())).collect();
        let tie_free = {
            let mut ws: Vec<u64> = quals.iter().map(|x| x.1.to_bits()).collect();
            ws.sort();
            ws.windows(2).all(|w| w[0] != w[1])
        };
        if !tie_free {
            g.clear();
            canon.push_str("ties;");
        }
        canon.push_str(&format!("{q}:{g:?};"));
    }
    Ok(canon)
}

fn check_best(items: &[Item], max_distance: f32, min_votes: usize) -> Result<String, (&'static str, String)> {
    let ex = expect(items, max_distance, min_votes);
    let v: BestFitVoting<f32> = BestFitVoting::new(max_distance, min_votes);
    let res = v.winners(mk(items));
    // every qualifying pair is represented by exactly one entry (awarded or fallen back to the query itself)
    let mut awarded: BTreeMap<u64, Vec<(u64, f64)>> = BTreeMap::new();
    let mut n_entries = 0usize;
    let mut per_q: BTreeMap<u64, Vec<f64>> = BTreeMap::new();
    for (q, es) in &res {
        for e in es {
            n_entries += 1;
            if e.query_track != *q {
                return Err(("best/wrong-query-field", format!("{e:?} under key {q}")));
            }
            per_q.entry(*q).or_default().push(e.weight);
            if e.winner_track != *q {
                match ex.pairs.get(&(*q, e.winner_track)) {
                    None => return Err(("best/non-qualifying-winner", format!("query {q} awarded track {} which does not qualify", e.winner_track))),
                    Some(w) => {
                        if *w != e.weight {
                            return Err(("best/wrong-weight", format!("query {q} track {}: weight {} expected {w}", e.winner_track, e.weight)));
                        }
                    }
                }
                awarded.entry(e.winner_track).or_default().push((*q, e.weight));
            }
        }
    }
    if n_entries != ex.pairs.len() {
        return Err(("best/entry-count", format!("{n_entries} entries for {} qualifying pairs", ex.pairs.len())));
    }
    // multiset of weights per query equals the qualifying pairs of that query
    let mut exp_q: BTreeMap<u64, Vec<f64>> = BTreeMap::new();
    for ((q, _), w) in &ex.pairs {
        exp_q.entry(*q).or_default().push(*w);
    }
    for (q, ws) in &mut exp_q {
        ws.sort_by(|a, b| a.partial_cmp(b).unwrap());
        let mut got = per_q.get(q).cloned().unwrap_or_default();
        got.sort_by(|a, b| a.partial_cmp(b).unwrap());
        if &got != ws {
            return Err(("best/entries-differ", format!("query {q}: entry weights {got:?}, qualifying {ws:?}")));
        }
    }
    let mut tracks: BTreeMap<u64, Vec<(u64, f64)>> = BTreeMap::new();
    for ((q, t), w) in &ex.pairs {
        tracks.entry(*t).or_default().push((*q, *w));
    }
    let mut canon = String::new();
    for (t, claims) in &tracks {
        let a = awarded.get(t).cloned().unwrap_or_default();
        if a.len() > 1 {
            return Err(("best/track-awarded-twice", format!("track {t} awarded to {a:?}")));
        }
        if a.is_empty() {
            return Err(("best/track-not-awarded", format!("track {t} has claimants {claims:?} but nobody got it")));
        }
        let maxw = claims.iter().map(|c| c.1).fold(f64::NEG_INFINITY, f64::max);
        if a[0].1 != maxw {
            return Err(("best/not-greatest-weight", format!("track {t} went to query {} (weight {}), greatest claim is {maxw}", a[0].0, a[0].1)));
        }
        let tie = claims.iter().filter(|c| c.1 == maxw).count() > 1;
        canon.push_str(&if tie { format!("{t}:tie;") } else { format!("{t}:{};", a[0].0) });
    }
    Ok(canon)
}

/// VisualVoting: feature claims first (best fit), the rest positional (Hungarian), no track twice
fn check_visual(items: &[(u64, u64, Option<f32>, Option<f32>)], pos_thr: f32, min_votes: usize) -> Result<(), (&'static str, String)> {
    let v = VisualVoting::new(pos_thr, f32::MAX, min_votes);
    let stream: Vec<ObservationMetricOk<VisualObservationAttributes>> = items
        .iter()
        .map(|(q, t, pos, feat)| ObservationMetricOk::new(*q, *t, *pos, *feat))
        .collect();
    let res = v.winners(stream);
    let feat_items: Vec<Item> = items.iter().map(|(q, t, _, f)| (*q, *t, *f)).collect();
    let ex = expect(&feat_items, f32::MAX, min_votes);
    let mut used: Vec<u64> = vec![];
    for (q, ws) in &res {
        if ws.len() != 1 {
            return Err(("visual/not-one-answer", format!("query {q}: {ws:?}")));
        }
        let (t, vt) = ws[0];
        if t != *q {
            if used.contains(&t) {
                return Err(("visual/track-twice", format!("track {t} given to two queries")));
            }
            used.push(t);
        }
        let has_claim = ex.pairs.keys().any(|(qq, _)| qq == q);
        match vt {
            VotingType::Visual => {
                if !has_claim {
                    return Err(("visual/visual-without-claim", format!("query {q} reported Visual for {t} without any qualifying feature claim")));
                }
                if t != *q && !ex.pairs.contains_key(&(*q, t)) {
                    return Err(("visual/visual-on-unclaimed-track", format!("query {q} -> track {t} Visual, but no qualifying claim on it")));
                }
            }
            VotingType::Positional => {
                if has_claim {
                    return Err(("visual/positional-despite-claim", format!("query {q} has a feature claim but was associated positionally")));
                }
                if t != *q {
                    let ok = items.iter().any(|(qq, tt, p, _)| qq == q && *tt == t && p.map_or(false, |p| hung::to_units(p) >= hung::to_units(pos_thr)));
                    if !ok {
                        return Err(("visual/positional-ungated", format!("query {q} -> track {t} positionally without a gated positional pair")));
                    }
                }
            }
        }
    }
    // every query with a claim must be answered
    for (q, _) in ex.pairs.keys() {
        if !res.contains_key(q) {
            return Err(("visual/claimant-without-answer", format!("query {q}")));
        }
    }
    Ok(())
}

fn multisets(kinds: usize, size: usize, f: &mut dyn FnMut(&[usize])) {
    fn rec(kinds: usize, start: usize, left: usize, cur: &mut Vec<usize>, f: &mut dyn FnMut(&[usize])) {
        if left == 0 {
            f(cur);
            return;
        }
        for k in start..kinds {
            cur.push(k);
            rec(kinds, k, left - 1, cur, f);
            cur.pop();
        }
    }
    rec(kinds, 0, size, &mut vec![], f);
}

pub fn run(tier: Tier) -> Report {
    let rep = Report::new("C17", tier);
    rep.set_rule("every multiset of <= K stream items over Q queries x T tracks x distances {.25,.5,1,2,None} (quick: 2x2, K=4; thorough: 3x3 K=4 and 2x2 K=6), plus streams in which queries and tracks share ONE id space {1,2,3} (every ordered pair q != t x distances {.25,.5,1}, K=4 quick / 5 thorough), plus streams whose ids do not fit in 32 bits (queries 5e9 + q, tracks 7 + t * 2^32), plus streams of similarity-like distances {-.9,-.5,-.2,.25} (2x2, K=4 quick / 5 thorough; most of them hold negative distances only; also max_distance -.5 / -.3 / -.1), every permutation of streams of <= 4 items (rotations, reversal and adjacent transpositions of the canonical order for 5-6 items), N in {1,2,3}, min_votes in {1,2}, max_distance in {.5,.75,1,1.5,2,10} (three of them equal to a distance of the menu: 'not exceeding' is decided at equality); TopN and BestFit judged against the counting rules (also on streams with 1..40 tracks per query, N up to 10), results of tie-free streams required identical across orders; VisualVoting and Hungarian voting judged structurally (Hungarian: weights {absent, 0 (gated out, the query still appears), .2, .5, .9}; plus 2x2 matrices over weights 5 and 14 millionths apart in every arrival order); TopN / BestFit streams whose distances differ in the last bits of an f32 (weights 2e-7 apart) in every order; Hungarian: every 2x3 matrix over {absent,.2,.5,.9} on a thread where calls with a zero id in the stream have failed before. Non-trivial = at least two items.");
    let dmenu: Vec<Option<f32>> = vec![Some(0.25), Some(0.5), Some(1.0), Some(2.0), None];
    let params: Vec<(usize, usize, f32)> = {
        let mut p = vec![];
        for n in [1usize, 2, 3] {
            for mv in [1usize, 2] {
                for md in [0.5f32, 0.75, 1.0, 1.5, 2.0, 10.0] {
                    p.push((n, mv, md));
                }
            }
        }
        p
    };
    // thresholds inside the negative range, for the signed menu
    let signed_params: Vec<(usize, usize, f32)> = vec![(1, 1, -0.3), (2, 1, -0.5), (1, 2, -0.3), (3, 1, -0.1)];
    let evals = AtomicU64::new(0);
    let nontrivial = AtomicU64::new(0);
    // the last configuration has queries and tracks in ONE id space {1,2,3} (merging tracks of one store:
    // a query's own id is also some other query's candidate track); pairs of a track with itself do not occur
    // the last flag selects a menu of similarity-like distances (cosine: values in [-1, 1]): three negative ones and
    // one positive, so that most streams hold negative distances only
    // a 'signed' value of 2 selects ids that do not fit in 32 bits instead (queries 5e9 + q, tracks 7 + t * 2^32: ids are u64, the
    // visual trackers use random ones) with the ordinary distance menu
    let configs: Vec<(usize, usize, usize, bool, u8)> = tier.pick(vec![(2, 2, 4, false, 0), (3, 3, 4, true, 0), (2, 2, 4, false, 1), (2, 3, 3, false, 2)], vec![(3, 3, 4, false, 0), (2, 2, 6, false, 0), (2, 3, 5, false, 0), (3, 3, 5, true, 0), (2, 2, 5, false, 1), (3, 2, 4, false, 1), (2, 3, 4, false, 2)]);
    let signed_menu: Vec<Option<f32>> = vec![Some(-0.9), Some(-0.5), Some(-0.2), Some(0.25)];
    for (nq, nt, kmax, shared, mode) in configs {
        let signed = mode == 1;
        let kinds: Vec<Item> = {
            let mut k = vec![];
            for q in 0..nq {
                for t in 0..nt {
                    if shared {
                        if q != t {
                            for d in [0.25f32, 0.5, 1.0] {
                                k.push((1 + q as u64, 1 + t as u64, Some(d)));
                            }
                        }
                        continue;
                    }
                    for d in if signed { &signed_menu } else { &dmenu } {
                        if mode == 2 {
                            k.push((5_000_000_000 + q as u64, 7 + t as u64 * (1u64 << 32), *d));
                            continue;
                        }
                        k.push((QB + q as u64, TB + t as u64, *d));
                    }
                }
            }
            k
        };
        for size in 0..=kmax {
            let mut sets: Vec<Vec<usize>> = vec![];
            multisets(kinds.len(), size, &mut |m| sets.push(m.to_vec()));
            let perms = if size <= 4 {
                permutations(size)
            } else {
                // generators applied to the canonical order: identity, reversal, rotations, adjacent swaps
                let id: Vec<usize> = (0..size).collect();
                let mut ps = vec![id.clone(), id.iter().rev().cloned().collect()];
                for r in 1..size {
                    ps.push((0..size).map(|i| (i + r) % size).collect());
                }
                for s in 0..size - 1 {
                    let mut p = id.clone();
                    p.swap(s, s + 1);
                    ps.push(p);
                }
                ps
            };
            par_for(sets.len(), 64, |si| {
                let items: Vec<Item> = sets[si].iter().map(|k| kinds[*k]).collect();
                if size >= 2 {
                    nontrivial.fetch_add(1, Ordering::Relaxed);
                }
                for &(n, mv, md) in params.iter().chain(if signed { signed_params.iter() } else { [].iter() }) {
                    let mut first_topn: Option<String> = None;
                    let mut first_best: Option<String> = None;
                    for p in &perms {
                        let o: Vec<Item> = p.iter().map(|i| items[*i]).collect();
                        evals.fetch_add(2, Ordering::Relaxed);
                        let case = || json!({"engine":"topn/best","items":o.iter().map(|(q,t,d)| json!([q,t,d])).collect::<Vec<_>>(),"topn":n,"min_votes":mv,"max_distance":md});
                        match check_topn(&o, n, md, mv) {
                            Err((k, w)) => rep.violation(Violation { key: k.into(), what: w, replay: case() }),
                            Ok(c) => {
                                if let Some(f) = &first_topn {
                                    if *f != c && !c.contains("ties") {
                                        rep.violation(Violation { key: "topn/order-dependent".into(), what: format!("{f} vs {c}"), replay: case() });
                                    }
                                } else {
                                    first_topn = Some(c);
                                }
                            }
                        }
                        if n == 1 {
                            match check_best(&o, md, mv) {
                                Err((k, w)) => rep.violation(Violation { key: k.into(), what: w, replay: case() }),
                                Ok(c) => {
                                    if let Some(f) = &first_best {
                                        if *f != c {
                                            rep.violation(Violation { key: "best/order-dependent".into(), what: format!("{f} vs {c}"), replay: case() });
                                        }
                                    } else {
                                        first_best = Some(c);
                                    }
                                }
                            }
                        }
                    }
                }
                if rep.want_sample(si as u64) && size >= 3 {
                    rep.sample(json!({"items":items.iter().map(|(q,t,d)| json!([q,t,d])).collect::<Vec<_>>(),"orders":perms.len(),"params":params.len()}));
                }
            });
        }
    }

    // many tracks per query: one or two queries x k tracks (k = 1..=40, more than any small-slice shortcut of a
    // sorting routine), distinct weights, N in {1,2,3,10}, several stream orders: at most N, heaviest first,
    // nothing heavier omitted (the generic TopN / BestFit judges)
    {
        let mut lists = 0u64;
        for k in 1..=40usize {
            // distances d_t = 0.05 + 0.02 t (all <= max_distance 1.0 for t < 40, distinct), second query shifted
            let base: Vec<Item> = (0..k).flat_map(|t| [(QB, TB + t as u64, Some(0.05 + 0.02 * ((t * 7) % k) as f32 + 0.001 * t as f32)), (QB + 1, TB + t as u64, Some(0.9 - 0.02 * ((t * 3) % k) as f32 - 0.001 * t as f32))]).collect();
            let n = base.len();
            let orders: Vec<Vec<usize>> = vec![(0..n).collect(), (0..n).rev().collect(), (0..n).map(|i| (i * 7 + 3) % n).filter(|_| n % 7 != 0).collect::<Vec<_>>(), (0..n).map(|i| (i + n / 2) % n).collect()];
            for ord in orders.iter().filter(|o| o.len() == n) {
                let o: Vec<Item> = ord.iter().map(|i| base[*i]).collect();
                for topn in [1usize, 2, 3, 10] {
                    lists += 1;
                    evals.fetch_add(2, Ordering::Relaxed);
                    let case = || json!({"engine":"topn/best","family":"many tracks per query","tracks":k,"topn":topn,"order":ord});
                    if let Err((key, w)) = check_topn(&o, topn, 1.0, 1) {
                        rep.violation(Violation { key: key.into(), what: format!("{k} tracks per query: {w}"), replay: case() });
                    }
                    if topn == 1 {
                        if let Err((key, w)) = check_best(&o, 1.0, 1) {
                            rep.violation(Violation { key: key.into(), what: format!("{k} tracks per query: {w}"), replay: case() });
                        }
                    }
                }
            }
        }
        rep.extra("many_tracks_per_query_streams", json!(lists));
    }

    // VisualVoting: streams over 2 queries x 2 tracks with (positional weight, feature distance) pairs
    let pos_menu: Vec<Option<f32>> = vec![None, Some(0.2), Some(0.5), Some(0.9)];
    let feat_menu: Vec<Option<f32>> = vec![None, Some(0.25), Some(1.0)];
    let vk: Vec<(u64, u64, Option<f32>, Option<f32>)> = {
        let mut k = vec![];
        for q in 0..2u64 {
            for t in 0..2u64 {
                for p in &pos_menu {
                    for f in &feat_menu {
                        k.push((QB + q, TB + t, *p, *f));
                    }
                }
            }
        }
        k
    };
    let vsize = tier.pick(3usize, 4usize);
    for size in 1..=vsize {
        let mut sets: Vec<Vec<usize>> = vec![];
        multisets(vk.len(), size, &mut |m| sets.push(m.to_vec()));
        let perms = permutations(size);
        par_for(sets.len(), 64, |si| {
            let items: Vec<_> = sets[si].iter().map(|k| vk[*k]).collect();
            nontrivial.fetch_add(1, Ordering::Relaxed);
            for mv in [1usize, 2] {
                for p in &perms {
                    let o: Vec<_> = p.iter().map(|i| items[*i]).collect();
                    evals.fetch_add(1, Ordering::Relaxed);
                    if let Err((k, w)) = check_visual(&o, 0.3, mv) {
                        rep.violation(Violation { key: k.into(), what: w, replay: json!({"engine":"visual","items":o.iter().map(|(q,t,p,f)| json!([q,t,p,f])).collect::<Vec<_>>(),"min_votes":mv}) });
                    }
                }
            }
        });
    }

    // Hungarian: every query of the stream gets itself or one track, no track twice (optimality: C02)
    // (a weight of exactly 0 is what a gated-out Mahalanobis pair carries: the query still appears in the stream)
    let hmenu: Vec<Option<f32>> = vec![None, Some(0.0), Some(0.2), Some(0.5), Some(0.9)];
    for nc in 1..=3usize {
        for nt in 1..=3usize {
            let cells = nc * nt;
            // 3x3: a smaller weight menu keeps the product at 3^9
            let hmenu: Vec<Option<f32>> = if nt == 3 { vec![None, Some(0.0), Some(0.9)] } else { hmenu.clone() };
            let total = hmenu.len().pow(cells as u32);
            par_for(total, 256, |idx| {
                let mut k = idx;
                let mut w = vec![vec![None; nt]; nc];
                for cell in 0..cells {
                    w[cell / nt][cell % nt] = hmenu[k % hmenu.len()];
                    k /= hmenu.len();
                }
                let case = hung::Case { thr: 0.3, weights: w, declared_c: nc, declared_t: nt + 1 };
                let s = case.stream();
                let perms = if s.len() <= 5 {
                    permutations(s.len())
                } else {
                    // canonical order, reversal, every rotation, every adjacent transposition, grouped by track
                    let n = s.len();
                    let id: Vec<usize> = (0..n).collect();
                    let mut ps = vec![id.clone(), id.iter().rev().cloned().collect()];
                    for r in 1..n {
                        ps.push((0..n).map(|i| (i + r) % n).collect());
                    }
                    for k in 0..n - 1 {
                        let mut p = id.clone();
                        p.swap(k, k + 1);
                        ps.push(p);
                    }
                    let mut by_track = id.clone();
                    by_track.sort_by_key(|i| (s[*i].1, s[*i].0));
                    ps.push(by_track);
                    ps
                };
                let mut first: Option<Vec<(u64, u64)>> = None;
                for p in perms {
                    let o: Vec<_> = p.iter().map(|i| s[*i]).collect();
                    evals.fetch_add(1, Ordering::Relaxed);
                    let v = hung::judge(&case, &o);
                    if !v.ok {
                        rep.violation(Violation { key: v.key.into(), what: v.what, replay: json!({"engine":"hungarian","weights":format!("{:?}", case.weights)}) });
                    } else {
                        // unique optimum => identical assignment in every order
                        let mut a = v.assignment.clone();
                        a.sort();
                        if let Some(f) = &first {
                            if *f != a && unique_optimum(&case) {
                                rep.violation(Violation { key: "hungarian/order-dependent".into(), what: format!("{f:?} vs {a:?}"), replay: json!({"engine":"hungarian","weights":format!("{:?}", case.weights)}) });
                            }
                        } else {
                            first = Some(a);
                        }
                    }
                }
            });
        }
    }
    // TopN / BestFit, near ties that are not ties: weights a few 1e-7 apart (distances that differ in the last
    // bits of an f32) - the heavier claim wins, lists are ordered by the exact weights, in every stream order
    {
        let ds: Vec<f32> = vec![0.25, 0.2500002, 0.25000036, 0.5];
        let mut kinds: Vec<Item> = vec![];
        for q in 0..2u64 {
            for t in 0..2u64 {
                for d in &ds {
                    kinds.push((QB + q, TB + t, Some(*d)));
                }
            }
        }
        // one far item fixes the largest distance seen
        let far: Item = (QB + 2, TB + 5, Some(1.0));
        let mut sets: Vec<Vec<usize>> = vec![];
        for size in 2..=3usize {
            multisets(kinds.len(), size, &mut |m| sets.push(m.to_vec()));
        }
        par_for(sets.len(), 64, |si| {
            let mut items: Vec<Item> = sets[si].iter().map(|k| kinds[*k]).collect();
            items.push(far);
            for p in permutations(items.len()) {
                let o: Vec<Item> = p.iter().map(|i| items[*i]).collect();
                evals.fetch_add(2, Ordering::Relaxed);
                let case = || json!({"engine":"topn/best","family":"near ties","items":o.iter().map(|(q,t,d)| json!([q,t,d])).collect::<Vec<_>>()});
                if let Err((k, w)) = check_topn(&o, 2, 10.0, 1) {
                    rep.violation(Violation { key: format!("{k}/near-tie"), what: w, replay: case() });
                }
                if let Err((k, w)) = check_best(&o, 10.0, 1) {
                    rep.violation(Violation { key: format!("{k}/near-tie"), what: w, replay: case() });
                }
            }
        });
    }
    // Hungarian, near ties that are not ties: 2x2 matrices over weights a few millionths apart (the voting weights
    // resolve one millionth), every arrival order: the better assignment is found in every order
    {
        let near: Vec<Option<f32>> = vec![Some(0.5), Some(0.500005), Some(0.500014), Some(0.6)];
        let total = near.len().pow(4);
        par_for(total, 16, |idx| {
            let mut k = idx;
            let mut w = vec![vec![None; 2]; 2];
            for cell in 0..4 {
                w[cell / 2][cell % 2] = near[k % near.len()];
                k /= near.len();
            }
            let case = hung::Case { thr: 0.3, weights: w, declared_c: 2, declared_t: 3 };
            let s = case.stream();
            let mut first: Option<Vec<(u64, u64)>> = None;
            for p in permutations(s.len()) {
                let o: Vec<_> = p.iter().map(|i| s[*i]).collect();
                evals.fetch_add(1, Ordering::Relaxed);
                let v = hung::judge(&case, &o);
                if !v.ok {
                    rep.violation(Violation { key: format!("{}/near-tie", v.key), what: v.what, replay: json!({"engine":"hungarian","family":"near ties","weights":format!("{:?}", case.weights)}) });
                } else {
                    let mut a = v.assignment.clone();
                    a.sort();
                    if let Some(f) = &first {
                        if *f != a && unique_optimum(&case) {
                            rep.violation(Violation { key: "hungarian/order-dependent/near-tie".into(), what: format!("{f:?} vs {a:?}"), replay: json!({"engine":"hungarian","family":"near ties","weights":format!("{:?}", case.weights)}) });
                        }
                    } else {
                        first = Some(a);
                    }
                }
            }
        });
    }
    // Hungarian, valid streams right after a call that failed on the same thread (a zero id in the stream makes the
    // engine panic after it has already taken in the items before it; a caller that recovers - catch_unwind, the
    // Python layer - goes on voting on the same thread with the same declared shape)
    {
        let prev_hook = std::panic::take_hook();
        std::panic::set_hook(Box::new(|_| {}));
        let menu: Vec<Option<f32>> = vec![None, Some(0.2), Some(0.5), Some(0.9)];
        let (dc, dt) = (2usize, 3usize);
        let mut failed = 0u64;
        let mut judged = 0u64;
        for fc in 0..dc {
            for ft in 0..dt {
                for code in 0..menu.len().pow((dc * dt) as u32) {
                    // every 16th matrix follows a freshly failed call; the others follow successful calls, which must
                    // not leave anything behind either
                    if code % 16 == 0 {
                        let r = std::panic::catch_unwind(|| {
                            let v = SortVoting::new(0.3, dc, dt);
                            let stream: Vec<ObservationMetricOk<Universal2DBox>> = vec![
                                ObservationMetricOk::new(hung::CAND_BASE + fc as u64, hung::TRACK_BASE + ft as u64, Some(0.95), None),
                                ObservationMetricOk::new(hung::CAND_BASE + (1 - fc) as u64, hung::TRACK_BASE + ((ft + 1) % dt) as u64, Some(0.9), None),
                                ObservationMetricOk::new(hung::CAND_BASE + (1 - fc) as u64, 0, Some(0.5), None),
                            ];
                            v.winners(stream).len()
                        });
                        if r.is_err() {
                            failed += 1;
                        }
                    }
                    let mut k = code;
                    let mut w = vec![vec![None; dt]; dc];
                    for cell in 0..dc * dt {
                        w[cell / dt][cell % dt] = menu[k % menu.len()];
                        k /= menu.len();
                    }
                    let case = hung::Case { thr: 0.3, weights: w, declared_c: dc, declared_t: dt };
                    let s = case.stream();
                    evals.fetch_add(1, Ordering::Relaxed);
                    judged += 1;
                    let v = hung::judge(&case, &s);
                    if !v.ok {
                        rep.violation(Violation { key: format!("{}/after-a-failed-call", v.key), what: format!("on a thread where an earlier call (items candidate {fc} -> track {ft}, the other candidate -> the next track, then an item with a zero id) had failed: {}", v.what), replay: json!({"engine":"hungarian","family":"valid streams after a failed call","failed_call_first_item":[fc,ft,0.95],"weights":format!("{:?}", case.weights)}) });
                        break;
                    }
                }
            }
        }
        std::panic::set_hook(prev_hook);
        rep.extra("hungarian_after_a_failed_call", json!({"calls_that_failed":failed,"streams_judged":judged}));
    }
    let e = evals.load(Ordering::Relaxed);
    rep.add(e, e, e, e);
    rep.distinct_count(nontrivial.load(Ordering::Relaxed));
    let _ = HashMap::<u8, u8>::new();
    rep
}

/// true when exactly one assignment attains the optimum (brute force, <= 3 x 2)
fn unique_optimum(case: &hung::Case) -> bool {
    if case.weights.len() * case.weights[0].len() > 6 {
        // brute force below enumerates (nt+1)^nc assignments: fine up to 3x3 as well
    }
    let nc = case.weights.len();
    let nt = case.weights[0].len();
    let thr = hung::to_units(case.thr);
    let opt = case.optimum();
    let mut count = 0;
    // each appearing candidate picks: none (nt) or a track index
    let appears: Vec<bool> = case.weights.iter().map(|r| r.iter().any(|w| w.is_some())).collect();
    let total = (nt + 1).pow(nc as u32);
    'outer: for code in 0..total {
        let mut k = code;
        let mut used = vec![false; nt];
        let mut val = 0i64;
        for c in 0..nc {
            let ch = k % (nt + 1);
            k /= nt + 1;
            if !appears[c] {
                if ch != nt {
                    continue 'outer;
                }
                continue;
            }
            if ch == nt {
                val += thr;
            } else {
                if used[ch] {
                    continue 'outer;
                }
                match case.weights[c][ch] {
                    None => continue 'outer,
                    Some(w) => {
                        used[ch] = true;
                        val += hung::to_units(w);
                    }
                }
            }
        }
        if val == opt {
            count += 1;
        }
    }
    count == 1
}
