//! Independent re-derivation of association decisions from the observable store (used by C02(b),
//! C12, C20(b)): gates and weights in f64, brute-force optimum, margins around every threshold.

use super::trk::*;
use crate::geom::{self, RBox};

pub const MARGIN: f64 = 1e-3;
const CHI2_5: f64 = 11.070;

#[derive(Clone, Debug)]
pub struct Cand {
    pub bbox: BoxR,
}

fn rbox(b: &BoxR) -> RBox {
    let f = box_f(b);
    RBox { xc: f[0] as f64, yc: f[1] as f64, angle: f[2] as f64, w: f[3] as f64 * f[4] as f64, h: f[4] as f64 }
}

pub fn too_far(a: &BoxR, b: &BoxR) -> (bool, f64) {
    let (x, y) = (rbox(a), rbox(b));
    let d2 = (x.xc - y.xc).powi(2) + (x.yc - y.yc).powi(2);
    let r = x.radius() + y.radius();
    // the slack is relative to the reach, so that the decision margin is scale-free
    (d2 > r * r, (d2.sqrt() - r).abs() / r.max(1e-30))
}

pub fn dist_in_2r(a: &BoxR, b: &BoxR) -> f64 {
    let (x, y) = (rbox(a), rbox(b));
    let d = ((x.xc - y.xc).powi(2) + (x.yc - y.yc).powi(2)).sqrt();
    let r = x.radius() + y.radius();
    d / (r * r + 1e-5).sqrt()
}

/// squared Mahalanobis distance of a measurement from the projected state (library noise model)
pub fn mahalanobis(state: &(Vec<u32>, Vec<u32>), meas: &BoxR, pos_w: f64) -> f64 {
    let mean: Vec<f64> = state.0.iter().map(|x| f32::from_bits(*x) as f64).collect();
    let cov: Vec<f64> = state.1.iter().map(|x| f32::from_bits(*x) as f64).collect();
    let h = mean[4];
    let w = pos_w * h;
    let std = [w, w, w, 1e-1, w];
    let z = box_f(meas);
    let zz = [z[0] as f64, z[1] as f64, z[2] as f64, z[3] as f64, z[4] as f64];
    // S = P[0..5,0..5] + R ; general 5x5 solve by Gaussian elimination
    let n = 5;
    let mut a = vec![vec![0.0f64; n + 1]; n];
    for i in 0..n {
        for j in 0..n {
            a[i][j] = cov[i * 10 + j] + if i == j { std[i] * std[i] } else { 0.0 };
        }
        a[i][n] = zz[i] - mean[i];
    }
    let y: Vec<f64> = (0..n).map(|i| a[i][n]).collect();
    for c in 0..n {
        let mut p = c;
        for r in c + 1..n {
            if a[r][c].abs() > a[p][c].abs() {
                p = r;
            }
        }
        a.swap(c, p);
        let pv = a[c][c];
        for j in c..=n {
            a[c][j] /= pv;
        }
        for r in 0..n {
            if r != c {
                let f = a[r][c];
                if f != 0.0 {
                    for j in c..=n {
                        a[r][j] -= f * a[c][j];
                    }
                }
            }
        }
    }
    // note: rows were swapped together with the right-hand side, so a[i][n] solves S x = y
    (0..n).map(|i| y_dot(&y, i, &a)).sum()
}

fn y_dot(y: &[f64], i: usize, a: &[Vec<f64>]) -> f64 {
    // after elimination a[i][n] = x_i with S x = y' (row-permuted system has the same solution)
    y[i] * a[i][5]
}

#[derive(Clone, Debug)]
pub struct PairW {
    /// weight if the pair is gated
    pub weight: Option<f64>,
    /// some decision on the way was within the margin: do not assert on this pair
    pub undecided: bool,
}

#[derive(Clone, Debug)]
pub struct PosCfg {
    pub pos: Pos,
    pub min_conf: f64,
    pub max_idle: usize,
    pub constraints: Option<Vec<(usize, f32)>>,
    pub pos_w: f64,
}

impl PosCfg {
    pub fn of(c: &TrkCfg) -> PosCfg {
        PosCfg { pos: c.pos, min_conf: c.min_conf as f64, max_idle: c.max_idle, constraints: c.constraints.clone(), pos_w: c.kalman_w.0 as f64 }
    }
    pub fn threshold(&self) -> f64 {
        match self.pos {
            Pos::Iou(t) => t as f64,
            Pos::Maha => 1.0,
        }
    }
}

/// candidate's own box as the metric sees it: the posterior of a fresh filter = the observation,
/// with a zero angle reported as "no angle"
pub fn cand_box(d: &Det) -> BoxR {
    let mut r = box_r(&d.bbox);
    if r[2] != u32::MAX && f32::from_bits(r[2]) == 0.0 {
        r[2] = u32::MAX;
    }
    r
}

/// is the track a candidate partner at all (scene, expiry, constraints)?  (None = within margin)
pub fn compatible(pc: &PosCfg, d: &Det, scene: u64, now: usize, t: &Stored) -> Option<bool> {
    if t.scene != scene {
        return Some(false);
    }
    let gap = now.saturating_sub(t.last_epoch);
    if gap > pc.max_idle {
        return Some(false);
    }
    if let Some(cs) = &pc.constraints {
        let mut first: std::collections::BTreeMap<usize, f32> = Default::default();
        for (g, l) in cs {
            first.entry(*g).or_insert(*l);
        }
        if let Some((_, lim)) = first.range(gap..).next() {
            let last_pred = t.predicted.last().unwrap();
            let dist = dist_in_2r(&cand_box(d), last_pred);
            if (dist - *lim as f64).abs() < MARGIN * (*lim as f64).max(1.0) {
                return None;
            }
            if dist > *lim as f64 {
                return Some(false);
            }
        }
    }
    Some(true)
}

pub fn pair_weight(pc: &PosCfg, d: &Det, t: &Stored) -> PairW {
    let cb = cand_box(d);
    let Some(tb) = t.obs0.first().and_then(|o| o.0) else { return PairW { weight: None, undecided: false } };
    let (far, slack) = too_far(&cb, &tb);
    let mut undecided = slack < MARGIN;
    if far {
        return PairW { weight: None, undecided };
    }
    let conf = (f32::from_bits(cb[5]) as f64).max(pc.min_conf);
    match pc.pos {
        Pos::Iou(thr) => {
            let i = geom::iou(&rbox(&cb), &rbox(&tb));
            let w = i * conf;
            if (w - thr as f64).abs() < MARGIN {
                undecided = true;
            }
            PairW { weight: if w >= thr as f64 { Some(w) } else { None }, undecided }
        }
        Pos::Maha => {
            let Some(st) = &t.kalman else { return PairW { weight: None, undecided: true } };
            let d2 = mahalanobis(st, &cb, pc.pos_w);
            if (d2 - CHI2_5).abs() < MARGIN * 10.0 {
                undecided = true;
            }
            let cost = if d2 > CHI2_5 { 0.0 } else { 100.0 - d2 };
            let w = cost / conf;
            PairW { weight: if w >= 1.0 { Some(w) } else { None }, undecided }
        }
    }
}

/// exact optimum over all injective partial assignments; unmatched = threshold. Returns
/// (best total, second best total over assignments that differ, one best assignment).
pub fn optimum(w: &[Vec<Option<f64>>], thr: f64) -> (f64, f64, Vec<Option<usize>>) {
    let nc = w.len();
    let nt = w.first().map_or(0, |r| r.len());
    let mut best = f64::NEG_INFINITY;
    let mut second = f64::NEG_INFINITY;
    let mut best_a = vec![None; nc];
    let mut cur: Vec<Option<usize>> = vec![None; nc];
    fn rec(c: usize, nc: usize, nt: usize, used: &mut Vec<bool>, cur: &mut Vec<Option<usize>>, val: f64, w: &[Vec<Option<f64>>], thr: f64, best: &mut f64, second: &mut f64, best_a: &mut Vec<Option<usize>>) {
        if c == nc {
            if val > *best {
                *second = *best;
                *best = val;
                *best_a = cur.clone();
            } else if val > *second {
                *second = val;
            }
            return;
        }
        cur[c] = None;
        rec(c + 1, nc, nt, used, cur, val + thr, w, thr, best, second, best_a);
        for t in 0..nt {
            if !used[t] {
                if let Some(x) = w[c][t] {
                    used[t] = true;
                    cur[c] = Some(t);
                    rec(c + 1, nc, nt, used, cur, val + x, w, thr, best, second, best_a);
                    used[t] = false;
                    cur[c] = None;
                }
            }
        }
    }
    let mut used = vec![false; nt];
    rec(0, nc, nt, &mut used, &mut cur, 0.0, w, thr, &mut best, &mut second, &mut best_a);
    (best, second, best_a)
}

pub struct PosVerdict {
    pub violation: Option<(String, String)>,
    pub undecided: bool,
    pub greedy_differs: bool,
}

/// Judge the positional association of one call. `dets`/`recs` restricted to the detections that are
/// associated positionally, `tracks` to the tracks available to them (pre-call state).
pub fn judge_positional(pc: &PosCfg, scene: u64, now: usize, dets: &[&Det], recs: &[&Rec], tracks: &[&Stored]) -> PosVerdict {
    let thr = pc.threshold();
    let mut w: Vec<Vec<Option<f64>>> = vec![vec![None; tracks.len()]; dets.len()];
    let mut undecided = false;
    for (i, d) in dets.iter().enumerate() {
        for (j, t) in tracks.iter().enumerate() {
            match compatible(pc, d, scene, now, t) {
                None => undecided = true,
                Some(false) => {}
                Some(true) => {
                    let pw = pair_weight(pc, d, t);
                    undecided |= pw.undecided;
                    w[i][j] = pw.weight;
                }
            }
        }
    }
    let (best, second, best_a) = optimum(&w, thr);
    // implementation's association
    let mut total = 0.0;
    let mut used = vec![false; tracks.len()];
    let mut imp_a: Vec<Option<usize>> = vec![];
    for (i, r) in recs.iter().enumerate() {
        match tracks.iter().position(|t| t.id == r.id) {
            None => {
                total += thr;
                imp_a.push(None);
            }
            Some(j) => {
                imp_a.push(Some(j));
                if used[j] {
                    return PosVerdict { violation: Some(("association/track-twice".into(), format!("track {} continued by two detections", r.id))), undecided, greedy_differs: false };
                }
                used[j] = true;
                match w[i][j] {
                    Some(x) => total += x,
                    None => {
                        if undecided {
                            return PosVerdict { violation: None, undecided: true, greedy_differs: false };
                        }
                        let t = tracks[j];
                        let why = if t.scene != scene {
                            "other-scene"
                        } else if now.saturating_sub(t.last_epoch) > pc.max_idle {
                            "expired-track"
                        } else if compatible(pc, dets[i], scene, now, t) == Some(false) {
                            "constraint-violated"
                        } else {
                            "ungated-pair"
                        };
                        return PosVerdict { violation: Some((format!("association/continued-{why}"), format!("detection {i} continued track {} although the pair does not pass the gate (epoch gap {}, weight below the threshold or out of reach)", r.id, now.saturating_sub(t.last_epoch)))), undecided, greedy_differs: false };
                    }
                }
            }
        }
    }
    // row-wise greedy for the vacuity statistic
    let mut g_used = vec![false; tracks.len()];
    let mut greedy: Vec<Option<usize>> = vec![];
    for i in 0..dets.len() {
        let mut bj = None;
        let mut bw = thr;
        for j in 0..tracks.len() {
            if !g_used[j] {
                if let Some(x) = w[i][j] {
                    if x > bw {
                        bw = x;
                        bj = Some(j);
                    }
                }
            }
        }
        if let Some(j) = bj {
            g_used[j] = true;
        }
        greedy.push(bj);
    }
    let greedy_differs = greedy != best_a;
    if undecided || (best - second).abs() < MARGIN {
        // ties / near ties: any optimum is accepted
        if total < best - MARGIN * 4.0 && !undecided {
            return PosVerdict { violation: Some(("association/not-maximum-weight".into(), format!("total weight {total:.6}, optimum {best:.6} (assignment {imp_a:?}, an optimum {best_a:?})"))), undecided, greedy_differs };
        }
        return PosVerdict { violation: None, undecided: true, greedy_differs };
    }
    if total < best - MARGIN {
        let key = if imp_a == greedy { "association/greedy-not-optimal" } else { "association/not-maximum-weight" };
        return PosVerdict { violation: Some((key.into(), format!("total weight {total:.6}, optimum {best:.6} (assignment {imp_a:?}, optimum {best_a:?}, weights {w:?})"))), undecided, greedy_differs };
    }
    PosVerdict { violation: None, undecided: false, greedy_differs }
}
