//! C08 — oriented-box intersection / IoU exact; too_far sound. Engine C: complete grids of box pairs.

use crate::common::*;
use crate::geom::{self, RBox};
use serde_json::json;
use similari::track::ObservationAttributes;
use similari::trackers::visual_sort::observation_attributes::VisualObservationAttributes;
use similari::utils::bbox::{BoundingBox, Universal2DBox};
use std::f32::consts::PI;
use std::sync::atomic::{AtomicU64, Ordering};

fn mkbox(xc: f32, yc: f32, a: Option<f32>, w: f32, h: f32) -> Universal2DBox {
    Universal2DBox::new(xc, yc, a, w / h, h)
}

fn norm_angle(a: Option<f32>) -> f64 {
    let t = 2.0 * std::f64::consts::PI;
    let mut x = a.unwrap_or(0.0) as f64 % t;
    if x < 0.0 {
        x += t;
    }
    x
}

/// shape class of a pair, used as the violation key so that findings are identified by shape
fn shape(a: &Universal2DBox, b: &Universal2DBox) -> &'static str {
    let (x, y) = (norm_angle(a.angle), norm_angle(b.angle));
    let half = std::f64::consts::PI / 2.0;
    let d = (x - y).abs() % half;
    let parallel = d < 1e-6 || (half - d) < 1e-6;
    let axis = (x % half) < 1e-6 || (half - x % half) < 1e-6;
    if parallel && !axis {
        "parallel-edges-rotated"
    } else if parallel {
        "parallel-edges-axis-aligned"
    } else {
        "general-position"
    }
}

struct Ctx<'a> {
    rep: &'a Report,
    evals: AtomicU64,
    nontrivial: AtomicU64,
    undecided: AtomicU64,
}

fn bj(b: &Universal2DBox) -> serde_json::Value {
    json!({"xc":b.xc,"yc":b.yc,"angle":b.angle,"aspect":b.aspect,"height":b.height})
}

fn check_pair(ctx: &Ctx, a: &Universal2DBox, b: &Universal2DBox, deep: bool) {
    ctx.evals.fetch_add(1, Ordering::Relaxed);
    let (ra, rb) = (RBox::from_u(a), RBox::from_u(b));
    let ref_i = geom::inter_area(&ra, &rb);
    let amax = ra.area().max(rb.area());
    let amin = ra.area().min(rb.area());
    let tol_area = 1e-7 * amax + 1e-12;
    let margin = 1e-6 * amin; // decisions (overlap or not) asserted only outside this band
    let sh = shape(a, b);
    let viol = |site: &str, what: String| {
        ctx.rep.violation(Violation {
            key: format!("{site}/{sh}"),
            what,
            replay: json!({"a":bj(a),"b":bj(b)}),
        });
    };
    if ref_i > margin {
        ctx.nontrivial.fetch_add(1, Ordering::Relaxed);
    }
    let lib_i = Universal2DBox::intersection(a, b);
    if !(lib_i.is_finite()) || (lib_i - ref_i).abs() > tol_area {
        viol("intersection/area", format!("intersection {lib_i:e}, reference {ref_i:e}"));
    }
    let lib_i2 = Universal2DBox::intersection(b, a);
    if !(lib_i2.is_finite()) || (lib_i2 - ref_i).abs() > tol_area {
        viol("intersection/area", format!("intersection (swapped) {lib_i2:e}, reference {ref_i:e}"));
    }
    let iou_ab = Universal2DBox::calculate_metric_object(&Some(a), &Some(b));
    let iou_ba = Universal2DBox::calculate_metric_object(&Some(b), &Some(a));
    let ref_iou = geom::iou(&ra, &rb);
    for (name, v) in [("ab", iou_ab), ("ba", iou_ba)] {
        match v {
            None => {
                if ref_i > margin {
                    viol("iou/absent-but-overlapping", format!("IoU({name}) absent, reference intersection {ref_i:e}"));
                }
            }
            Some(x) => {
                // the reference (0) sits exactly on the decision boundary of "absent iff disjoint": a
                // noise-level positive value is accepted either way (policy: decisions only by margin);
                // anything larger is already reported by the area comparison above
                if ref_i == 0.0 && geom::inter_area(&grow(&ra, 1e-6), &grow(&rb, 1e-6)) == 0.0 {
                    // disjoint by a margin (the boxes grown by 1e-6 still have nothing in common): "absent exactly when
                    // the boxes do not overlap" - a value, even 0, is not absent
                    viol("iou/present-but-disjoint", format!("IoU({name}) = {x:e} for boxes that have nothing in common (also when grown by 1e-6)"));
                } else if ref_i == 0.0 {
                    ctx.undecided.fetch_add(1, Ordering::Relaxed);
                }
                if !(x >= 0.0 && x <= 1.0 + 1e-6) || !x.is_finite() {
                    viol("iou/range", format!("IoU({name}) = {x}"));
                }
                if ref_i > margin && (x as f64 - ref_iou).abs() > 2e-6 + 1e-6 * ref_iou {
                    viol("iou/value", format!("IoU({name}) = {x}, reference {ref_iou}"));
                }
            }
        }
    }
    if let (Some(x), Some(y)) = (iou_ab, iou_ba) {
        if (x - y).abs() > 1e-6 {
            viol("iou/asymmetric", format!("{x} vs {y}"));
        }
    } else if iou_ab.is_some() != iou_ba.is_some() && ref_i > margin {
        viol("iou/asymmetric", format!("{iou_ab:?} vs {iou_ba:?}"));
    } else if iou_ab.is_some() != iou_ba.is_some() {
        ctx.undecided.fetch_add(1, Ordering::Relaxed);
    }
    // too_far must not reject overlapping boxes
    if ref_i > margin && (Universal2DBox::too_far(a, b) || Universal2DBox::too_far(b, a)) {
        viol("too_far/rejects-overlap", format!("too_far = true, reference intersection {ref_i:e}"));
    }
    // the public clipping method (no bounding-circle shortcut in front of it): polygon of the overlap
    let poly = a.clone().sutherland_hodgman_clip(b.clone());
    // relative to the first vertex: shoelace on absolute coordinates of 1e4 loses 8 digits
    let o = poly.exterior().0.first().map(|c| (c.x, c.y)).unwrap_or((0.0, 0.0));
    let pts: Vec<(f64, f64)> = poly.exterior().0.iter().map(|c| (c.x - o.0, c.y - o.1)).collect();
    let parea = if pts.len() >= 4 { geom::shoelace(&pts[..pts.len() - 1]).abs() } else { 0.0 };
    if !parea.is_finite() || (parea - ref_i).abs() > tol_area {
        viol("clip-method/area", format!("area of a.sutherland_hodgman_clip(b) {parea:e}, reference {ref_i:e}"));
    }
    if !deep {
        return;
    }
    // the visual observation attributes use the same computation
    let va = VisualObservationAttributes::new(1.0, a.clone());
    let vb = VisualObservationAttributes::new(0.5, b.clone());
    let v = VisualObservationAttributes::calculate_metric_object(&Some(&va), &Some(&vb));
    if v.map(|x| x.to_bits()) != iou_ab.map(|x| x.to_bits()) {
        viol("iou/visual-attrs-differ", format!("{v:?} vs {iou_ab:?}"));
    }
    // closed form for unrotated boxes
    if a.angle.is_none() && b.angle.is_none() {
        let (ba, bb) = (BoundingBox::try_from(a).unwrap(), BoundingBox::try_from(b).unwrap());
        let cf = BoundingBox::calculate_metric_object(&Some(&ba), &Some(&bb)).unwrap() as f64;
        let exp = if ref_i > 0.0 { ref_iou } else { 0.0 };
        // the closed form works on f32 left/top/width/height: resolution ulp(coordinate) / box size
        let cmag = (a.xc.abs().max(a.yc.abs()).max(b.xc.abs()).max(b.yc.abs())) as f64 + ra.w.max(ra.h).max(rb.w).max(rb.h);
        let cf_tol = 1e-5 + 16.0 * ulp32(cmag) / ra.w.min(ra.h).min(rb.w).min(rb.h);
        if (cf - exp).abs() > cf_tol {
            viol("iou/closed-form", format!("axis-aligned closed form {cf}, reference {exp}"));
        }
        if let Some(x) = iou_ab {
            if (x as f64 - cf).abs() > cf_tol {
                viol("iou/closed-form-vs-general", format!("closed form {cf}, general {x}"));
            }
        }
    }
    // joint translation by exactly representable amounts: unchanged
    for (tx, ty) in [(1024.0f32, -512.0f32), (8192.0, 8192.0)] {
        let ta = Universal2DBox::new(a.xc + tx, a.yc + ty, a.angle, a.aspect, a.height);
        let tb = Universal2DBox::new(b.xc + tx, b.yc + ty, b.angle, b.aspect, b.height);
        if (ta.xc - tx != a.xc) || (ta.yc - ty != a.yc) || (tb.xc - tx != b.xc) || (tb.yc - ty != b.yc) {
            continue; // not exactly representable
        }
        let t = Universal2DBox::calculate_metric_object(&Some(&ta), &Some(&tb));
        match (t, iou_ab) {
            (Some(x), Some(y)) => {
                if (x - y).abs() > 1e-5 {
                    viol("iou/translation-variant", format!("{y} -> {x} after translation by ({tx},{ty})"));
                }
            }
            (None, None) => {}
            _ => {
                if ref_i > 1e-4 * amin {
                    viol("iou/translation-variant", format!("{iou_ab:?} -> {t:?} after translation by ({tx},{ty})"));
                } else {
                    ctx.undecided.fetch_add(1, Ordering::Relaxed);
                }
            }
        }
    }
    // joint rotation about the origin
    for phi in [0.3f64, std::f64::consts::FRAC_PI_2, 2.0] {
        let rot = |u: &Universal2DBox| {
            let (s, c) = phi.sin_cos();
            let (x, y) = (u.xc as f64, u.yc as f64);
            Universal2DBox::new(
                (x * c - y * s) as f32,
                (x * s + y * c) as f32,
                Some((u.angle.unwrap_or(0.0) as f64 + phi) as f32),
                u.aspect,
                u.height,
            )
        };
        let (qa, qb) = (rot(a), rot(b));
        let t = Universal2DBox::calculate_metric_object(&Some(&qa), &Some(&qb));
        let dist = ((a.xc * a.xc + a.yc * a.yc).sqrt().max((b.xc * b.xc + b.yc * b.yc).sqrt())) as f64;
        // rounding of the rotated centres / angles to f32 moves the boxes by ~ulp(dist) + radius*ulp(angle)
        let moved = 4.0 * ulp32(dist.max(1.0)) + ra.radius().max(rb.radius()) * 4.0 * ulp32(7.0);
        let tol = 8.0 * moved * (ra.w + ra.h + rb.w + rb.h) / (ra.area() + rb.area() - ref_i) + 2e-6;
        match (t, iou_ab) {
            (Some(x), Some(y)) => {
                if (x - y).abs() as f64 > tol {
                    viol("iou/rotation-variant", format!("{y} -> {x} after joint rotation by {phi} (tol {tol:e})"));
                }
            }
            (None, None) => {}
            _ => {
                if ref_i > 8.0 * moved * (ra.w + ra.h + rb.w + rb.h) + margin {
                    viol("iou/rotation-variant", format!("{iou_ab:?} -> {t:?} after joint rotation by {phi}"));
                } else {
                    ctx.undecided.fetch_add(1, Ordering::Relaxed);
                }
            }
        }
    }
}

fn grow(r: &RBox, rel: f64) -> RBox {
    RBox { w: r.w * (1.0 + rel), h: r.h * (1.0 + rel), ..*r }
}

pub fn run(tier: Tier) -> Report {
    let rep = Report::new("C08", tier);
    rep.set_rule("[also: area of the polygon returned by the public method a.sutherland_hodgman_clip(b) for every pair] box pairs = centre offsets on a dyadic lattice (quick 21x21 step 0.5, thorough 41x41 step 0.25) x (w,h) in sizes^2 for both boxes x angle menu for both boxes, plus identical / nested / edge-sharing / touching families, plus the same pairs far from the origin (1e4), plus boxes a few units across at map coordinates (4e5 .. 1e7, offsets in multiples of the f32 grid spacing there), plus 400 pairs x 36 preparations in which a box had its polygon generated (gen_vertices) and was then moved / turned / resized in place or cloned (must equal freshly constructed boxes bit for bit); every pair: intersection area and IoU against an independent f64 convex clipper (closed form when axis-aligned), range, symmetry, identity, absent iff disjoint, too_far soundness, joint translation / rotation invariance, axis-aligned closed form. Non-trivial = reference intersection positive by margin.");
    rep.assume("reference clipper engine/src/geom.rs; overlap decisions asserted only when the reference area exceeds 1e-6 of the smaller box");
    let ctx = Ctx { rep: &rep, evals: AtomicU64::new(0), nontrivial: AtomicU64::new(0), undecided: AtomicU64::new(0) };
    let angles: Vec<Option<f32>> = {
        let mut a = vec![None, Some(0.0), Some(PI / 6.0), Some(PI / 4.0), Some(PI / 2.0), Some(PI), Some(2.0 * PI + PI / 6.0), Some(-PI / 3.0)];
        if tier == Tier::Thorough {
            a.extend([Some(0.5236f32), Some(1.0), Some(-7.0), Some(3.0 * PI / 2.0)]);
        }
        a
    };
    let sizes: Vec<f32> = tier.pick(vec![1.0, 2.0, 5.0], vec![0.5, 1.0, 2.0, 5.0]);
    let (nlat, step) = tier.pick((21i32, 0.5f32), (41i32, 0.25f32));
    let mut shapes: Vec<(f32, f32, Option<f32>)> = vec![];
    for &w in &sizes {
        for &h in &sizes {
            for &a in &angles {
                shapes.push((w, h, a));
            }
        }
    }
    let ns = shapes.len();
    let nl = (nlat * nlat) as usize;
    par_for(ns * ns, 1, |k| {
        let (sa, sb) = (shapes[k / ns], shapes[k % ns]);
        let a = mkbox(0.0, 0.0, sa.2, sa.0, sa.1);
        for l in 0..nl {
            let ox = ((l as i32 % nlat) - nlat / 2) as f32 * step;
            let oy = ((l as i32 / nlat) - nlat / 2) as f32 * step;
            let b = mkbox(ox, oy, sb.2, sb.0, sb.1);
            // deep checks (invariances) on a sub-lattice to bound the cost
            let deep = (l % 7 == 0) || tier == Tier::Thorough && l % 3 == 0;
            check_pair(&ctx, &a, &b, deep);
        }
    });
    // the same shapes far from the origin (coordinates up to 1e4), sub-lattice
    par_for(ns * ns, 1, |k| {
        let (sa, sb) = (shapes[k / ns], shapes[k % ns]);
        for (cx, cy) in [(1e4f32, 1e4f32), (-8192.0, 4096.0)] {
            let a = mkbox(cx, cy, sa.2, sa.0, sa.1);
            for l in (0..nl).step_by(5) {
                let ox = ((l as i32 % nlat) - nlat / 2) as f32 * step;
                let oy = ((l as i32 / nlat) - nlat / 2) as f32 * step;
                let b = mkbox(cx + ox, cy + oy, sb.2, sb.0, sb.1);
                check_pair(&ctx, &a, &b, false);
            }
        }
    });
    // map / mosaic coordinates: boxes a few units across at coordinates of 4e5 .. 1e7 (the f32 grid there is
    // 0.03 .. 1 wide: box edges do not lie on it, so every intermediate has to be taken in f64); offsets are
    // multiples of the grid spacing
    for &(cx, cy, sp) in &[(1e7f32, 1e7f32, 1.0f32), (448250.0, 5411900.0, 0.5), (-2097152.0, 1048576.0, 0.25)] {
        for &(w, h) in &[(3.0f32, 3.0f32), (1.5, 4.5), (6.0, 2.0)] {
            for &aa in &[None, Some(0.0f32), Some(0.3)] {
                for &ba in &[None, Some(0.0f32), Some(-0.5)] {
                    let a = mkbox(cx, cy, aa, w, h);
                    for i in -3..=3i32 {
                        for j in -3..=3i32 {
                            let b = mkbox(cx + i as f32 * sp, cy + j as f32 * sp, ba, w, h);
                            check_pair(&ctx, &a, &b, false);
                            let b2 = mkbox(cx + i as f32 * sp, cy + j as f32 * sp, ba, h, w);
                            check_pair(&ctx, &a, &b2, false);
                        }
                    }
                }
            }
        }
    }
    // families: identical, nested, edge-sharing, touching; sizes 0.1 .. 1e3
    let fam_sizes: Vec<f32> = vec![0.1, 1.0, 37.5, 1000.0];
    let fam_angles: Vec<Option<f32>> = vec![None, Some(0.0), Some(PI / 6.0), Some(0.5236), Some(PI / 4.0), Some(PI / 2.0), Some(1.0), Some(-PI / 3.0), Some(2.0 * PI + PI / 6.0), Some(2.678_774_8)];
    for &w in &fam_sizes {
        for &h in &fam_sizes {
            for &ang in &fam_angles {
                for &(cx, cy) in &[(0.0f32, 0.0f32), (100.5, -20.25), (8044.315, 8011.0454)] {
                    let a = mkbox(cx, cy, ang, w, h);
                    // identical: IoU == 1
                    ctx.evals.fetch_add(1, Ordering::Relaxed);
                    match Universal2DBox::calculate_metric_object(&Some(&a), &Some(&a.clone())) {
                        Some(x) if (x - 1.0).abs() <= 1e-5 => {}
                        other => rep.violation(Violation {
                            key: format!("iou/identical-not-1/{}", shape(&a, &a)),
                            what: format!("IoU of identical boxes = {other:?}"),
                            replay: json!({"a":bj(&a),"b":bj(&a)}),
                        }),
                    }
                    check_pair(&ctx, &a, &a.clone(), true);
                    let (s, c) = (ang.unwrap_or(0.0) as f64).sin_cos();
                    // along the box's own axes: nested (same centre line), edge sharing, touching, sliding
                    for &(fw, fh) in &[(0.5f32, 0.5f32), (0.5, 1.0), (1.0, 0.5), (2.0, 1.0), (1.0, 2.0), (0.25, 3.0)] {
                        for &(du, dv) in &[(0.0f64, 0.0f64), (0.25, 0.0), (0.5, 0.0), (1.0, 0.0), (0.0, 0.5), (0.0, 1.0), (0.5, 0.5), (1.0, 1.0), (0.75, 0.0), (1.5, 0.0)] {
                            // offsets in units of (w, h) along the rotated axes
                            let ux = du * w as f64;
                            let vy = dv * h as f64;
                            let ox = ux * c - vy * s;
                            let oy = ux * s + vy * c;
                            let b = mkbox((cx as f64 + ox) as f32, (cy as f64 + oy) as f32, ang, w * fw, h * fh);
                            check_pair(&ctx, &a, &b, true);
                            // the same with the partner turned by a right angle
                            if let Some(t) = ang {
                                let b2 = mkbox(b.xc, b.yc, Some(t + PI / 2.0), h * fh, w * fw);
                                check_pair(&ctx, &a, &b2, false);
                            }
                        }
                    }
                }
            }
        }
    }
    // prepared-then-changed boxes: a box whose polygon was generated (gen_vertices) and whose geometry was
    // changed in place afterwards (public fields, rotate_mut), or a clone of such a box, must intersect
    // exactly like a freshly constructed box with the same fields
    {
        let prep = |t: &Universal2DBox, how: usize| -> Universal2DBox {
            let fresh = || Universal2DBox::new_with_confidence(t.xc, t.yc, t.angle, t.aspect, t.height, t.confidence);
            match how {
                0 => fresh(),
                1 | 4 => {
                    let mut b = Universal2DBox::new(t.xc + 3.0, t.yc - 2.0, Some(t.angle.unwrap_or(0.0) + 0.1), t.aspect, t.height);
                    b.gen_vertices();
                    b.xc = t.xc;
                    b.yc = t.yc;
                    b.angle = t.angle;
                    if how == 4 {
                        b.clone()
                    } else {
                        b
                    }
                }
                2 => {
                    let mut b = Universal2DBox::new(t.xc, t.yc, Some(t.angle.unwrap_or(0.0) + 0.7), t.aspect, t.height);
                    b.gen_vertices();
                    match t.angle {
                        Some(a) => b.rotate_mut(a),
                        None => b.angle = None,
                    }
                    b
                }
                3 => {
                    let mut b = Universal2DBox::new(t.xc, t.yc, Some(t.angle.unwrap_or(0.0) + 1e-3), t.aspect * 0.5, t.height * 2.0);
                    b.gen_vertices();
                    b.aspect = t.aspect;
                    b.height = t.height;
                    b.angle = t.angle;
                    b
                }
                _ => {
                    let mut b = fresh();
                    b.gen_vertices();
                    b
                }
            }
        };
        let pangles: Vec<Option<f32>> = vec![None, Some(0.0), Some(PI / 6.0), Some(-PI / 3.0), Some(PI / 2.0)];
        let psizes: Vec<(f32, f32)> = vec![(2.0, 1.0), (1.0, 5.0)];
        let poffs: Vec<(f32, f32)> = vec![(0.0, 0.0), (0.5, 0.5), (1.5, 0.0), (4.0, 4.0)];
        let mut n = 0u64;
        for &aa in &pangles {
            for &(aw, ah) in &psizes {
                for &ba in &pangles {
                    for &(bw, bh) in &psizes {
                        for &(ox, oy) in &poffs {
                            let (ta, tb) = (mkbox(10.0, -4.0, aa, aw, ah), mkbox(10.0 + ox, -4.0 + oy, ba, bw, bh));
                            let bits = |x: Option<f32>| x.map(f32::to_bits);
                            let base_i = Universal2DBox::intersection(&ta, &tb);
                            let base_iou = Universal2DBox::calculate_metric_object(&Some(&ta), &Some(&tb));
                            let base_far = Universal2DBox::too_far(&ta, &tb);
                            for ha in 0..6usize {
                                for hb in 0..6usize {
                                    let (a, b) = (prep(&ta, ha), prep(&tb, hb));
                                    n += 1;
                                    let i = Universal2DBox::intersection(&a, &b);
                                    let iou = Universal2DBox::calculate_metric_object(&Some(&a), &Some(&b));
                                    let far = Universal2DBox::too_far(&a, &b);
                                    let va = VisualObservationAttributes::new(1.0, a.clone());
                                    let vb = VisualObservationAttributes::new(1.0, b.clone());
                                    let viou = VisualObservationAttributes::calculate_metric_object(&Some(&va), &Some(&vb));
                                    if i.to_bits() != base_i.to_bits() || bits(iou) != bits(base_iou) || far != base_far || bits(viou) != bits(base_iou) {
                                        rep.violation(Violation {
                                            key: "intersection/prepared-then-changed-box".into(),
                                            what: format!("a box whose polygon was generated before its geometry was changed in place (preparation {ha} / {hb}; 1 moved, 2 turned, 3 resized, 4 clone of a moved one, 5 generated and left alone): intersection {i} IoU {iou:?} / {viou:?} too_far {far}, freshly constructed boxes with the same fields: {base_i} {base_iou:?} {base_far}"),
                                            replay: json!({"a":bj(&ta),"b":bj(&tb),"preparation":[ha,hb]}),
                                        });
                                    }
                                }
                            }
                        }
                    }
                }
            }
        }
        ctx.evals.fetch_add(n, Ordering::Relaxed);
        rep.extra("prepared_then_changed_pairs", json!(n));
    }
    let e = ctx.evals.load(Ordering::Relaxed);
    rep.add(e, e, e, e);
    rep.distinct_count(ctx.nontrivial.load(Ordering::Relaxed));
    rep.extra("undecided_by_margin", json!(ctx.undecided.load(Ordering::Relaxed)));
    rep.extra("pairs_with_positive_reference_overlap", json!(ctx.nontrivial.load(Ordering::Relaxed)));
    let a = mkbox(0.0, 0.0, Some(PI / 6.0), 2.0, 1.0);
    let b = mkbox(0.5, 0.5, Some(-PI / 3.0), 1.0, 5.0);
    rep.sample(json!({"a":bj(&a),"b":bj(&b),"iou":Universal2DBox::calculate_metric_object(&Some(&a), &Some(&b)),"reference":geom::iou(&RBox::from_u(&a), &RBox::from_u(&b))}));
    rep
}
