//! C05 — tracking results are independent of shard count and thread schedule.
//! (1) configurations: shard counts 2..8 vs 1 under the default schedule (c04::run_c05_configs);
//! (2) schedules: engine B, every command-level schedule of the store workers during each call.

use super::c04::{same_records, transcript, Call};
use super::trk::*;
use crate::common::*;
use crate::sched::{self, Guarded};
use serde_json::json;
use std::collections::{BTreeMap, BTreeSet};
use std::sync::{Arc, Mutex};

fn lists() -> Vec<Vec<Det>> {
    vec![
        vec![p(), q().feat(&fb(), 0.9)],                                      // two objects appear
        vec![p1().feat(&fa(), 0.9), q().shift(2.0, 0.0), s().shift(40.0, 0.0)], // both continue, a third appears
        vec![p2().shift(-2.0, 0.0), q().shift(-60.0, 0.0)],                   // objects approach each other
        vec![q().shift(-93.0, 1.0), p2().shift(-1.0, 2.0).feat(&fa1(), 0.8)],  // crossing pair, order swapped
        vec![p1()],
        // a dense cluster: every detection overlaps every track, several per shard
        vec![p(), p().shift(2.0, 1.0), p().shift(4.0, 3.0), p().shift(1.0, 5.0)],
        vec![p().shift(0.5, 0.5), p().shift(2.5, 1.5), p().shift(4.5, 3.5), p().shift(1.5, 5.5)],
        // 7-9: three objects whose looks are mutually admissible under a wide visual threshold: every
        // detection of the third frame has appearance votes for every track, from workers of different shards
        vec![p().feat(&look(0.0, 0.0), 0.9), q().feat(&look(0.9, 0.1), 0.9), s().shift(40.0, 0.0).feat(&look(0.2, 0.8), 0.9)],
        vec![p1().feat(&look(0.1, 0.05), 0.8), q().shift(1.0, 0.0).feat(&look(0.8, 0.2), 0.8), s().shift(41.0, 0.0).feat(&look(0.3, 0.7), 0.8)],
        vec![p().shift(2.0, 1.0).feat(&look(0.42, 0.12), 0.9), q().shift(2.0, 0.0).feat(&look(0.55, 0.3), 0.9), s().shift(42.0, 0.0).feat(&look(0.33, 0.45), 0.9)],
        // 10-11: a NEAR tie that is not a tie (IoU threshold 0.05): tracks X, Z, Y; detection A overlaps X (.818) and Y
        // (.667), detection B overlaps X (.521), Y (.369) and weakly Z (.061); the assignment A->Y, B->X beats
        // A->X, B->Y by 1.4e-5 of total weight - fourteen times the resolution of the voting weights. Z lives in a
        // shard where only B has something to compare with, so B's first distance can arrive before A's
        vec![Det::ltwh(0.0, 0.0, 10.0, 10.0), Det::ltwh(8.5, 7.0, 10.0, 10.0), Det::ltwh(3.0, 0.0, 10.0, 10.0)],
        vec![Det::ltwh(1.0, 0.0, 10.0, 10.0), Det::ltwh(0.4891468, 2.8, 10.0, 10.0)],
    ]
}

fn look(x: f32, y: f32) -> Vec<f32> {
    vec![x, y, 0.25, 0.0, 0.0, 0.0, 0.0, 0.0]
}

#[derive(Clone, Debug, PartialEq)]
struct Obs {
    recs: Vec<Vec<Rec>>,
    dumps: Vec<Vec<Stored>>,
}

fn run(cfg: &TrkCfg, ls: &[Vec<Det>], h: &[Call]) -> Obs {
    let mut t = Guarded::new(AnyTrk::new(cfg));
    let mut recs = vec![];
    let mut dumps = vec![];
    for (k, (s, l)) in h.iter().enumerate() {
        sched::set_phase(k as u32 + 1);
        recs.push(t.predict(*s, &ls[*l]));
        sched::set_phase(100);
        dumps.push(t.all_stored(false, cfg.shards));
    }
    Obs { recs, dumps }
}

pub fn run_check(tier: Tier) -> Report {
    let rep = Report::new("C05", tier);
    rep.set_rule("(1) every history of depth <= 3 (Sort: 3 quick / 4 thorough) over predict(scene in {0,5}, one of 7 tie-free lists) for shard counts 2..8 against the 1-shard transcript (ids included for the simple trackers), plus a contention family (two overlapping tracks, two detections that prefer the same track so that one falls back to its second choice, 4 id layouts x 30 position pairs, shards 2..5) and an expiry family (every history of <= 4 (5) operations from predict x3 / predict [] / skip / wasted() / idle() containing a skip or an empty frame and a listing - the idle list then holds tracks of several shards -, shards 2, 3, 4, 8: more shards than tracks); (2) for Sort and VisualSort with 2 and 3 shards, IoU and Mahalanobis, histories of three calls with 2-3 detections (appearing, continuing, approaching, crossing objects; for VisualSort also three objects with mutually admissible looks under a wide visual threshold, so that appearance votes for one track arrive from several workers in schedule-dependent order; for Sort also a near tie - two assignments 1.4e-5 apart in total weight - whose rows reach the voting in schedule-dependent order): every schedule of the store workers and the caller at command granularity within each call in turn (window = one call; 3 shards: preemption bound 2 quick / 3 thorough; thorough also 4 shards at bound 2), plus a fine tier branching at every synchronisation operation with at most 2 (thorough 3) departures from the default schedule; oracle: records and the canonical store dump after every call equal the 1-shard default-schedule reference. states = executions.");
    rep.assume("windows are joined by checked state equality: the dump after each call is identical under every schedule, so later windows are explored from the default-schedule representative");
    super::c04::run_c05_configs(&rep, tier);

    let ls = Arc::new(lists());
    let histories: Vec<Vec<Call>> = vec![vec![(0, 0), (0, 1), (0, 3)], vec![(0, 0), (0, 2), (0, 3)], vec![(0, 1), (5, 0), (0, 2)], vec![(0, 4), (0, 1), (0, 2)], vec![(0, 5), (0, 6)], vec![(0, 7), (0, 8), (0, 9)], vec![(0, 10), (0, 11)]];
    let mut scen = BTreeMap::new();
    let mut total = 0u64;
    for kind in [Kind::Sort, Kind::VisualSort] {
        for pos in [Pos::Iou(0.3), Pos::Maha] {
            for shards in [2usize, 3, 4] {
                for (hi, h) in histories.iter().enumerate() {
                    if shards == 4 && (tier == Tier::Quick || hi > 1) {
                        continue;
                    }
                    // history 5 is the appearance-contest history: VisualSort with a wide visual threshold only
                    if hi == 5 && (kind != Kind::VisualSort || pos != Pos::Iou(0.3) || shards == 4 || shards == 3 && tier == Tier::Quick) {
                        continue;
                    }
                    // history 6 is the near-tie history: Sort with IoU threshold 0.05 only
                    if hi == 6 && (kind != Kind::Sort || pos != Pos::Iou(0.3) || shards == 4) {
                        continue;
                    }
                    if hi != 5 && hi != 6 && tier == Tier::Quick && (hi >= 2 && hi != 4 && (shards == 3 || pos == Pos::Maha) || hi == 4 && (shards == 3 || pos == Pos::Maha || kind == Kind::VisualSort) || kind == Kind::VisualSort && shards == 3 && hi >= 1) {
                        continue;
                    }
                    if rep.out_of_time() {
                        rep.cap_hit("wall budget reached in the schedule exploration");
                        continue;
                    }
                    let mut cfg = TrkCfg::new(kind);
                    cfg.pos = pos;
                    cfg.shards = shards;
                    cfg.max_idle = 2;
                    if hi == 5 {
                        cfg.vis.metric = Vis::Euclid(1.5);
                    }
                    if hi == 6 {
                        cfg.pos = Pos::Iou(0.05);
                    }
                    let mut ref_cfg = cfg.clone();
                    ref_cfg.shards = 1;
                    let (ls2, h2, rc) = (ls.clone(), h.clone(), ref_cfg.clone());
                    let reference = sched::in_shuttle(move || run(&rc, &ls2, &h2)).unwrap_or_else(|e| machinery_error(&format!("C05 reference run failed: {e}")));
                    let _ = transcript;
                    for window in 1..=h.len() as u32 {
                        let bound = if shards == 2 { usize::MAX / 4 } else if shards == 3 { tier.pick(2, 3) } else { 2 };
                        let ecfg = sched::ExploreCfg { window: (window, window), bound, deadline: Some(std::time::Instant::now() + std::time::Duration::from_secs_f64((rep.budget() - rep.elapsed()).max(1.0))), ..Default::default() };
                        let (ls2, h2, c2) = (ls.clone(), h.clone(), cfg.clone());
                        let orders: Mutex<BTreeSet<u64>> = Mutex::new(BTreeSet::new());
                        let outcomes: Mutex<BTreeSet<u64>> = Mutex::new(BTreeSet::new());
                        let scj = json!({"config":cfg.json(),"history":h,"window_call":window});
                        let stats = sched::explore(&ecfg, move || run(&c2, &ls2, &h2), |x| match &x.outcome {
                            sched::Outcome::Done(o) => {
                                orders.lock().unwrap().insert(hash_of(&x.points.iter().map(|p| p.enabled[p.chosen].0).collect::<Vec<_>>()));
                                let first = outcomes.lock().unwrap().insert(hash_of(&format!("{o:?}")));
                                if !first {
                                    return;
                                }
                                let (mut m, mut rm) = (BTreeMap::new(), BTreeMap::new());
                                for (k, (a, b)) in o.recs.iter().zip(reference.recs.iter()).enumerate() {
                                    if let Err(e) = same_records(a, b, &mut m, &mut rm, true) {
                                        rep.violation(Violation { key: "schedule/records-differ".into(), what: format!("call #{k}: {e}"), replay: json!({"scenario":scj,"schedule":x.schedule_json()}) });
                                        return;
                                    }
                                }
                                if o.dumps != reference.dumps {
                                    rep.violation(Violation { key: "schedule/store-state-differs".into(), what: "canonical store dump after a call differs from the 1-shard default-schedule reference".into(), replay: json!({"scenario":scj,"schedule":x.schedule_json()}) });
                                }
                            }
                            sched::Outcome::Machinery(m) => machinery_error(m),
                            other => rep.violation(Violation { key: "schedule/panic-or-deadlock".into(), what: format!("{other:?}").chars().take(400).collect(), replay: json!({"scenario":scj,"schedule":x.schedule_json()}) }),
                        });
                        total += stats.executions;
                        rep.add(stats.executions, stats.decision_points, stats.executions, 0);
                        if stats.truncated {
                            rep.cap_hit(&format!("{} {:?} shards={shards} history {hi} window {window}: truncated after {} schedules", kind.name(), pos, stats.executions));
                        }
                        scen.insert(format!("{}/{:?}/shards={shards}/h{hi}/call{window}", kind.name(), pos), json!({"schedules":stats.executions,"max_decision_points":stats.max_points,"distinct_worker_orders":orders.lock().unwrap().len(),"distinct_outcomes":outcomes.lock().unwrap().len(),"bound":if shards == 2 { json!("all") } else { json!(bound) },"truncated":stats.truncated}));
                    }
                }
            }
        }
    }
    // fine tier: every synchronisation operation, one preemption, smallest harness
    for kind in [Kind::Sort, Kind::VisualSort] {
        let mut cfg = TrkCfg::new(kind);
        cfg.shards = 2;
        let h: Vec<Call> = vec![(0, 0), (0, 1)];
        let mut ref_cfg = cfg.clone();
        ref_cfg.shards = 1;
        let (ls2, h2) = (ls.clone(), h.clone());
        let reference = sched::in_shuttle(move || run(&ref_cfg, &ls2, &h2)).unwrap_or_else(|e| machinery_error(&format!("C05 reference run failed: {e}")));
        // deviation bound iterated 1, 2 (thorough: 3); each bound inside what is left of the wall budget
        let fine_deadline = std::time::Instant::now() + std::time::Duration::from_secs_f64(((rep.budget() - rep.elapsed()).max(1.0) * 0.5).min(tier.pick(6.0, 400.0)));
        let mut per_bound = vec![];
        for bound in 1..=tier.pick(2usize, 3usize) {
            if std::time::Instant::now() >= fine_deadline {
                break;
            }
            let ecfg = sched::ExploreCfg { mode: sched::Mode::Fine, count_all_deviations: true, window: (2, 2), bound, deadline: Some(fine_deadline), ..Default::default() };
            let (ls2, h2, c2) = (ls.clone(), h.clone(), cfg.clone());
            let scj = json!({"config":cfg.json(),"history":h,"granularity":format!("every synchronisation operation, at most {bound} departures from the default schedule")});
            let reference = &reference;
            let stats = sched::explore(&ecfg, move || run(&c2, &ls2, &h2), |x| match &x.outcome {
                sched::Outcome::Done(o) => {
                    if o.recs != reference.recs || o.dumps != reference.dumps {
                        rep.violation(Violation { key: "schedule/fine-tier-differs".into(), what: "records or store state differ from the reference".into(), replay: json!({"scenario":scj,"schedule":x.schedule_json()}) });
                    }
                }
                sched::Outcome::Machinery(m) => machinery_error(m),
                other => rep.violation(Violation { key: "schedule/panic-or-deadlock".into(), what: format!("{other:?}").chars().take(400).collect(), replay: json!({"scenario":scj,"schedule":x.schedule_json()}) }),
            });
            total += stats.executions;
            rep.add(stats.executions, stats.decision_points, stats.executions, 0);
            per_bound.push(json!({"bound":bound,"schedules":stats.executions,"max_decision_points":stats.max_points,"complete":!stats.truncated}));
            if stats.truncated {
                rep.cap_hit(&format!("fine tier {}: deviation bound {bound} truncated after {} schedules", kind.name(), stats.executions));
                break;
            }
        }
        scen.insert(format!("fine/{}", kind.name()), json!({"bounds":per_bound}));
    }
    rep.distinct_count(total);
    rep.extra("schedule_scenarios", json!(scen));
    rep.sample(json!({"config":"Sort IoU(0.3) shards=2","history":[[0,0],[0,1],[0,3]],"window":"call 2","explored":"all command-level schedules"}));
    rep
}

/// `./check C05 quick --replay <file>`: re-execute one recorded schedule (schedule part only)
pub fn replay(file: &serde_json::Value) -> i32 {
    let r = &file["replay"];
    let sc = &r["scenario"];
    if !sc.is_object() {
        println!("this replay file belongs to the shard-count differential (default schedule): its history is re-run by the full check");
        return run_check(Tier::Quick).finish();
    }
    let Some(cfg) = TrkCfg::from_json(&sc["config"]) else { machinery_error("replay file: cannot parse the tracker configuration") };
    let h: Vec<Call> = sc["history"].as_array().map(|a| a.iter().map(|c| (c[0].as_u64().unwrap_or(0), c[1].as_u64().unwrap_or(0) as usize)).collect()).unwrap_or_default();
    let fine = sc["granularity"].is_string();
    let window = sc["window_call"].as_u64().unwrap_or(2) as u32;
    let choices: Vec<usize> = r["schedule"]["choices"].as_array().map(|a| a.iter().map(|x| x.as_u64().unwrap_or(0) as usize).collect()).unwrap_or_default();
    let ls = Arc::new(lists());
    let mut ref_cfg = cfg.clone();
    ref_cfg.shards = 1;
    let (ls2, h2) = (ls.clone(), h.clone());
    let reference = sched::in_shuttle(move || run(&ref_cfg, &ls2, &h2)).unwrap_or_else(|e| machinery_error(&format!("reference run failed: {e}")));
    let ecfg = sched::ExploreCfg { mode: if fine { sched::Mode::Fine } else { sched::Mode::Macro }, window: (window, window), ..Default::default() };
    let (ls2, h2, c2) = (ls.clone(), h.clone(), cfg.clone());
    let f = Arc::new(move || run(&c2, &ls2, &h2));
    let x = sched::run_one(&ecfg, &choices, &f);
    println!("scenario {sc}\nschedule {}", x.schedule_json());
    match &x.outcome {
        sched::Outcome::Done(o) => {
            if o.recs == reference.recs && o.dumps == reference.dumps {
                println!("the recorded schedule no longer violates the property");
                0
            } else {
                println!("VIOLATION property=C05 replay=(replayed) records or store state differ from the 1-shard reference: {:?} vs {:?}", o.recs, reference.recs);
                1
            }
        }
        sched::Outcome::Machinery(m) => machinery_error(&format!("the recorded schedule does not fit the current code: {m}")),
        o => {
            println!("VIOLATION property=C05 replay=(replayed) {}", format!("{o:?}").chars().take(300).collect::<String>());
            1
        }
    }
}
