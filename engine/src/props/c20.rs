//! C20 — spatio-temporal constraints are a pure, monotone filter. Table part (engine C) here;
//! tracker part (engine A) in trk-based checks.

use super::assoc::*;
use super::trk::*;
use crate::common::*;
use crate::sched::{run_jobs, Guarded};
use serde_json::json;
use std::sync::Arc;
use similari::trackers::spatio_temporal_constraints::SpatioTemporalConstraints;
use std::sync::atomic::{AtomicU64, Ordering};

pub fn run_tables(rep: &Report, tier: Tier) {
    let gaps: Vec<usize> = (0..=8).collect();
    // an infinite limit is a valid way of saying "gaps up to here are unlimited" (and still covers the smaller gaps)
    let limits: Vec<f32> = vec![0.5, 1.0, 2.0, f32::INFINITY];
    let probes_d: Vec<f32> = vec![0.0, 0.25, 0.5, 0.75, 1.0, 1.5, 2.0, 2.5];
    let entries: Vec<(usize, f32)> = gaps.iter().flat_map(|g| limits.iter().map(move |l| (*g, *l))).collect();
    let ne = entries.len();
    let evals = AtomicU64::new(0);
    let nontrivial = AtomicU64::new(0);
    let maxn = tier.pick(3usize, 4usize);
    // ordered tuples of <= maxn entries (every insertion order), split across one or two add calls
    let mut total = 0usize;
    for n in 0..=maxn {
        total += ne.pow(n as u32);
    }
    let _ = total;
    for n in 0..=maxn {
        let cnt = ne.pow(n as u32);
        par_for(cnt, 256, |code| {
            let mut k = code;
            let mut tab: Vec<(usize, f32)> = vec![];
            for _ in 0..n {
                tab.push(entries[k % ne]);
                k /= ne;
            }
            for split in 0..=n {
                if split != n && split != 0 && n > 3 && split != n / 2 {
                    continue;
                }
                let mut c = SpatioTemporalConstraints::new();
                // first call, then second call (first configured limit of a gap wins)
                if split > 0 {
                    c.add_constraints(tab[..split].to_vec());
                }
                if split < n {
                    c.add_constraints(tab[split..].to_vec());
                }
                if n == 0 {
                    c = SpatioTemporalConstraints::default();
                }
                // reference: first configured limit per gap; applicable = smallest configured gap >= d
                let mut first: std::collections::BTreeMap<usize, f32> = Default::default();
                // within one call the sort is stable and dedup keeps the first; across calls the earlier call wins
                for (g, l) in &tab {
                    first.entry(*g).or_insert(*l);
                }
                for gap in 0..=9usize {
                    let lim = first.range(gap..).next().map(|(_, l)| *l);
                    let mut prev = true;
                    for &d in &probes_d {
                        evals.fetch_add(1, Ordering::Relaxed);
                        let got = c.validate(gap, d);
                        let exp = lim.map_or(true, |l| d <= l);
                        if lim.is_some() {
                            nontrivial.fetch_add(1, Ordering::Relaxed);
                        }
                        if got != exp {
                            rep.violation(Violation {
                                key: if n <= 1 { "constraints/validate".into() } else if tab.iter().map(|e| e.0).collect::<std::collections::BTreeSet<_>>().len() < n { "constraints/validate/duplicate-gap".into() } else { "constraints/validate".into() },
                                what: format!("table {tab:?} (split at {split}): validate({gap}, {d}) = {got}, expected {exp} (limit {lim:?})"),
                                replay: json!({"part":"table","table":tab.iter().map(|e| json!([e.0,e.1])).collect::<Vec<_>>(),"split":split,"gap":gap,"dist":d}),
                            });
                        }
                        // monotone: once rejected, larger distances stay rejected
                        if !prev && got {
                            rep.violation(Violation {
                                key: "constraints/not-monotone".into(),
                                what: format!("table {tab:?}: admitted at {d} after rejecting a smaller distance (gap {gap})"),
                                replay: json!({"part":"table","table":tab.iter().map(|e| json!([e.0,e.1])).collect::<Vec<_>>(),"split":split,"gap":gap,"dist":d}),
                            });
                        }
                        prev = got;
                    }
                }
            }
            if rep.want_sample(code as u64) && n == 3 {
                rep.sample(json!({"part":"table","table":tab.iter().map(|e| json!([e.0,e.1])).collect::<Vec<_>>(),"probes":"gap 0..=9 x 8 distances, every split"}));
            }
        });
    }
    let e = evals.load(Ordering::Relaxed);
    rep.add(e, e, e, e);
    rep.distinct_count(nontrivial.load(Ordering::Relaxed));
    rep.extra("table_probes", json!(e));
}

fn frame20(word: &[usize], step: usize) -> Vec<Det> {
    // a fast object: per step still / small hop / half-reach hop / jump beyond reach / missed frame
    let mut x = 0.0f32;
    for d in &word[..=step] {
        x += [0.0f32, 3.5, 11.0, 30.0, 0.0][*d];
    }
    let mut v = vec![Det::ltwh(-300.0, 0.0, 10.0, 20.0).conf(0.9)]; // a static bystander
    if word[step] != 4 {
        v.insert(0, Det::ltwh(x, 0.0, 10.0, 20.0));
    }
    v
}

fn assoc_dist(d: &Det, t: &Stored) -> f64 {
    dist_in_2r(&cand_box(d), t.predicted.last().unwrap())
}

/// The unit in which the limits are expressed: centre distance over the sum of the two circumscribed radii, for
/// pairs of boxes of DIFFERENT shape (a shortcut that is exact for equal aspect ratios shows only there), and the
/// admission decision for limits 2% below / above the true value.
pub fn run_distance_unit(rep: &Report, tier: Tier) {
    use similari::utils::bbox::Universal2DBox;
    let mut boxes: Vec<Universal2DBox> = vec![];
    let aspects: Vec<f32> = tier.pick(vec![0.2, 0.5, 1.5, 4.0], vec![0.1, 0.2, 0.5, 1.0, 1.5, 2.5, 4.0, 8.0]);
    let heights: Vec<f32> = tier.pick(vec![5.0, 12.0, 40.0], vec![1.0, 5.0, 12.0, 40.0, 300.0]);
    for &a in &aspects {
        for &h in &heights {
            for ang in [None, Some(0.4f32), Some(2.0), Some(-1.0)] {
                if ang.is_some() && tier == Tier::Quick && (h == 5.0) {
                    continue;
                }
                boxes.push(Universal2DBox::new(0.0, 0.0, ang, a, h));
            }
        }
    }
    let offsets: [(f32, f32); 6] = [(0.0, 0.0), (3.0, 0.0), (0.0, -7.5), (11.0, 4.0), (-40.0, 55.0), (300.0, 10.0)];
    let n = AtomicU64::new(0);
    par_for(boxes.len(), 1, |i| {
        for r0 in &boxes {
            for &(ox, oy) in &offsets {
                let l = boxes[i].clone();
                let mut r = r0.clone();
                r.xc = ox;
                r.yc = oy;
                n.fetch_add(1, Ordering::Relaxed);
                let got = Universal2DBox::dist_in_2r(&l, &r) as f64;
                let radius = |b: &Universal2DBox| 0.5 * ((b.aspect as f64 * b.height as f64).powi(2) + (b.height as f64).powi(2)).sqrt();
                let rr = radius(&l) + radius(&r);
                let exp = ((ox as f64).powi(2) + (oy as f64).powi(2)).sqrt() / (rr * rr + 1e-5).sqrt();
                let case = || json!({"part":"distance unit","left":[l.xc,l.yc,l.angle,l.aspect,l.height],"right":[r.xc,r.yc,r.angle,r.aspect,r.height]});
                if (got - exp).abs() > 1e-4 * exp.max(1e-3) {
                    rep.violation(Violation { key: "constraints/distance-unit".into(), what: format!("normalised distance {got}, centre distance over the sum of the circumscribed radii is {exp}"), replay: case() });
                    continue;
                }
                if exp > 1e-3 {
                    for (lim, admit) in [(exp * 1.02, true), (exp * 0.98, false)] {
                        let c = SpatioTemporalConstraints::default().constraints(&[(1, lim as f32)]);
                        if c.validate(1, got as f32) != admit {
                            rep.violation(Violation { key: "constraints/admission-at-true-distance".into(), what: format!("true distance {exp}, limit {lim}: admitted = {}", !admit), replay: case() });
                        }
                    }
                }
            }
        }
    });
    let c = n.load(Ordering::Relaxed);
    rep.add(c, c, c, c);
    rep.extra("distance_unit_pairs", json!(c));
}

pub fn run_trackers(rep: &Report, tier: Tier) {
    let tables: Vec<(&str, Option<Vec<(usize, f32)>>, bool)> = vec![
        ("slack", Some(vec![(5, 100.0)]), true),
        ("slack-two-entries", Some(vec![(1, 50.0), (3, 60.0)]), true),
        ("tight-then-looser", Some(vec![(1, 0.1), (2, 0.6)]), false),
        ("gap1-only", Some(vec![(1, 0.3)]), false),
        ("unsorted-duplicate-gap", Some(vec![(2, 0.05), (1, 1.0), (2, 9.0)]), false),
        // entries configured for gaps beyond max_idle (2) are still the applicable limit for every smaller gap
        ("catch-all-beyond-max-idle", Some(vec![(10, 0.3)]), false),
        ("gap1-then-catch-all-beyond-max-idle", Some(vec![(1, 0.9), (7, 0.2)]), false),
        ("slack-beyond-max-idle", Some(vec![(9, 100.0)]), true),
    ];
    let len = tier.pick(5usize, 6usize);
    let words: Arc<Vec<Vec<usize>>> = Arc::new(super::hist::words(5, len));
    let calls = std::sync::atomic::AtomicU64::new(0);
    let blocked = std::sync::atomic::AtomicU64::new(0);
    for kind in [Kind::Sort, Kind::VisualSort] {
        for (pos, kw) in [(Pos::Iou(0.3), (0.05f32, 0.00625f32)), (Pos::Maha, (0.05, 0.00625)), (Pos::Maha, (0.5, 0.1))] {
            if tier == Tier::Quick && kind == Kind::VisualSort && kw.0 < 0.1 && pos == Pos::Maha {
                continue;
            }
            for (tname, table, slack) in &tables {
                if rep.out_of_time() {
                    rep.cap_hit("wall budget reached in the tracker part");
                    return;
                }
                let mut cfg = TrkCfg::new(kind);
                cfg.pos = pos;
                cfg.kalman_w = kw;
                cfg.max_idle = 2;
                cfg.constraints = table.clone();
                let mut free = cfg.clone();
                free.constraints = None;
                let chunk = 16usize;
                let nchunks = (words.len() + chunk - 1) / chunk;
                let (ws, c2, f2, slack2) = (words.clone(), cfg.clone(), free.clone(), *slack);
                let outs = run_jobs(nchunks, move |ci| {
                    let pc = PosCfg::of(&c2);
                    let pc_free = PosCfg::of(&f2);
                    let mut viol: Vec<(Vec<usize>, usize, String, String)> = vec![];
                    let (mut calls, mut blocked) = (0u64, 0u64);
                    for w in &ws[ci * chunk..((ci + 1) * chunk).min(ws.len())] {
                        let mut t = Guarded::new(AnyTrk::new(&c2));
                        let mut u = Guarded::new(AnyTrk::new(&f2));
                        for step in 0..w.len() {
                            let dets = frame20(w, step);
                            let pre = t.all_stored(false, c2.shards);
                            let recs = t.predict(0, &dets);
                            let recs_free = u.predict(0, &dets);
                            calls += 1;
                            let now = step + 1;
                            if slack2 {
                                if recs != recs_free {
                                    viol.push((w.clone(), step, "constraints/slack-table-changes-tracking".into(), format!("with the slack table {recs:?}, without constraints {recs_free:?}")));
                                    break;
                                }
                                continue;
                            }
                            let dr: Vec<&Det> = dets.iter().collect();
                            let rr: Vec<&Rec> = recs.iter().collect();
                            let tr: Vec<&Stored> = pre.iter().collect();
                            let v = judge_positional(&pc, 0, now, &dr, &rr, &tr);
                            if let Some((key, what)) = v.violation {
                                viol.push((w.clone(), step, format!("constraints/{}", key.trim_start_matches("association/")), what));
                                break;
                            }
                            // how often did the table actually remove a pair that was otherwise gated?
                            for d in &dr {
                                for tk in &tr {
                                    if compatible(&pc, d, 0, now, tk) == Some(false) && compatible(&pc_free, d, 0, now, tk) == Some(true) && pair_weight(&pc_free, d, tk).weight.is_some() {
                                        blocked += 1;
                                    }
                                }
                            }
                        }
                    }
                    (viol, calls, blocked)
                });
                for o in outs {
                    match o {
                        Ok((viol, c, b)) => {
                            calls.fetch_add(c, std::sync::atomic::Ordering::Relaxed);
                            blocked.fetch_add(b, std::sync::atomic::Ordering::Relaxed);
                            for (w, step, key, what) in viol {
                                rep.violation(Violation { key, what, replay: json!({"part":"trackers","config":cfg.json(),"table":tname,"word":w,"failing_step":step,"symbols":"0 still, 1 +3.5px, 2 +11px, 3 +30px, 4 missed frame"}) });
                            }
                        }
                        Err(e) => rep.violation(Violation { key: format!("{}/panic-or-deadlock", kind.name()), what: e.chars().take(300).collect(), replay: json!({"part":"trackers","config":cfg.json(),"table":tname}) }),
                    }
                }
            }
        }
    }
    // appearance re-attachment far away: VisualSort / BatchVisualSort with features. The appearance stage has no
    // positional gate, so a limit >= 1 (more than touching bounding circles) is the only thing that keeps a
    // look-alike far away from a track; every continuation is judged against the limit of its epoch gap
    {
        let look = |x: f32| -> Vec<f32> {
            let mut v = vec![0.0f32; 16];
            v[0] = 1.0;
            v[1] = x;
            v
        };
        let jumps = [12.0f32, 30.0, 40.0, 60.0, 100.0, 200.0];
        let vtables: Vec<Vec<(usize, f32)>> = vec![vec![(5, 2.0)], vec![(5, 1.2)], vec![(1, 3.0), (5, 1.5)], vec![(5, 8.0)]];
        let mut vcalls = 0u64;
        let mut far_continuations = 0u64;
        for kind in [Kind::VisualSort, Kind::BatchVisualSort] {
            for table in &vtables {
                for pos in [Pos::Iou(0.3), Pos::Maha] {
                    let mut cfg = TrkCfg::new(kind);
                    cfg.pos = pos;
                    cfg.max_idle = 3;
                    cfg.constraints = Some(table.clone());
                    let pc = PosCfg::of(&cfg);
                    for &j1 in &jumps {
                        for &j2 in &jumps {
                            for miss in [false, true] {
                                // frames: appear, move a little (second feature), [missed frame], jump j1, jump j2 back towards a bystander-free area
                                let mut frames: Vec<Vec<Det>> = vec![
                                    vec![Det::ltwh(0.0, 0.0, 10.0, 20.0).feat(&look(0.0), 0.9), Det::ltwh(-300.0, 0.0, 10.0, 20.0)],
                                    vec![Det::ltwh(2.0, 0.0, 10.0, 20.0).feat(&look(0.05), 0.9), Det::ltwh(-300.0, 0.0, 10.0, 20.0)],
                                ];
                                if miss {
                                    frames.push(vec![Det::ltwh(-300.0, 0.0, 10.0, 20.0)]);
                                }
                                frames.push(vec![Det::ltwh(2.0 + j1, 0.0, 10.0, 20.0).feat(&look(0.1), 0.9), Det::ltwh(-300.0, 0.0, 10.0, 20.0)]);
                                frames.push(vec![Det::ltwh(2.0 + j1, j2, 10.0, 20.0).feat(&look(0.02), 0.9), Det::ltwh(-300.0, 0.0, 10.0, 20.0)]);
                                let c2 = cfg.clone();
                                let pc2 = PosCfg { pos: pc.pos, min_conf: pc.min_conf, max_idle: pc.max_idle, constraints: pc.constraints.clone(), pos_w: pc.pos_w };
                                let fr = frames.clone();
                                let out = crate::sched::in_shuttle(move || {
                                    let mut t = Guarded::new(AnyTrk::new(&c2));
                                    let mut res: Vec<(usize, String, String)> = vec![];
                                    let (mut n, mut far) = (0u64, 0u64);
                                    for (k, dets) in fr.iter().enumerate() {
                                        let pre = t.all_stored(false, c2.shards);
                                        let recs = t.predict(0, dets);
                                        n += 1;
                                        for (r, d) in recs.iter().zip(dets.iter()) {
                                            if let Some(tk) = pre.iter().find(|x| x.id == r.id) {
                                                if assoc_dist(d, tk) > 1.0 {
                                                    far += 1;
                                                }
                                                if compatible(&pc2, d, 0, k + 1, tk) == Some(false) {
                                                    res.push((k, "constraints/continued-constraint-violated".into(), format!("[appearance re-attachment] detection at {:.3} x (R_det + R_track) from track {} (epoch gap {}) was attached; table {:?}", assoc_dist(d, tk), tk.id, (k + 1).saturating_sub(tk.last_epoch), c2.constraints)));
                                                }
                                            }
                                        }
                                    }
                                    (res, n, far)
                                });
                                match out {
                                    Ok((res, n, far)) => {
                                        vcalls += n;
                                        far_continuations += far;
                                        for (k, key, what) in res {
                                            rep.violation(Violation { key, what, replay: json!({"part":"trackers, appearance re-attachment","config":cfg.json(),"jumps":[j1,j2],"missed_frame":miss,"failing_frame":k}) });
                                        }
                                    }
                                    Err(e) => rep.violation(Violation { key: format!("{}/panic-or-deadlock", kind.name()), what: e.chars().take(300).collect(), replay: json!({"part":"trackers, appearance re-attachment","config":cfg.json()}) }),
                                }
                            }
                        }
                    }
                }
            }
        }
        calls.fetch_add(vcalls, std::sync::atomic::Ordering::Relaxed);
        rep.extra("appearance_reattachment_calls", json!(vcalls));
        rep.extra("continuations_beyond_touching_circles_seen", json!(far_continuations));
    }
    let c = calls.load(std::sync::atomic::Ordering::Relaxed);
    rep.add(c, c, c, 0);
    rep.distinct_count(c);
    rep.extra("tracker_calls", json!(c));
    rep.extra("gated_pairs_removed_by_a_binding_table", json!(blocked.load(std::sync::atomic::Ordering::Relaxed)));
    rep.sample(json!({"part":"trackers","table":"tight-then-looser [(1,0.1),(2,0.6)]","word":[1,4,2,0,3]}));
}
