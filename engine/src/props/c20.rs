//! C20 — spatio-temporal constraints are a pure, monotone filter. Table part (engine C) here;
//! tracker part (engine A) in trk-based checks.

use crate::common::*;
use serde_json::json;
use similari::trackers::spatio_temporal_constraints::SpatioTemporalConstraints;
use std::sync::atomic::{AtomicU64, Ordering};

pub fn run_tables(rep: &Report, tier: Tier) {
    let gaps: Vec<usize> = (0..=8).collect();
    let limits: Vec<f32> = vec![0.5, 1.0, 2.0];
    let probes_d: Vec<f32> = vec![0.0, 0.25, 0.5, 0.75, 1.0, 1.5, 2.0, 2.5];
    let entries: Vec<(usize, f32)> = gaps.iter().flat_map(|g| limits.iter().map(move |l| (*g, *l))).collect();
    let ne = entries.len();
    let evals = AtomicU64::new(0);
    let nontrivial = AtomicU64::new(0);
    let maxn = tier.pick(3usize, 4usize);
    // ordered tuples of <= maxn entries (every insertion order), split across one or two add calls
    let mut total = 0usize;
    for n in 0..=maxn {
        total += ne.pow(n as u32);
    }
    let _ = total;
    for n in 0..=maxn {
        let cnt = ne.pow(n as u32);
        par_for(cnt, 256, |code| {
            let mut k = code;
            let mut tab: Vec<(usize, f32)> = vec![];
            for _ in 0..n {
                tab.push(entries[k % ne]);
                k /= ne;
            }
            for split in 0..=n {
                if split != n && split != 0 && n > 3 && split != n / 2 {
                    continue;
                }
                let mut c = SpatioTemporalConstraints::new();
                // first call, then second call (first configured limit of a gap wins)
                if split > 0 {
                    c.add_constraints(tab[..split].to_vec());
                }
                if split < n {
                    c.add_constraints(tab[split..].to_vec());
                }
                if n == 0 {
                    c = SpatioTemporalConstraints::default();
                }
                // reference: first configured limit per gap; applicable = smallest configured gap >= d
                let mut first: std::collections::BTreeMap<usize, f32> = Default::default();
                // within one call the sort is stable and dedup keeps the first; across calls the earlier call wins
                for (g, l) in &tab {
                    first.entry(*g).or_insert(*l);
                }
                for gap in 0..=9usize {
                    let lim = first.range(gap..).next().map(|(_, l)| *l);
                    let mut prev = true;
                    for &d in &probes_d {
                        evals.fetch_add(1, Ordering::Relaxed);
                        let got = c.validate(gap, d);
                        let exp = lim.map_or(true, |l| d <= l);
                        if lim.is_some() {
                            nontrivial.fetch_add(1, Ordering::Relaxed);
                        }
                        if got != exp {
                            rep.violation(Violation {
                                key: if n <= 1 { "constraints/validate".into() } else if tab.iter().map(|e| e.0).collect::<std::collections::BTreeSet<_>>().len() < n { "constraints/validate/duplicate-gap".into() } else { "constraints/validate".into() },
                                what: format!("table {tab:?} (split at {split}): validate({gap}, {d}) = {got}, expected {exp} (limit {lim:?})"),
                                replay: json!({"part":"table","table":tab.iter().map(|e| json!([e.0,e.1])).collect::<Vec<_>>(),"split":split,"gap":gap,"dist":d}),
                            });
                        }
                        // monotone: once rejected, larger distances stay rejected
                        if !prev && got {
                            rep.violation(Violation {
                                key: "constraints/not-monotone".into(),
                                what: format!("table {tab:?}: admitted at {d} after rejecting a smaller distance (gap {gap})"),
                                replay: json!({"part":"table","table":tab.iter().map(|e| json!([e.0,e.1])).collect::<Vec<_>>(),"split":split,"gap":gap,"dist":d}),
                            });
                        }
                        prev = got;
                    }
                }
            }
            if rep.want_sample(code as u64) && n == 3 {
                rep.sample(json!({"part":"table","table":tab.iter().map(|e| json!([e.0,e.1])).collect::<Vec<_>>(),"probes":"gap 0..=9 x 8 distances, every split"}));
            }
        });
    }
    let e = evals.load(Ordering::Relaxed);
    rep.add(e, e, e, e);
    rep.distinct_count(nontrivial.load(Ordering::Relaxed));
    rep.extra("table_probes", json!(e));
}
