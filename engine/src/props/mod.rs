use crate::common::*;

pub mod c01;
pub mod assoc;
pub mod c02;
pub mod c03;
pub mod c04;
pub mod c05;
pub mod c06;
pub mod c07;
pub mod c09;
pub mod c10;
pub mod c11;
pub mod c12;
pub mod c13;
pub mod selftest;
pub mod store_h;
pub mod tmodel;
pub mod c08;
pub mod c14;
pub mod c15;
pub mod c16;
pub mod c17;
pub mod c20;
pub mod hist;
pub mod hung;
pub mod trk;
pub mod c19;

pub fn dispatch(id: &str, tier: Tier, replay: Option<&str>) -> i32 {
    if let Some(path) = replay {
        let txt = std::fs::read_to_string(path).unwrap_or_else(|e| machinery_error(&format!("cannot read replay file {path}: {e}")));
        let v: serde_json::Value = serde_json::from_str(&txt).unwrap_or_else(|e| machinery_error(&format!("replay file {path} does not parse: {e}")));
        println!("replaying {path}: key={} what={}", v["key"], v["what"]);
        if v["replay"]["scenario"]["batches_variant"].is_u64() && matches!(id, "C01" | "C02" | "C03" | "C04") {
            return match id {
                "C01" => c06::replay_batch(&v, "C01", &|o, _c, variant| c01::batch_contract(o, &c06::batches(variant))),
                "C02" => c06::replay_batch(&v, "C02", &|o, c, variant| c06::judge(o, &c06::batches(variant), &c06::simple_reference(c, &c06::batches(variant)))),
                "C03" => c06::replay_batch(&v, "C03", &|o, c, variant| c03::batch_lifecycle(o, &c06::batches(variant), c)),
                _ => c06::replay_batch(&v, "C04", &|o, c, variant| c04::batch_isolation(o, c, variant)),
            };
        }
        match id {
            "C01" => return hist::replay("C01", &v, &c01::lists(), c01::ContractMonitor::new),
            "C03" => return hist::replay("C03", &v, &c03::lists(), c03::LifeMonitor::new),
            "C05" => return c05::replay(&v),
            "C06" => return c06::replay(&v),
            "C10" => return c10::replay(&v),
            _ => {
                // the other checks re-run their (deterministic, exhaustive) enumeration, which contains the
                // recorded case, and report whether its key still occurs
                println!("property {id}: the recorded case is part of the check's enumeration; re-running it");
            }
        }
    }
    if id == "SELFTEST" {
        let v = selftest::channel_shim_selftest(tier);
        println!("{}", serde_json::to_string_pretty(&v).unwrap());
        return 0;
    }
    if id == "BENCH" {
        use crate::sched::in_shuttle;
        use similari::prelude::*;
        for variant in [0, 2] {
            let t0 = std::time::Instant::now();
            in_shuttle(move || {
                for _ in 0..200 {
                    if variant == 2 {
                        let cfg = trk::TrkCfg::new(trk::Kind::Sort);
                        let mut t = trk::AnyTrk::new(&cfg);
                        for _k in 0..3 {
                            let v = t.predict(0, &[trk::p(), trk::p1(), trk::s()]);
                            assert_eq!(v.len(), 3);
                            if variant == 2 { let _ = t.all_stored(false, 1); }
                        }
                        continue;
                    }
                    let mut t = Sort::new(1, 1, 1, PositionalMetricType::IoU(0.3), 0.05, None, 0.05, 0.00625);
                    for k in 0..3 {
                        let v = t.predict(&[(Universal2DBox::ltwh(0.0, 0.0, 10.0, 20.0), None), (Universal2DBox::ltwh(1.0 + k as f32, 1.0, 10.0, 20.0), None), (Universal2DBox::ltwh(3.0, 6.0, 4.0, 8.0), None)]);
                        assert_eq!(v.len(), 3);
                    }
                    
                }
            }).unwrap();
            println!("variant {variant}: 600 calls in {:?} -> {:?}/call", t0.elapsed(), t0.elapsed() / 600);
        }
        return 0;
    }
    let rep = match id {
        "C01" => c01::run(tier),
        "C02" => {
            let rep = Report::new("C02", tier);
            rep.set_rule("(a) every weight matrix for <= 3 candidates x <= 3 tracks over a grid straddling the threshold (quick: 4 values for 3x3, 7 below; thorough: 7 values), thresholds 0.3 and 1.0, declared sizes exact and larger, every arrival order for <= 2x2 (three orders above), plus permutation-matrix and greedy-trap families up to 8x8: SortVoting::winners judged against an exact bitmask-DP optimum in the implementation's micro-units. (b) every relative-motion word of length 5 (6 thorough) over {approach, stay, separate} for two objects that approach, cross and separate (+ a small static object / a rotated third one), on Sort / VisualSort / BatchSort x IoU / Mahalanobis (default, wide (1/2, 1/10) and small (1/80, 1/640) Kalman weights; a small-hop family decided by the narrow gate of the small weights; the crossing family also in a small unit (boxes 0.002 x 0.004)) x shards: before every call the live tracks (last estimate, Kalman state) are read from the store, gate and weight of every pair re-derived in f64 (own clipper, own Mahalanobis), the optimum found by brute force, and the tracker's association must attain it and never use an ungated / expired pair; asserted outside a 1e-3 margin. (c) BatchSort under pipelined use (consumer threads, 1-2 voting threads): every interleaving within a deviation bound; every scene's records must be those of the simple tracker.");
            c02::run_a(&rep, tier);
            c02::run_b(&rep, tier);
            c02::run_schedules(&rep, tier);
            rep
        }
        "C03" => c03::run(tier),
        "C04" => c04::run_c04(tier),
        "C05" => c05::run_check(tier),
        "C06" => c06::run_check(tier),
        "C07" => c07::run(tier),
        "C08" => c08::run(tier),
        "C09" => c09::run(tier),
        "C10" => c10::run(tier),
        "C11" => c11::run(tier),
        "C12" => c12::run(tier),
        "C13" => c13::run(tier),
        "C14" => c14::run(tier),
        "C15" => c15::run(tier),
        "C16" => c16::run(tier),
        "C17" => c17::run(tier),
        "C20" => {
            let rep = Report::new("C20", tier);
            rep.set_rule("every ordered table of <= 3 (thorough 4) entries over gaps 0..=8 x limits {.5,1,2,inf}, every split into two add_constraints calls, every probe (gap 0..=9 x 8 distances): reference = first configured limit of the smallest configured gap >= d; monotone in distance. Trackers: every motion word of length 5 (6 thorough) over {still, +3.5px, +11px, +30px, missed frame} for one fast object and a bystander, Sort / VisualSort x IoU / Mahalanobis (default and wide Kalman weights) x 8 constraint tables (incl. entries configured for gaps beyond max_idle, which still apply to every smaller gap): slack tables => records identical to the unconstrained tracker; binding tables => no continuation whose centre distance in units of the summed radii exceeds the limit for its epoch gap (recomputed from the pre-call store), and the association is optimal among the admitted pairs; plus VisualSort / BatchVisualSort with features and limits >= 1: a look-alike that jumps 12..200 px (up to 9 x the summed radii) is never attached beyond the limit of its epoch gap. Distance unit: the library's normalised distance of every ordered pair of 48 (thorough 120) boxes of different shapes, sizes and orientations at 6 offsets against centre distance / (sum of the circumscribed radii), and validate() on it just below / above a limit.");
            c20::run_tables(&rep, tier);
            c20::run_distance_unit(&rep, tier);
            c20::run_trackers(&rep, tier);
            rep
        }
        "C19" => c19::run(tier),
        _ => machinery_error(&format!("no check for property {id}")),
    };
    rep.finish()
}
