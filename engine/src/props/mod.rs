use crate::common::*;

pub mod c07;
pub mod c19;

pub fn dispatch(id: &str, tier: Tier, replay: Option<&str>) -> i32 {
    let _ = replay;
    let rep = match id {
        "C07" => c07::run(tier),
        "C19" => c19::run(tier),
        _ => machinery_error(&format!("no check for property {id}")),
    };
    rep.finish()
}
