//! Reference model of `Track` semantics for the harness attributes / metric of store_h.rs.
//! Deliberately boring: a `TrackDump` is the state; operations are transactional (clone, operate,
//! commit on success) and consult the same fault plan as the real callbacks.

use super::store_h::*;
use std::collections::BTreeMap;

pub struct MCtx {
    pub plan: FaultPlan,
    /// optimise calls since the plan was armed
    pub opt_seen: u32,
}

impl MCtx {
    pub fn new(plan: FaultPlan) -> Self {
        MCtx { plan, opt_seen: 0 }
    }
}

pub fn m_new(id: u64) -> TrackDump {
    TrackDump {
        id,
        group: 0,
        counter: 0,
        updates: 0,
        merges: 0,
        opt_touched: 0,
        metric_calls: 0,
        obs: BTreeMap::new(),
        history: vec![id],
    }
}

fn m_apply(t: &mut TrackDump, u: &HUpdate, cx: &mut MCtx) -> Result<(), ()> {
    t.updates += 1;
    t.counter = (t.counter + u.add) % 4;
    if let Some(g) = u.group {
        t.group = g;
    }
    if cx.plan.fail_apply {
        return Err(());
    }
    Ok(())
}

fn m_optimize(t: &mut TrackDump, cls: u64, cx: &mut MCtx) -> Result<(), ()> {
    t.metric_calls += 1;
    t.opt_touched += 1;
    let v = t.obs.get_mut(&cls).unwrap();
    let key = |o: &ObsRepr| o.0.map(f32::from_bits).unwrap_or(f32::NEG_INFINITY);
    v.sort_by(|a, b| key(b).partial_cmp(&key(a)).unwrap());
    v.truncate(2);
    cx.opt_seen += 1;
    if cx.plan.fail_optimize_class == Some(cls) || cx.plan.fail_optimize_kth == Some(cx.opt_seen) {
        return Err(());
    }
    Ok(())
}

/// Ok(number of notifications) or Err (state untouched)
pub fn m_add_observation(t: &mut TrackDump, cls: u64, attr: Option<f32>, feat: Option<&[f32]>, upd: Option<&HUpdate>, cx: &mut MCtx) -> Result<u32, ()> {
    let mut w = t.clone();
    if let Some(u) = upd {
        m_apply(&mut w, u, cx)?;
    }
    if attr.is_none() && feat.is_none() {
        *t = w;
        return Ok(1);
    }
    let padded = feat.map(|f| {
        let mut v: Vec<u32> = f.iter().map(|x| x.to_bits()).collect();
        v.resize((f.len() + 7) / 8 * 8, 0);
        v
    });
    w.obs.entry(cls).or_default().push((attr.map(|a| a.to_bits()), padded));
    m_optimize(&mut w, cls, cx)?;
    *t = w;
    Ok(1)
}

#[derive(Debug, PartialEq)]
pub enum HistoryRule {
    /// exactly this
    Exactly(Vec<u64>),
    /// history flag on but no requested class present in either track: the statement leaves it open
    Either(Vec<u64>, Vec<u64>),
}

/// merge `src` into `dest`; `classes` in processing order. Ok(notifications, history rule) or Err.
pub fn m_merge(dest: &mut TrackDump, src: &TrackDump, classes: &[u64], history: bool, cx: &mut MCtx) -> Result<(u32, HistoryRule), ()> {
    let mut w = dest.clone();
    w.merges += 1;
    w.counter = (w.counter + src.counter) % 4;
    if cx.plan.fail_attr_merge {
        return Err(());
    }
    let mut any = false;
    for c in classes {
        let s = src.obs.get(c);
        let d = w.obs.get(c);
        if s.is_none() && d.is_none() {
            continue;
        }
        any = true;
        if let Some(s) = s {
            w.obs.entry(*c).or_default().extend(s.iter().cloned());
        }
        m_optimize(&mut w, *c, cx)?;
    }
    let appended: Vec<u64> = dest.history.iter().chain(src.history.iter()).cloned().collect();
    let rule = if !history {
        HistoryRule::Exactly(dest.history.clone())
    } else if any {
        HistoryRule::Exactly(appended.clone())
    } else {
        HistoryRule::Either(dest.history.clone(), appended.clone())
    };
    w.history = match &rule {
        HistoryRule::Exactly(h) => h.clone(),
        HistoryRule::Either(h, _) => h.clone(),
    };
    *dest = w;
    Ok((1, rule))
}

/// compare an implementation dump with the model, history judged by the rule
pub fn same_modulo_history(imp: &TrackDump, model: &TrackDump, rule: &HistoryRule) -> Result<(), String> {
    let mut a = imp.clone();
    let mut b = model.clone();
    let ih = std::mem::take(&mut a.history);
    b.history.clear();
    if a != b {
        return Err(format!("state differs: implementation {a:?}, model {b:?}"));
    }
    match rule {
        HistoryRule::Exactly(h) => {
            if &ih != h {
                return Err(format!("merge history {ih:?}, expected {h:?}"));
            }
        }
        HistoryRule::Either(x, y) => {
            if &ih != x && &ih != y {
                return Err(format!("merge history {ih:?}, expected {x:?} or {y:?}"));
            }
        }
    }
    Ok(())
}
