//! C19 — box representations agree; equality is a symmetric tolerance relation; angle normalisation.
//! Engine C: complete input grids.

use crate::common::*;
use crate::geom::{self, RBox};
use serde_json::json;
use similari::utils::bbox::{normalize_angle, BoundingBox, Universal2DBox};
use std::sync::atomic::{AtomicU64, Ordering};

const EPS: f64 = 0.00001;

fn next_up(x: f32, k: i64) -> f32 {
    // k-th representable neighbour of x (x != 0 assumed for negative walk through zero not needed)
    let mut b = x.to_bits() as i64;
    if x >= 0.0 {
        b += k;
    } else {
        b -= k;
    }
    f32::from_bits(b as u32)
}

pub fn run(tier: Tier) -> Report {
    let rep = Report::new("C19", tier);
    rep.set_rule("complete grids: (1) ltwh->universal->ltwh over magnitudes^4 (confidences 1, 0, .3, .5; by reference, by value, through the ltwh constructors); (2) polygon/area/centre/radius of every box of the size x angle menu; (2b) every sequence of <= 4 (thorough 5) operations from {gen_vertices, rotate_mut x2, set xc / yc / height / aspect, angle=None, clone, rotate} on 3 start boxes: the polygon cached by gen_vertices() on a rotated box and the result of get_vertices() are the polygon of the box as it is at that moment, and gen_vertices() leaves every field of the box as it was; (3) every coordinate x base x delta x both argument orders for both box types, and every subset of 2..5 coordinates moved at once by .5 / .8 epsilon (one of them optionally by 1.5 epsilon); (4) normalize_angle over f32 bit patterns in [-1000,1000] (thorough: every pattern; quick: stride + neighbourhoods of multiples of 2*pi). A case is non-trivial when it is not the identity comparison / zero angle.");
    rep.assume("reference arithmetic in f64; decisions asserted only outside a rounding margin");

    // (1) round trip
    let mags: Vec<f32> = if tier == Tier::Quick {
        vec![1e-2, 1.0, 1e2, 1e4]
    } else {
        vec![1e-2, 0.3, 1.0, 7.0, 1e2, 333.0, 1e4]
    };
    let signs = [1.0f32, -1.0];
    let mut n1 = 0u64;
    for &l in &mags {
        for &sl in &signs {
            for &t in &mags {
                for &st in &signs {
                    for &w in &mags {
                        for &h in &mags {
                            let b = BoundingBox::new(l * sl, t * st, w, h);
                            let u = b.as_xyaah();
                            n1 += 1;
                            let back = BoundingBox::try_from(&u);
                            let case = json!({"part":"roundtrip","ltwh":[l*sl,t*st,w,h]});
                            // the other constructors and conversions of the same box agree; a rotated box has no ltwh form
                            let u2 = Universal2DBox::ltwh(l * sl, t * st, w, h);
                            let u3 = Universal2DBox::ltwh_with_confidence(l * sl, t * st, w, h, 0.5);
                            let same5 = |x: &Universal2DBox, y: &Universal2DBox| x.xc == y.xc && x.yc == y.yc && x.angle == y.angle && x.aspect == y.aspect && x.height == y.height;
                            if !same5(&u, &u2) || !same5(&u, &u3) || u2.confidence != 1.0 || u3.confidence != 0.5 || u.angle.is_some() {
                                rep.violation(Violation { key: "roundtrip/constructors-differ".into(), what: format!("as_xyaah {u:?}, ltwh {u2:?}, ltwh_with_confidence {u3:?}"), replay: case.clone() });
                            }
                            // the same round trip for boxes that carry a detection confidence other than 1
                            for conf in [0.0f32, 0.3, 0.5] {
                                let bc = BoundingBox::new_with_confidence(l * sl, t * st, w, h, conf);
                                let uc = bc.as_xyaah();
                                let by_ref = BoundingBox::try_from(&uc).ok();
                                let by_val = BoundingBox::try_from(uc.clone()).ok();
                                let from_ctor = BoundingBox::try_from(&Universal2DBox::ltwh_with_confidence(l * sl, t * st, w, h, conf)).ok();
                                for (how, r) in [("try_from(&)", &by_ref), ("try_from(value)", &by_val), ("ltwh_with_confidence -> try_from", &from_ctor)] {
                                    match r {
                                        Some(x) if x.confidence == conf && uc.confidence == conf => {}
                                        other => rep.violation(Violation { key: "roundtrip/confidence".into(), what: format!("a box with confidence {conf} came back through {how} as {other:?} (universal form {uc:?})"), replay: case.clone() }),
                                    }
                                }
                            }
                            if BoundingBox::try_from(u.clone()).ok().map(|x| (x.left, x.top, x.width, x.height)) != back.as_ref().ok().map(|x| (x.left, x.top, x.width, x.height)) {
                                rep.violation(Violation { key: "roundtrip/try_from-by-value-differs".into(), what: format!("{u:?}"), replay: case.clone() });
                            }
                            for a in [0.0f32, 0.3, -1.0] {
                                if BoundingBox::try_from(&u.clone().rotate(a)).is_ok() {
                                    rep.violation(Violation { key: "roundtrip/rotated-box-converted".into(), what: format!("a box with angle Some({a}) was converted to left-top-width-height"), replay: case.clone() });
                                }
                            }
                            match back {
                                Err(e) => rep.violation(Violation {
                                    key: "roundtrip/try_from-err".into(),
                                    what: format!("try_from failed: {e:?}"),
                                    replay: case.clone(),
                                }),
                                Ok(bb) => {
                                    let scale_x = (l as f64).abs() + w as f64;
                                    let scale_y = (t as f64).abs() + h as f64;
                                    let tol_x = 4.0 * ulp32(scale_x);
                                    let tol_y = 4.0 * ulp32(scale_y);
                                    let tol_w = 4.0 * ulp32(w as f64);
                                    let bad = ((bb.left - b.left) as f64).abs() > tol_x + tol_w
                                        || ((bb.top - b.top) as f64).abs() > tol_y
                                        || ((bb.width - b.width) as f64).abs() > tol_w
                                        || ((bb.height - b.height) as f64).abs() > 0.0
                                        || bb.confidence != b.confidence;
                                    if bad {
                                        rep.violation(Violation {
                                            key: "roundtrip/value".into(),
                                            what: format!("{b:?} -> {u:?} -> {bb:?}"),
                                            replay: case.clone(),
                                        });
                                    }
                                    // library equality when f32 resolution is far below EPS
                                    if scale_x.max(scale_y) < 8.0 && !(bb == b && b == bb) {
                                        rep.violation(Violation {
                                            key: "roundtrip/lib-eq".into(),
                                            what: format!("round trip not == : {b:?} vs {bb:?}"),
                                            replay: case.clone(),
                                        });
                                    }
                                    // universal form fields
                                    let exp_xc = b.left as f64 + b.width as f64 / 2.0;
                                    let exp_yc = b.top as f64 + b.height as f64 / 2.0;
                                    if (u.xc as f64 - exp_xc).abs() > 2.0 * ulp32(scale_x)
                                        || (u.yc as f64 - exp_yc).abs() > 2.0 * ulp32(scale_y)
                                        || u.angle.is_some()
                                        || (u.aspect as f64 - w as f64 / h as f64).abs()
                                            > 2.0 * ulp32(w as f64 / h as f64)
                                        || u.height != b.height
                                    {
                                        rep.violation(Violation {
                                            key: "roundtrip/universal-fields".into(),
                                            what: format!("{b:?} -> {u:?}"),
                                            replay: case.clone(),
                                        });
                                    }
                                }
                            }
                            if rep.want_sample(n1) {
                                rep.sample(case);
                            }
                        }
                    }
                }
            }
        }
    }
    rep.add(n1, n1, n1, n1);
    rep.distinct_count(n1);

    // (2) polygons
    let angles: Vec<Option<f32>> = vec![
        None,
        Some(0.0),
        Some(std::f32::consts::PI / 6.0),
        Some(std::f32::consts::PI / 4.0),
        Some(std::f32::consts::PI / 2.0),
        Some(std::f32::consts::PI),
        Some(2.0 * std::f32::consts::PI + std::f32::consts::PI / 6.0),
        Some(-std::f32::consts::PI / 3.0),
        Some(0.4),
        Some(100.0),
    ];
    let sizes: Vec<f32> = tier.pick(vec![0.1, 1.0, 2.0, 5.0, 1000.0], vec![0.1, 0.5, 1.0, 2.0, 5.0, 37.0, 1000.0]);
    let centres: Vec<f32> = tier.pick(vec![0.0, -3.5, 1e4], vec![0.0, -3.5, 17.25, 1e4, -1e4]);
    let mut n2 = 0u64;
    for &xc in &centres {
        for &yc in &centres {
            for &a in &angles {
                for &w in &sizes {
                    for &h in &sizes {
                        n2 += 1;
                        let b = Universal2DBox::new(xc, yc, a, w / h, h);
                        let poly = b.get_vertices();
                        let pts: Vec<(f64, f64)> =
                            poly.exterior().0.iter().map(|c| (c.x, c.y)).collect();
                        let case = json!({"part":"polygon","xc":xc,"yc":yc,"angle":a,"aspect":w/h,"height":h});
                        let r = RBox::from_u(&b);
                        let exp = r.corners();
                        let scale = r.radius() + (xc as f64).abs().max((yc as f64).abs());
                        let tol = 1e-9 * scale.max(1.0);
                        // closed ring of 4 distinct vertices (+ repeat of the first)
                        let ring_ok = pts.len() == 5 && pts[0] == pts[4];
                        let mut verts_ok = ring_ok;
                        if ring_ok {
                            // same vertex set, any rotation / orientation
                            for e in &exp {
                                if !pts[..4].iter().any(|p| geom::dist(*p, *e) <= tol) {
                                    verts_ok = false;
                                }
                            }
                        }
                        if !verts_ok {
                            rep.violation(Violation {
                                key: "polygon/vertices".into(),
                                what: format!("vertices {pts:?} expected {exp:?}"),
                                replay: case.clone(),
                            });
                            continue;
                        }
                        let area = geom::shoelace(&pts[..4]).abs();
                        let lib_area = b.area() as f64;
                        if (area - r.area()).abs() > 1e-9 * r.area().max(1.0) * scale.max(1.0)
                            || (lib_area - r.area()).abs() > 4.0 * ulp32(r.area())
                        {
                            rep.violation(Violation {
                                key: "polygon/area".into(),
                                what: format!("polygon area {area}, area() {lib_area}, expected {}", r.area()),
                                replay: case.clone(),
                            });
                        }
                        let c = geom::centroid(&pts[..4]);
                        if geom::dist(c, (r.xc, r.yc)) > tol {
                            rep.violation(Violation {
                                key: "polygon/centre".into(),
                                what: format!("centroid {c:?} expected {:?}", (r.xc, r.yc)),
                                replay: case.clone(),
                            });
                        }
                        let maxr = pts[..4]
                            .iter()
                            .map(|p| geom::dist(*p, (r.xc, r.yc)))
                            .fold(0.0, f64::max);
                        let lib_r = b.get_radius() as f64;
                        if (maxr - r.radius()).abs() > tol
                            || (lib_r - r.radius()).abs() > 4.0 * ulp32(r.radius())
                        {
                            rep.violation(Violation {
                                key: "polygon/radius".into(),
                                what: format!("vertex radius {maxr}, get_radius() {lib_r}, expected {}", r.radius()),
                                replay: case.clone(),
                            });
                        }
                        if rep.want_sample(n2) {
                            rep.sample(case);
                        }
                    }
                }
            }
        }
    }
    rep.add(n2, n2, n2, n2);
    rep.distinct_count(n2);

    // (2b) the cached polygon: every sequence of in-place changes and (re)generations; right after
    // gen_vertices() on a rotated box the cached polygon is the polygon of the box as it is now, and
    // get_vertices() always is
    {
        #[derive(Clone, Copy, Debug)]
        enum COp {
            Gen,
            RotMut(f32),
            Xc(f32),
            Yc(f32),
            Height(f32),
            Aspect(f32),
            AngleNone,
            CloneBox,
            Rotate(f32),
        }
        let alpha = [COp::Gen, COp::RotMut(0.7), COp::RotMut(-0.3), COp::Xc(50.0), COp::Yc(-2.0), COp::Height(3.0), COp::Aspect(0.25), COp::AngleNone, COp::CloneBox, COp::Rotate(1.1)];
        let starts = [Universal2DBox::new(5.0, 5.0, Some(0.4), 0.5, 10.0), Universal2DBox::new(0.0, 0.0, None, 2.0, 4.0), Universal2DBox::new(-3.5, 1e3, Some(0.0), 1.0, 1.0)];
        let depth = tier.pick(4usize, 5usize);
        let same = |poly: &geo::Polygon<f64>, b: &Universal2DBox| -> bool {
            let pts: Vec<(f64, f64)> = poly.exterior().0.iter().map(|c| (c.x, c.y)).collect();
            let r = RBox::from_u(b);
            let tol = 1e-9 * (r.radius() + (b.xc as f64).abs().max((b.yc as f64).abs())).max(1.0);
            pts.len() == 5 && r.corners().iter().all(|e| pts[..4].iter().any(|p| geom::dist(*p, *e) <= tol))
        };
        let mut n3 = 0u64;
        let mut regen_after_change = 0u64;
        for (si, st) in starts.iter().enumerate() {
            let total = (0..=depth).map(|d| alpha.len().pow(d as u32)).sum::<usize>();
            let _ = total;
            for d in 1..=depth {
                for code in 0..alpha.len().pow(d as u32) {
                    let mut k = code;
                    let mut b = st.clone();
                    let mut word = vec![];
                    let mut dirty_since_gen = false;
                    let mut had_cache = false;
                    for _ in 0..d {
                        let op = alpha[k % alpha.len()];
                        k /= alpha.len();
                        word.push(op);
                        match op {
                            COp::Gen => {
                                let before = (b.xc.to_bits(), b.yc.to_bits(), b.angle.map(f32::to_bits), b.aspect.to_bits(), b.height.to_bits(), b.confidence.to_bits());
                                b.gen_vertices();
                                // generating the polygon is not a change of the box: every field is what it was (an
                                // axis-aligned box stays one, so it can still be converted back to its ltwh form)
                                let after = (b.xc.to_bits(), b.yc.to_bits(), b.angle.map(f32::to_bits), b.aspect.to_bits(), b.height.to_bits(), b.confidence.to_bits());
                                if before != after || (b.angle.is_none() && BoundingBox::try_from(&b).is_err()) {
                                    rep.violation(Violation { key: "polygon/gen_vertices-changes-the-box".into(), what: format!("after {word:?} on start box {si}: fields before gen_vertices {before:?}, after {after:?}; conversion back to ltwh ok: {}", BoundingBox::try_from(&b).is_ok()), replay: json!({"part":"polygon-cache","start":si,"ops":format!("{word:?}")}) });
                                }
                                if b.angle.is_some() {
                                    if had_cache && dirty_since_gen {
                                        regen_after_change += 1;
                                    }
                                    let ok = b.get_cached_vertices().as_ref().map_or(false, |p| same(p, &b));
                                    if !ok {
                                        rep.violation(Violation { key: "polygon/cache-after-gen_vertices".into(), what: format!("after {word:?} on start box {si} the cached polygon {:?} is not the polygon of the box {b:?}", b.get_cached_vertices()), replay: json!({"part":"polygon-cache","start":si,"ops":format!("{word:?}")}) });
                                    }
                                    had_cache = true;
                                    dirty_since_gen = false;
                                }
                            }
                            COp::RotMut(a) => {
                                b.rotate_mut(a);
                                dirty_since_gen = true;
                            }
                            COp::Xc(v) => {
                                b.xc = v;
                                dirty_since_gen = true;
                            }
                            COp::Yc(v) => {
                                b.yc = v;
                                dirty_since_gen = true;
                            }
                            COp::Height(v) => {
                                b.height = v;
                                dirty_since_gen = true;
                            }
                            COp::Aspect(v) => {
                                b.aspect = v;
                                dirty_since_gen = true;
                            }
                            COp::AngleNone => {
                                b.angle = None;
                                dirty_since_gen = true;
                            }
                            COp::CloneBox => {
                                b = b.clone();
                                had_cache = b.get_cached_vertices().is_some();
                            }
                            COp::Rotate(a) => {
                                b = b.rotate(a);
                                had_cache = b.get_cached_vertices().is_some();
                                dirty_since_gen = true;
                            }
                        }
                        // an operation that builds a NEW box value (clone, by-value rotate) hands out either no
                        // polygon or the polygon of the box it returns - never the polygon of the box it was
                        // made from (in-place changes of public fields are the caller's business and not judged)
                        if matches!(op, COp::CloneBox | COp::Rotate(_)) {
                            if let Some(p) = b.get_cached_vertices() {
                                if !same(p, &b) {
                                    rep.violation(Violation { key: "polygon/new-box-value-carries-foreign-polygon".into(), what: format!("after {word:?} on start box {si} the returned box {b:?} carries a generated polygon that is not its own"), replay: json!({"part":"polygon-cache","start":si,"ops":format!("{word:?}")}) });
                                }
                            }
                            // and what is computed from it uses the box as it is
                            let other = Universal2DBox::new(b.xc + 0.25 * b.height, b.yc, Some(0.2), b.aspect, b.height);
                            let fresh = Universal2DBox::new_with_confidence(b.xc, b.yc, b.angle, b.aspect, b.height, b.confidence);
                            use geo::Area;
                            // (the method consumes its arguments; the clone drops any cached polygon, so the box is rebuilt by hand)
                            let mut carried = Universal2DBox::new_with_confidence(b.xc, b.yc, b.angle, b.aspect, b.height, b.confidence);
                            std::mem::swap(&mut carried, &mut b);
                            let a1 = carried.sutherland_hodgman_clip(other.clone()).unsigned_area();
                            let a2 = fresh.sutherland_hodgman_clip(other).unsigned_area();
                            if (a1 - a2).abs() > 1e-9 * a2.abs().max(1.0) {
                                rep.violation(Violation { key: "polygon/clip-of-new-box-value-uses-foreign-polygon".into(), what: format!("after {word:?} on start box {si}: sutherland_hodgman_clip of the returned box gives area {a1}, of a freshly constructed box with the same fields {a2}"), replay: json!({"part":"polygon-cache","start":si,"ops":format!("{word:?}")}) });
                            }
                            had_cache = false;
                            dirty_since_gen = false;
                        }
                        if !same(&b.get_vertices(), &b) {
                            rep.violation(Violation { key: "polygon/get_vertices-after-changes".into(), what: format!("after {word:?} on start box {si} get_vertices() is not the polygon of {b:?}"), replay: json!({"part":"polygon-cache","start":si,"ops":format!("{word:?}")}) });
                        }
                    }
                    n3 += 1;
                }
            }
        }
        rep.add(n3, n3, n3, n3);
        rep.extra("polygon_cache_sequences", json!({"sequences":n3,"depth":depth,"alphabet":alpha.len(),"regenerations_after_an_in_place_change":regen_after_change}));
    }

    // (3) equality
    let bases: Vec<f32> = vec![0.25, 1.0, 3.0, 100.0, 1e4];
    let e = EPS as f32;
    let deltas: Vec<f32> = vec![
        0.0,
        0.5 * e,
        -0.5 * e,
        0.9 * e,
        -0.9 * e,
        1.1 * e,
        -1.1 * e,
        2.0 * e,
        -2.0 * e,
        1.0,
        -1.0,
        0.125,
        -0.125,
    ];
    let mut n3 = 0u64;
    let mut decided = 0u64;
    let mut undecided = 0u64;
    // BoundingBox: coordinates 0..4 (left, top, width, height), 4 = confidence
    for coord in 0..5usize {
        for &base in &bases {
            for &d in &deltas {
                let mut a = [base, base, base, base, 0.5f32];
                if coord == 4 {
                    a[4] = 0.5;
                }
                let mut b = a;
                b[coord] = a[coord] + if coord == 4 { d.clamp(-0.4, 0.4) } else { d };
                if coord >= 2 && coord < 4 && b[coord] <= 0.0 {
                    continue;
                }
                let ba = BoundingBox::new_with_confidence(a[0], a[1], a[2], a[3], a[4]);
                let bb = BoundingBox::new_with_confidence(b[0], b[1], b[2], b[3], b[4]);
                let diff = (b[coord] as f64 - a[coord] as f64).abs();
                n3 += 1;
                check_eq(
                    &rep,
                    "BoundingBox",
                    ["left", "top", "width", "height", "confidence"][coord],
                    coord != 4,
                    diff,
                    ba == bb,
                    bb == ba,
                    ba == ba && bb == bb,
                    json!({"part":"eq","type":"BoundingBox","coord":coord,"a":a,"b":b}),
                    &mut decided,
                    &mut undecided,
                );
            }
        }
    }
    // Universal2DBox: xc, yc, angle, aspect, height
    for coord in 0..5usize {
        for &base in &bases {
            for &d in &deltas {
                for angle_none in [false, true] {
                    let a = [base, base, if angle_none { 0.0 } else { 0.5 }, base, base];
                    let mut b = a;
                    b[coord] = a[coord] + d;
                    if coord >= 3 && b[coord] <= 0.0 {
                        continue;
                    }
                    let mk = |v: [f32; 5], none: bool| {
                        Universal2DBox::new(
                            v[0],
                            v[1],
                            if none { None } else { Some(v[2]) },
                            v[3],
                            v[4],
                        )
                    };
                    // `None` only on the unperturbed side when the perturbed angle is non-zero
                    let ua = mk(a, angle_none);
                    let ub = mk(b, angle_none && b[2] == 0.0);
                    let diff = (b[coord] as f64 - a[coord] as f64).abs();
                    n3 += 1;
                    check_eq(
                        &rep,
                        "Universal2DBox",
                        ["xc", "yc", "angle", "aspect", "height"][coord],
                        true,
                        diff,
                        ua == ub,
                        ub == ua,
                        ua == ua && ub == ub,
                        json!({"part":"eq","type":"Universal2DBox","coord":coord,"a":a,"b":b,"angle_none":angle_none}),
                        &mut decided,
                        &mut undecided,
                    );
                }
            }
        }
    }
    // several coordinates perturbed at once: equality is decided coordinate by coordinate - every subset of two or
    // more coordinates, each moved by .5 / .8 of epsilon in either direction (equal), and the same with one of them
    // moved by 1.5 epsilon (not equal)
    {
        let signs = [1.0f32, -1.0];
        for ty in 0..2usize {
            for mask in 1u32..32 {
                if mask.count_ones() < 2 {
                    continue;
                }
                for &frac in &[0.5f32, 0.8] {
                    for &sg in &signs {
                        for beyond in 0..=5usize {
                            // beyond == 5: every moved coordinate stays within epsilon
                            if beyond < 5 && mask & (1 << beyond) == 0 {
                                continue;
                            }
                            let a = if ty == 0 { [1.0f32, 2.0, 3.0, 4.0, 0.5] } else { [1.0f32, 2.0, 0.5, 1.5, 4.0] };
                            let mut b = a;
                            let mut maxd = 0.0f64;
                            for c in 0..5usize {
                                if mask & (1 << c) != 0 {
                                    let alt = if c % 2 == 0 { sg } else { -sg };
                                    let d = alt * e * if c == beyond { 1.5 } else { frac };
                                    b[c] = a[c] + d;
                                    maxd = maxd.max((b[c] as f64 - a[c] as f64).abs());
                                }
                            }
                            let (ab, ba, refl) = if ty == 0 {
                                let x = BoundingBox::new_with_confidence(a[0], a[1], a[2], a[3], a[4]);
                                let y = BoundingBox::new_with_confidence(b[0], b[1], b[2], b[3], b[4]);
                                (x == y, y == x, x == x && y == y)
                            } else {
                                let x = Universal2DBox::new(a[0], a[1], Some(a[2]), a[3], a[4]);
                                let y = Universal2DBox::new(b[0], b[1], Some(b[2]), b[3], b[4]);
                                (x == y, y == x, x == x && y == y)
                            };
                            n3 += 1;
                            // the confidence of an ltwh box is not one of its coordinates: only 'within epsilon => equal' is demanded of it
                            let is_coord = !(ty == 0 && beyond == 4);
                            let tyn = ["BoundingBox", "Universal2DBox"][ty];
                            check_eq(&rep, tyn, "several-at-once", is_coord, maxd, ab, ba, refl, json!({"part":"eq","type":tyn,"several_at_once":true,"a":a,"b":b}), &mut decided, &mut undecided);
                        }
                    }
                }
            }
        }
    }
    // exact f32 neighbours around the epsilon boundary at base 1.0 (all coordinates, both types)
    for coord in 0..4usize {
        for k in -40i64..=40 {
            let a = [1.0f32; 4];
            let mut b = a;
            let target = 1.0f32 + e;
            b[coord] = next_up(target, k);
            let ba = BoundingBox::new(a[0], a[1], a[2], a[3]);
            let bb = BoundingBox::new(b[0], b[1], b[2], b[3]);
            let diff = (b[coord] as f64 - a[coord] as f64).abs();
            n3 += 1;
            check_eq(
                &rep,
                "BoundingBox",
                ["left", "top", "width", "height"][coord],
                true,
                diff,
                ba == bb,
                bb == ba,
                true,
                json!({"part":"eq-neighbours","type":"BoundingBox","coord":coord,"a":a,"b":b}),
                &mut decided,
                &mut undecided,
            );
        }
    }
    rep.add(n3, 2 * n3, n3, n3);
    rep.distinct_count(n3);
    rep.extra("equality_cases_decided_by_margin", json!(decided));
    rep.extra("undecided_by_margin", json!(undecided));

    // (4) normalize_angle
    let viol4 = AtomicU64::new(0);
    let cnt4 = AtomicU64::new(0);
    let max_pos = 1000.0f32.to_bits() as u64; // patterns 0..=max_pos are [0,1000]
    let total = 2 * (max_pos + 1);
    let pix2_32 = (2.0f32 * std::f32::consts::PI) as f64;
    let two_pi = 2.0 * std::f64::consts::PI;
    let check_angle = |a: f32| {
        let r = normalize_angle(a);
        cnt4.fetch_add(1, Ordering::Relaxed);
        let rf = r as f64;
        let af = a as f64;
        let n = (af / two_pi).floor().abs() + 1.0;
        let tol = 4.0 * ulp32(af.abs().max(two_pi)) + n * (pix2_32 - two_pi).abs() + 1e-7;
        let in_range = rf >= 0.0 && rf <= pix2_32;
        // congruence modulo a full turn
        let mut d = (rf - af) % two_pi;
        if d < 0.0 {
            d += two_pi;
        }
        let d = d.min(two_pi - d);
        if !in_range || d > tol || !r.is_finite() {
            if viol4.fetch_add(1, Ordering::Relaxed) < 3 {
                rep.violation(Violation {
                    key: if in_range { "normalize_angle/congruence".into() } else { "normalize_angle/range".into() },
                    what: format!("normalize_angle({a:e}) = {r:e}; off by {d:e} (tol {tol:e})"),
                    replay: json!({"part":"normalize_angle","a_bits":f32_hex(a)}),
                });
            }
        }
    };
    if tier == Tier::Thorough {
        let chunk = 1u64 << 20;
        let n_chunks = ((max_pos + 1) + chunk - 1) / chunk;
        par_for(n_chunks as usize, 1, |ci| {
            let lo = ci as u64 * chunk;
            let hi = (lo + chunk).min(max_pos + 1);
            for b in lo..hi {
                let x = f32::from_bits(b as u32);
                check_angle(x);
                check_angle(-x);
            }
        });
        rep.extra("normalize_angle_patterns", json!({"all_f32_in":"[-1000,1000]","count":total}));
    } else {
        let stride = 257u64;
        let n = (max_pos + 1) / stride;
        par_for(n as usize, 4096, |i| {
            let x = f32::from_bits((i as u64 * stride) as u32);
            check_angle(x);
            check_angle(-x);
        });
        // neighbourhoods of k*2pi, k = 0..=160, +-2^10 ulps, both signs
        for k in 0..=160u32 {
            let c = (k as f64 * two_pi) as f32;
            for j in -1024i64..=1024 {
                let b = c.to_bits() as i64 + j;
                if b < 0 {
                    continue;
                }
                let x = f32::from_bits(b as u32);
                if x <= 1000.0 {
                    check_angle(x);
                    check_angle(-x);
                }
            }
        }
        rep.extra("normalize_angle_patterns", json!({"stride":stride,"neighbourhoods":"k*2pi +-1024 ulps, k<=160"}));
    }
    let c4 = cnt4.load(Ordering::Relaxed);
    rep.add(c4, c4, c4, c4);
    rep.distinct_count(c4 - 1);
    rep.sample(json!({"part":"normalize_angle","a":-0.3,"result":normalize_angle(-0.3)}));
    rep
}

#[allow(clippy::too_many_arguments)]
fn check_eq(
    rep: &Report,
    ty: &str,
    coord: &str,
    is_coordinate: bool,
    diff: f64,
    ab: bool,
    ba: bool,
    refl: bool,
    case: serde_json::Value,
    decided: &mut u64,
    undecided: &mut u64,
) {
    if !refl {
        rep.violation(Violation {
            key: format!("eq/{ty}/reflexive"),
            what: "a != a".into(),
            replay: case.clone(),
        });
    }
    if ab != ba {
        rep.violation(Violation {
            key: format!("eq/{ty}/{coord}/asymmetric"),
            what: format!("a==b is {ab} but b==a is {ba} (|delta|={diff:e})"),
            replay: case.clone(),
        });
    }
    if diff < EPS * (1.0 - 1e-3) {
        *decided += 1;
        if !(ab && ba) {
            rep.violation(Violation {
                key: format!("eq/{ty}/{coord}/unequal-within-eps"),
                what: format!("|delta|={diff:e} < eps but not equal (a==b {ab}, b==a {ba})"),
                replay: case.clone(),
            });
        }
    } else if diff > EPS * (1.0 + 1e-3) {
        *decided += 1;
        if is_coordinate && (ab || ba) && ab == ba {
            rep.violation(Violation {
                key: format!("eq/{ty}/{coord}/equal-beyond-eps"),
                what: format!("|delta|={diff:e} > eps but equal in both orders"),
                replay: case.clone(),
            });
        }
    } else {
        *undecided += 1;
    }
    if rep.want_sample((diff * 1e9) as u64) {
        rep.sample(case);
    }
}
