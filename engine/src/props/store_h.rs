//! Harness-defined attributes / metric / notifier with non-trivial behaviour, a fault plan for
//! their callbacks, canonical dumps of tracks and stores, used by C09, C10, C11.

use anyhow::{anyhow, Result};
use similari::distance::euclidean;
use similari::store::TrackStore;
use similari::track::notify::ChangeNotifier;
use similari::track::utils::FromVec;
use similari::track::{
    Feature, LookupRequest, MetricOutput, MetricQuery, Observation, ObservationAttributes,
    ObservationMetric, ObservationsDb, Track, TrackAttributes, TrackAttributesUpdate, TrackStatus,
};
use std::cell::{Cell, RefCell};
use std::collections::BTreeMap;

/// Which callback invocation fails (consulted by the harness callbacks). All shuttle tasks of an
/// execution share the explorer's OS thread, so a thread-local is visible to the store workers too.
#[derive(Clone, Copy, Debug, Default, PartialEq)]
pub struct FaultPlan {
    pub fail_apply: bool,
    pub fail_attr_merge: bool,
    /// fail `optimize` for this feature class ...
    pub fail_optimize_class: Option<u64>,
    /// ... or the k-th `optimize` call (1-based) since the plan was armed
    pub fail_optimize_kth: Option<u32>,
}

thread_local! {
    static PLAN: Cell<FaultPlan> = Cell::new(FaultPlan::default());
    static OPT_SEEN: Cell<u32> = const { Cell::new(0) };
    static NOTIFIED: RefCell<Vec<u64>> = const { RefCell::new(Vec::new()) };
    static MUTE: Cell<bool> = const { Cell::new(false) };
}

pub fn arm(p: FaultPlan) {
    PLAN.with(|c| c.set(p));
    OPT_SEEN.with(|c| c.set(0));
}

pub fn disarm() {
    arm(FaultPlan::default());
}

pub fn take_notifications() -> Vec<u64> {
    NOTIFIED.with(|n| std::mem::take(&mut *n.borrow_mut()))
}

#[derive(Clone, Debug, Default)]
pub struct HNotifier;

impl ChangeNotifier for HNotifier {
    fn send(&mut self, id: u64) {
        if !MUTE.with(|m| m.get()) {
            NOTIFIED.with(|n| n.borrow_mut().push(id));
        }
    }
}

#[derive(Clone, Debug, PartialEq, Default)]
pub struct HAttrs {
    /// compatibility class
    pub group: u8,
    /// status counter: 0 Pending, 1 Ready, 2 Wasted (mod 3)
    pub counter: u32,
    pub updates: u32,
    pub merges: u32,
    /// number of optimise calls that touched these attributes
    pub opt_touched: u32,
    /// side channel: the metric's own call counter as seen by the last optimise
    pub metric_calls_seen: u32,
}

#[derive(Clone, Debug, PartialEq)]
pub struct HUpdate {
    pub add: u32,
    pub group: Option<u8>,
}

impl TrackAttributesUpdate<HAttrs> for HUpdate {
    fn apply(&self, attrs: &mut HAttrs) -> Result<()> {
        // mutate first, fail afterwards: a faithful rollback has to undo the partial change
        attrs.updates += 1;
        attrs.counter = (attrs.counter + self.add) % 4;
        if let Some(g) = self.group {
            attrs.group = g;
        }
        if PLAN.with(|p| p.get()).fail_apply {
            return Err(anyhow!("injected: attribute update apply"));
        }
        Ok(())
    }
}

#[derive(Clone, Debug)]
pub enum HLookup {
    Group(u8),
    HasClass(u64),
    MergedFrom(u64),
    All,
}

impl LookupRequest<HAttrs, f32> for HLookup {
    fn lookup(&self, attributes: &HAttrs, observations: &ObservationsDb<f32>, merge_history: &[u64]) -> bool {
        match self {
            HLookup::Group(g) => attributes.group == *g,
            HLookup::HasClass(c) => observations.contains_key(c),
            HLookup::MergedFrom(id) => merge_history.contains(id),
            HLookup::All => true,
        }
    }
}

impl TrackAttributes<HAttrs, f32> for HAttrs {
    type Update = HUpdate;
    type Lookup = HLookup;

    fn compatible(&self, other: &HAttrs) -> bool {
        self.group == other.group
    }

    fn merge(&mut self, other: &HAttrs) -> Result<()> {
        self.merges += 1;
        self.counter = (self.counter + other.counter) % 4;
        if PLAN.with(|p| p.get()).fail_attr_merge {
            return Err(anyhow!("injected: attributes merge"));
        }
        Ok(())
    }

    fn baked(&self, _observations: &ObservationsDb<f32>) -> Result<TrackStatus> {
        // a fourth state in which the status cannot be computed at all (user-defined attributes may fail here)
        Ok(match self.counter % 4 {
            0 => TrackStatus::Pending,
            1 => TrackStatus::Ready,
            2 => TrackStatus::Wasted,
            _ => return Err(anyhow::anyhow!("status unavailable")),
        })
    }
}

#[derive(Clone, Debug, Default, PartialEq)]
pub struct HMetric {
    pub opt_calls: u32,
    /// post-processing of the results of ONE track comparison: 0 = keep everything, 1 = keep only the closest
    /// observation pairs (those whose attribute distance equals the smallest one of the comparison) - a hook that
    /// looks at the vector as a whole, so its unit (one candidate against one stored track) matters
    pub post: u8,
}

/// pairs whose attribute difference exceeds this yield no metric value at all
pub const METRIC_CUTOFF: f32 = 5.0;

impl ObservationMetric<HAttrs, f32> for HMetric {
    fn metric(&self, mq: &MetricQuery<'_, HAttrs, f32>) -> MetricOutput<f32> {
        let (l, r) = (mq.candidate_observation, mq.track_observation);
        let am = f32::calculate_metric_object(&l.attr().as_ref(), &r.attr().as_ref());
        if let Some(d) = am {
            if d > METRIC_CUTOFF {
                return None;
            }
        }
        let fd = match (l.feature().as_ref(), r.feature().as_ref()) {
            (Some(x), Some(y)) => Some(euclidean(x, y)),
            _ => None,
        };
        Some((am, fd))
    }

    fn postprocess_distances(&self, unfiltered: Vec<similari::track::ObservationMetricOk<f32>>) -> Vec<similari::track::ObservationMetricOk<f32>> {
        if self.post == 0 {
            return unfiltered;
        }
        let key = |e: &similari::track::ObservationMetricOk<f32>| e.attribute_metric.unwrap_or(f32::INFINITY);
        let m = unfiltered.iter().map(key).fold(f32::INFINITY, f32::min);
        unfiltered.into_iter().filter(|e| key(e) == m).collect()
    }

    fn optimize(
        &mut self,
        feature_class: u64,
        _merge_history: &[u64],
        attributes: &mut HAttrs,
        observations: &mut Vec<Observation<f32>>,
        _prev_length: usize,
        _is_merge: bool,
    ) -> Result<()> {
        // mutate everything first, then possibly fail
        self.opt_calls += 1;
        attributes.opt_touched += 1;
        attributes.metric_calls_seen = self.opt_calls;
        observations.sort_by(|a, b| {
            let ka = a.attr().unwrap_or(f32::NEG_INFINITY);
            let kb = b.attr().unwrap_or(f32::NEG_INFINITY);
            kb.partial_cmp(&ka).unwrap()
        });
        observations.truncate(2);
        let k = OPT_SEEN.with(|c| {
            c.set(c.get() + 1);
            c.get()
        });
        let p = PLAN.with(|p| p.get());
        if p.fail_optimize_class == Some(feature_class) || p.fail_optimize_kth == Some(k) {
            return Err(anyhow!("injected: optimize class {feature_class} call {k}"));
        }
        Ok(())
    }
}

pub type HTrack = Track<HAttrs, HMetric, f32, HNotifier>;
pub type HStore = TrackStore<HAttrs, HMetric, f32, HNotifier>;

pub type ObsRepr = (Option<u32>, Option<Vec<u32>>);

/// Canonical, totally ordered description of everything observable about a track.
#[derive(Clone, Debug, PartialEq, Eq, PartialOrd, Ord, Hash)]
pub struct TrackDump {
    pub id: u64,
    pub group: u8,
    pub counter: u32,
    pub updates: u32,
    pub merges: u32,
    pub opt_touched: u32,
    pub metric_calls: u32,
    pub obs: BTreeMap<u64, Vec<ObsRepr>>,
    pub history: Vec<u64>,
}

pub fn obs_repr(o: &Observation<f32>) -> ObsRepr {
    (
        o.attr().map(|a| a.to_bits()),
        o.feature().as_ref().map(|f| Vec::<f32>::from_vec(f).iter().map(|x| x.to_bits()).collect()),
    )
}

/// metric state is private to the track: read it through a muted probe on a clone
pub fn metric_calls(t: &HTrack) -> u32 {
    let saved = PLAN.with(|p| p.get());
    let seen = OPT_SEEN.with(|c| c.get());
    PLAN.with(|p| p.set(FaultPlan::default()));
    MUTE.with(|m| m.set(true));
    let mut p = t.clone();
    let r = p.add_observation(u64::MAX - 7, Some(0.0), None, None);
    MUTE.with(|m| m.set(false));
    PLAN.with(|p| p.set(saved));
    OPT_SEEN.with(|c| c.set(seen));
    r.expect("probe add_observation cannot fail");
    p.get_attributes().metric_calls_seen - 1
}

pub fn dump_track(t: &HTrack) -> TrackDump {
    let a = t.get_attributes();
    let mut obs = BTreeMap::new();
    for c in t.get_feature_classes() {
        obs.insert(c, t.get_observations(c).unwrap().iter().map(obs_repr).collect());
    }
    TrackDump {
        id: t.get_track_id(),
        group: a.group,
        counter: a.counter,
        updates: a.updates,
        merges: a.merges,
        opt_touched: a.opt_touched,
        metric_calls: metric_calls(t),
        obs,
        history: t.get_merge_history().clone(),
    }
}

/// every shard's contents: (shard index, tracks sorted by id)
pub fn dump_store(s: &HStore, shards: usize) -> Vec<(usize, Vec<TrackDump>)> {
    (0..shards)
        .map(|k| {
            let g = s.get_store(k);
            let mut v: Vec<TrackDump> = g.values().map(dump_track).collect();
            v.sort();
            (k, v)
        })
        .collect()
}

pub fn feat(v: &[f32]) -> Feature {
    Feature::from_vec(v.to_vec())
}
