//! C15 — exclusively-owned area share equals the uncovered fraction of the box. Engine C.

use crate::common::*;
use crate::geom::{self, RBox};
use serde_json::json;
use similari::utils::bbox::Universal2DBox;
use similari::utils::clipping::bbox_own_areas::{exclusively_owned_areas, exclusively_owned_areas_normalized_shares};
use std::f32::consts::PI;
use std::panic::{catch_unwind, AssertUnwindSafe};
use std::sync::atomic::{AtomicU64, Ordering};

fn shares(boxes: &[Universal2DBox]) -> Result<Vec<f32>, String> {
    let refs: Vec<&Universal2DBox> = boxes.iter().collect();
    catch_unwind(AssertUnwindSafe(|| {
        let polys = exclusively_owned_areas(&refs);
        exclusively_owned_areas_normalized_shares(&refs, &polys)
    }))
    .map_err(|e| {
        if let Some(s) = e.downcast_ref::<String>() { s.clone() } else if let Some(s) = e.downcast_ref::<&str>() { s.to_string() } else { "panic".into() }
    })
}

/// integer boxes (x0,y0,x1,y1) on a lattice: exact uncovered fraction by cell counting
fn exact_share(bs: &[(i32, i32, i32, i32)], i: usize, n: i32) -> f64 {
    let b = bs[i];
    let mut own = 0;
    let mut tot = 0;
    for x in 0..n {
        for y in 0..n {
            let inside = |q: &(i32, i32, i32, i32)| x >= q.0 && x < q.2 && y >= q.1 && y < q.3;
            if inside(&b) {
                tot += 1;
                if !bs.iter().enumerate().any(|(j, q)| j != i && inside(q)) {
                    own += 1;
                }
            }
        }
    }
    own as f64 / tot as f64
}

fn bj(b: &Universal2DBox) -> serde_json::Value {
    json!({"xc":b.xc,"yc":b.yc,"angle":b.angle,"aspect":b.aspect,"height":b.height})
}

pub fn run(tier: Tier) -> Report {
    let rep = Report::new("C15", tier);
    rep.set_rule("all unordered sets of <= 3 integer-cornered boxes on a 5-point lattice and of 4 on a 4-point lattice (thorough: also 3 on a 6-point lattice) against exact cell counting, all 6 orderings of each 3-set; sets of 3-4 boxes of very different sizes (unit boxes and boxes 7..12 cells long on a 12-cell lattice), exact as well; enumerated near-degenerate families (identical, shared / collinear edges, right-angle rotations, the angle menu of C08, 1..8 boxes; a frame-sized box with detections a few pixels across inside, on its border and outside; a rotated box across / inside an axis-aligned one (360 pairs); crowds of 9..40 boxes - pairs, chains, an isolated row with a covered / overlapped tail - in the given order and rotated) against inclusion-exclusion with an independent convex clipper; every ordered set of 2-3 boxes of a 4-box rotated menu x 6 preparations per box (polygon generated, then moved / turned / resized in place, with and without generating it again); the shares as VisualSort / BatchVisualSort store them with the detections (own-area threshold on; three sets of 2-4 boxes as scenes 0-2 in every assignment, 1-3 scenes per batch). Non-trivial = at least two boxes overlap.");
    rep.assume("exact integer cell counting / engine/src/geom.rs inclusion-exclusion; the crate's share is own/(area+1e-5), compared with tolerance 2e-5 + 1e-5/area");
    let evals = AtomicU64::new(0);
    let nontrivial = AtomicU64::new(0);
    let lattice = |n: i32| {
        let mut v = vec![];
        for x0 in 0..n {
            for x1 in x0 + 1..=n {
                for y0 in 0..n {
                    for y1 in y0 + 1..=n {
                        v.push((x0, y0, x1, y1));
                    }
                }
            }
        }
        v
    };
    let check_int = |bs: &[(i32, i32, i32, i32)], n: i32, perms: bool| {
        let boxes: Vec<Universal2DBox> = bs.iter().map(|b| Universal2DBox::ltwh(b.0 as f32, b.1 as f32, (b.2 - b.0) as f32, (b.3 - b.1) as f32)).collect();
        evals.fetch_add(1, Ordering::Relaxed);
        let exp: Vec<f64> = (0..bs.len()).map(|i| exact_share(bs, i, n)).collect();
        if exp.iter().any(|e| *e < 1.0) {
            nontrivial.fetch_add(1, Ordering::Relaxed);
        }
        let case = || json!({"integer_boxes":bs.iter().map(|b| json!([b.0,b.1,b.2,b.3])).collect::<Vec<_>>()});
        match shares(&boxes) {
            Err(m) => rep.violation(Violation { key: "own-area/panic/integer-boxes".into(), what: m, replay: case() }),
            Ok(s) => {
                for i in 0..bs.len() {
                    let area = ((bs[i].2 - bs[i].0) * (bs[i].3 - bs[i].1)) as f64;
                    if !(s[i] >= 0.0 && s[i] <= 1.0) || (s[i] as f64 - exp[i]).abs() > 2e-5 + 1e-5 / area {
                        rep.violation(Violation { key: "own-area/value/integer-boxes".into(), what: format!("box {i}: share {} expected {}", s[i], exp[i]), replay: case() });
                    }
                }
                if perms && bs.len() == 3 {
                    for p in super::hung::permutations(3) {
                        let pb: Vec<Universal2DBox> = p.iter().map(|i| boxes[*i].clone()).collect();
                        evals.fetch_add(1, Ordering::Relaxed);
                        match shares(&pb) {
                            Err(m) => rep.violation(Violation { key: "own-area/panic/integer-boxes".into(), what: m, replay: case() }),
                            Ok(ps) => {
                                for (k, i) in p.iter().enumerate() {
                                    if (ps[k] - s[*i]).abs() > 1e-6 {
                                        rep.violation(Violation { key: "own-area/order-dependent".into(), what: format!("box {i}: {} in order {p:?}, {} in input order", ps[k], s[*i]), replay: case() });
                                    }
                                }
                            }
                        }
                    }
                }
            }
        }
    };
    // lattice with corners 0..4 (4 cells per side)
    let l5 = lattice(4);
    let n5 = l5.len();
    for i in 0..n5 {
        check_int(&[l5[i]], 4, false);
    }
    par_for(n5, 1, |i| {
        for j in i + 1..n5 {
            check_int(&[l5[i], l5[j]], 4, false);
            // identical pair as a multiset element
            for k in j + 1..n5 {
                check_int(&[l5[i], l5[j], l5[k]], 4, (i + j + k) % tier.pick(6, 2) == 0);
            }
        }
        check_int(&[l5[i], l5[i]], 4, false);
    });
    let l4 = lattice(3);
    let n4 = l4.len();
    par_for(n4, 1, |i| {
        for j in i + 1..n4 {
            for k in j + 1..n4 {
                for l in k + 1..n4 {
                    check_int(&[l4[i], l4[j], l4[k], l4[l]], 3, false);
                }
            }
        }
    });
    if tier == Tier::Thorough {
        let l6 = lattice(5);
        let n6 = l6.len();
        par_for(n6, 1, |i| {
            for j in i + 1..n6 {
                for k in j + 1..n6 {
                    if (i + 2 * j + 3 * k) % 4 == 0 {
                        check_int(&[l6[i], l6[j], l6[k]], 5, false);
                    }
                }
            }
        });
    }

    // boxes of very different sizes on a 12-cell lattice (a bus behind a row of pedestrians): unit boxes at even
    // columns of two rows, and wide / tall boxes that reach across several of them - every set of 3 and of 4 boxes
    // that holds at least one small and one large box, all orderings of the 3-sets
    {
        let mut small: Vec<(i32, i32, i32, i32)> = vec![];
        for x in [0, 2, 5, 8, 11] {
            for y in [0, 4] {
                small.push((x, y, x + 1, y + 1));
            }
        }
        let large: Vec<(i32, i32, i32, i32)> = vec![(0, 0, 12, 2), (0, 0, 12, 6), (4, 0, 12, 5), (0, 0, 7, 6), (1, 3, 12, 6), (0, 0, 3, 12)];
        let menu: Vec<(i32, i32, i32, i32)> = small.iter().chain(large.iter()).cloned().collect();
        let ns = small.len();
        let nm = menu.len();
        let sets = AtomicU64::new(0);
        par_for(nm, 1, |i| {
            for j in i + 1..nm {
                for k in j + 1..nm {
                    if i < ns && k >= ns {
                        sets.fetch_add(1, Ordering::Relaxed);
                        check_int(&[menu[i], menu[j], menu[k]], 12, true);
                    }
                    for l in k + 1..nm {
                        if i < ns && l >= ns && (tier == Tier::Thorough || (i + j + k + l) % 2 == 0) {
                            sets.fetch_add(1, Ordering::Relaxed);
                            check_int(&[menu[l], menu[j], menu[i], menu[k]], 12, false);
                        }
                    }
                }
            }
        });
        rep.extra("mixed_size_sets", json!(sets.load(Ordering::Relaxed)));
    }

    // near-degenerate and rotated families against inclusion-exclusion
    let angles: Vec<Option<f32>> = vec![None, Some(0.0), Some(PI / 6.0), Some(PI / 4.0), Some(PI / 2.0), Some(PI), Some(2.0 * PI + PI / 6.0), Some(-PI / 3.0), Some(3.0 * PI / 2.0)];
    let mut fam: Vec<(String, Vec<Universal2DBox>)> = vec![];
    for &a in &angles {
        for &b in &angles {
            for &(ox, oy) in &[(0.0f32, 0.0f32), (1.0, 0.0), (2.0, 0.0), (0.5, 0.5), (0.0, 1.0), (3.0, 3.0)] {
                let b1 = Universal2DBox::new(0.0, 0.0, a, 2.0, 1.0);
                let b2 = Universal2DBox::new(ox, oy, b, 0.5, 2.0);
                let b3 = Universal2DBox::new(-ox * 0.5, oy * 0.5, a, 1.0, 1.5);
                fam.push((format!("pair/{a:?}/{b:?}/{ox},{oy}"), vec![b1.clone(), b2.clone()]));
                fam.push((format!("triple/{a:?}/{b:?}/{ox},{oy}"), vec![b1, b2, b3]));
            }
        }
    }
    for k in 1..=8usize {
        // identical boxes, shared edges (row of touching boxes), collinear edges (staircase), overlapping chain
        fam.push((format!("identical/{k}"), (0..k).map(|_| Universal2DBox::ltwh(1.0, 1.0, 4.0, 2.0)).collect()));
        fam.push((format!("touching-row/{k}"), (0..k).map(|i| Universal2DBox::ltwh(i as f32 * 4.0, 0.0, 4.0, 2.0)).collect()));
        fam.push((format!("staircase/{k}"), (0..k).map(|i| Universal2DBox::ltwh(i as f32 * 2.0, i as f32, 4.0, 2.0)).collect()));
        fam.push((format!("chain/{k}"), (0..k).map(|i| Universal2DBox::ltwh(i as f32 * 1.5, 0.25 * i as f32, 4.0, 2.0)).collect()));
        fam.push((format!("right-angle-fan/{k}"), (0..k).map(|i| Universal2DBox::new(0.0, 0.0, Some(i as f32 * PI / 2.0), 2.0, 1.0 + 0.25 * i as f32)).collect()));
        fam.push((format!("rot-chain/{k}"), (0..k).map(|i| Universal2DBox::new(i as f32 * 0.75, 0.0, Some(0.3 + 0.2 * i as f32), 0.5, 3.0)).collect()));
    }
    // a frame-sized box with detections a few pixels across inside it, on its border and outside (area ratios of
    // 1e5 .. 1e6: whatever decides which pairs are clipped against each other must not be relative to the big box)
    for (fw, fh) in [(1920.0f32, 1080.0f32), (4000.0, 3000.0), (640.0, 480.0)] {
        for (k, small) in [(4.0f32, 4.0f32), (3.0, 5.0), (10.0, 10.0)].iter().enumerate() {
            let (sw, sh) = *small;
            fam.push((format!("frame-and-small/{fw}x{fh}/{k}"), vec![
                Universal2DBox::ltwh(0.0, 0.0, fw, fh),
                Universal2DBox::ltwh(100.0, 100.0, sw, sh),
                Universal2DBox::ltwh(fw - sw / 2.0, 200.0, sw, sh),
                Universal2DBox::ltwh(fw + 50.0, 20.0, sw, sh),
                Universal2DBox::new(300.0, 400.0, Some(0.5), sw / sh, sh),
            ]));
            fam.push((format!("small-then-frame/{fw}x{fh}/{k}"), vec![
                Universal2DBox::ltwh(250.0, fh - sh / 2.0, sw, sh),
                Universal2DBox::ltwh(0.0, 0.0, fw, fh),
            ]));
        }
    }
    par_for(fam.len(), 1, |fi| {
        let (name, boxes) = &fam[fi];
        evals.fetch_add(1, Ordering::Relaxed);
        let polys: Vec<Vec<(f64, f64)>> = boxes.iter().map(|b| RBox::from_u(b).corners()).collect();
        let case = || json!({"family":name,"boxes":boxes.iter().map(bj).collect::<Vec<_>>()});
        let kind = name.split('/').next().unwrap_or("").to_string();
        match shares(boxes) {
            Err(m) => rep.violation(Violation { key: format!("own-area/panic/{kind}"), what: m, replay: case() }),
            Ok(s) => {
                let mut any = false;
                for i in 0..boxes.len() {
                    let others: Vec<Vec<(f64, f64)>> = polys.iter().enumerate().filter(|(j, _)| *j != i).map(|(_, p)| p.clone()).collect();
                    let area = RBox::from_u(&boxes[i]).area();
                    let cov = geom::covered_area(&polys[i], &others);
                    let exp = ((area - cov) / area).clamp(0.0, 1.0);
                    if exp < 1.0 {
                        any = true;
                    }
                    if !(s[i] >= 0.0 && s[i] <= 1.0) || (s[i] as f64 - exp).abs() > 1e-4 {
                        rep.violation(Violation { key: format!("own-area/value/{kind}"), what: format!("box {i}: share {} expected {exp}", s[i]), replay: case() });
                    }
                }
                if any {
                    nontrivial.fetch_add(1, Ordering::Relaxed);
                }
                // order independence: reversed order
                let rev: Vec<Universal2DBox> = boxes.iter().rev().cloned().collect();
                if let Ok(rs) = shares(&rev) {
                    for i in 0..boxes.len() {
                        if (rs[boxes.len() - 1 - i] - s[i]).abs() > 1e-5 {
                            rep.violation(Violation { key: format!("own-area/order-dependent/{kind}"), what: format!("box {i}: {} reversed vs {}", rs[boxes.len() - 1 - i], s[i]), replay: case() });
                        }
                    }
                }
            }
        }
    });
        // a rotated box across / inside an axis-aligned one (angle None): the rotated outline sticks out although
    // the unrotated footprint of the same box would fit inside
    {
        let mut n = 0u64;
        for (bw, bh) in [(6.0f32, 20.0f32), (10.0, 10.0), (12.0, 12.0)] {
            let big = Universal2DBox::new(0.0, 0.0, None, bw / bh, bh);
            for (w, h) in [(2.0f32, 18.0f32), (9.0, 9.0), (3.0, 9.0), (1.0, 11.0)] {
                for ang in [PI / 2.0, PI / 4.0, 0.3, -1.0, PI] {
                    for (ox, oy) in [(0.0f32, 0.0f32), (0.5, 0.25), (1.5, -0.5)] {
                        let small = Universal2DBox::new(ox, oy, Some(ang), w / h, h);
                        for order in 0..2 {
                            let boxes = if order == 0 { vec![big.clone(), small.clone()] } else { vec![small.clone(), big.clone()] };
                            n += 1;
                            let polys: Vec<Vec<(f64, f64)>> = boxes.iter().map(|b| RBox::from_u(b).corners()).collect();
                            match shares(&boxes) {
                                Err(m) => rep.violation(Violation { key: "own-area/panic/rotated-in-upright".into(), what: m, replay: json!({"boxes":boxes.iter().map(bj).collect::<Vec<_>>()}) }),
                                Ok(sv) => {
                                    for i in 0..2 {
                                        let area = RBox::from_u(&boxes[i]).area();
                                        let exp = ((area - geom::covered_area(&polys[i], &[polys[1 - i].clone()])) / area).clamp(0.0, 1.0);
                                        if !(sv[i] >= 0.0 && sv[i] <= 1.0) || (sv[i] as f64 - exp).abs() > 1e-4 {
                                            rep.violation(Violation { key: "own-area/value/rotated-in-upright".into(), what: format!("box {i}: share {} expected {exp}", sv[i]), replay: json!({"boxes":boxes.iter().map(bj).collect::<Vec<_>>()}) });
                                        }
                                    }
                                }
                            }
                        }
                    }
                }
            }
        }
        evals.fetch_add(n, Ordering::Relaxed);
        nontrivial.fetch_add(n, Ordering::Relaxed);
        rep.extra("rotated_box_in_an_upright_box_pairs", json!(n));
    }
    // crowds: 9..=40 boxes (more than one work chunk of the parallel stage), each overlapping at most two others;
    // the reference considers only the neighbours that really intersect the box; every rotation of the input
    // order by 1 and by half the length gives the same share for the same box
    {
        let mut crowds = 0u64;
        for k in 9..=40usize {
            let mut fams: Vec<(&str, Vec<Universal2DBox>)> = vec![];
            fams.push(("crowd-pairs", (0..k).map(|i| if i % 2 == 0 { Universal2DBox::ltwh(10.0 * i as f32, 0.0, 4.0, 2.0) } else { Universal2DBox::ltwh(10.0 * (i - 1) as f32 + 2.0, 0.5, 4.0, 2.0) }).collect()));
            fams.push(("crowd-chain", (0..k).map(|i| Universal2DBox::ltwh(3.0 * i as f32, 0.25 * (i % 2) as f32, 4.0, 2.0)).collect()));
            fams.push(("crowd-tail", (0..k).map(|i| if i + 3 < k { Universal2DBox::ltwh(10.0 * i as f32, 0.0, 4.0, 2.0) } else if i + 3 == k { Universal2DBox::ltwh(-50.0, -50.0, 6.0, 6.0) } else if i + 2 == k { Universal2DBox::ltwh(-49.0, -49.0, 2.0, 2.0) } else { Universal2DBox::new(-47.0, -44.0, Some(0.3), 1.0, 3.0) }).collect()));
            for (name, boxes) in fams {
                crowds += 1;
                evals.fetch_add(1, Ordering::Relaxed);
                nontrivial.fetch_add(1, Ordering::Relaxed);
                let polys: Vec<Vec<(f64, f64)>> = boxes.iter().map(|b| RBox::from_u(b).corners()).collect();
                let case = || json!({"family":name,"k":k,"boxes":boxes.iter().map(bj).collect::<Vec<_>>()});
                let expected: Vec<f64> = (0..k)
                    .map(|i| {
                        let near: Vec<Vec<(f64, f64)>> = polys.iter().enumerate().filter(|(j, p)| *j != i && geom::shoelace(&geom::convex_clip(&polys[i], p)).abs() > 0.0).map(|(_, p)| p.clone()).collect();
                        let area = RBox::from_u(&boxes[i]).area();
                        ((area - geom::covered_area(&polys[i], &near)) / area).clamp(0.0, 1.0)
                    })
                    .collect();
                match shares(&boxes) {
                    Err(m) => rep.violation(Violation { key: format!("own-area/panic/{name}"), what: m, replay: case() }),
                    Ok(sv) => {
                        for i in 0..k {
                            if !(sv[i] >= 0.0 && sv[i] <= 1.0) || (sv[i] as f64 - expected[i]).abs() > 1e-4 {
                                rep.violation(Violation { key: format!("own-area/value/{name}"), what: format!("{k} boxes, box {i}: share {} expected {}", sv[i], expected[i]), replay: case() });
                                break;
                            }
                        }
                        for r in [1usize, k / 2] {
                            let rot: Vec<Universal2DBox> = (0..k).map(|i| boxes[(i + r) % k].clone()).collect();
                            if let Ok(rs) = shares(&rot) {
                                if (0..k).any(|i| (rs[i] - sv[(i + r) % k]).abs() > 1e-5) {
                                    rep.violation(Violation { key: format!("own-area/order-dependent/{name}"), what: format!("{k} boxes: the shares change when the input order is rotated by {r}"), replay: case() });
                                }
                            }
                        }
                    }
                }
            }
        }
        rep.extra("crowds_of_9_to_40_boxes", json!(crowds));
    }
    // prepared-then-changed boxes: a rotated box whose polygon was generated (gen_vertices) and which was then
    // moved / turned / resized in place - with or without generating the polygon again - owns what a freshly
    // constructed box with the same fields owns
    {
        let prep = |t: &Universal2DBox, how: usize| -> Universal2DBox {
            let mut b = match how {
                0 => return t.clone(),
                1 | 2 => Universal2DBox::new(t.xc + 7.0, t.yc - 3.0, t.angle, t.aspect, t.height),
                3 | 4 => Universal2DBox::new(t.xc, t.yc, Some(t.angle.unwrap_or(0.0) + 0.9), t.aspect, t.height),
                _ => Universal2DBox::new(t.xc, t.yc, t.angle, t.aspect * 2.0, t.height * 0.5),
            };
            b.gen_vertices();
            b.xc = t.xc;
            b.yc = t.yc;
            b.aspect = t.aspect;
            b.height = t.height;
            match t.angle {
                Some(a) => b.rotate_mut(a),
                None => b.angle = None,
            }
            if how == 2 || how == 4 {
                b.gen_vertices(); // generated again after the change
            }
            b
        };
        let menu: Vec<Universal2DBox> = vec![
            Universal2DBox::new(0.0, 0.0, Some(0.3), 2.0, 2.0),
            Universal2DBox::new(1.0, 0.5, Some(-0.5), 0.5, 4.0),
            Universal2DBox::new(2.0, 0.0, Some(PI / 2.0), 2.0, 2.0),
            Universal2DBox::new(0.5, 1.5, Some(1.1), 1.0, 3.0),
        ];
        let mut n = 0u64;
        for a in 0..menu.len() {
            for b in 0..menu.len() {
                for c in 0..=menu.len() {
                    if a == b || c == a || c == b {
                        continue;
                    }
                    let mut ts = vec![menu[a].clone(), menu[b].clone()];
                    if c < menu.len() {
                        ts.push(menu[c].clone());
                    }
                    let Ok(base) = shares(&ts) else { continue };
                    for code in 1..6usize.pow(ts.len() as u32) {
                        let mut k = code;
                        let bs: Vec<Universal2DBox> = ts.iter().map(|t| { let h = k % 6; k /= 6; prep(t, h) }).collect();
                        n += 1;
                        match shares(&bs) {
                            Ok(v) => {
                                if v.iter().zip(base.iter()).any(|(x, y)| (x - y).abs() > 1e-6) {
                                    rep.violation(Violation { key: "own-area/prepared-then-changed-box".into(), what: format!("shares {v:?} for boxes whose polygons were generated before they were changed in place (preparation code {code}), {base:?} for freshly constructed boxes with the same fields"), replay: json!({"boxes":ts.iter().map(bj).collect::<Vec<_>>(),"preparation_code":code}) });
                                }
                            }
                            Err(e) => rep.violation(Violation { key: "own-area/panic".into(), what: e, replay: json!({"boxes":ts.iter().map(bj).collect::<Vec<_>>(),"preparation_code":code}) }),
                        }
                    }
                }
            }
        }
        evals.fetch_add(n, Ordering::Relaxed);
        rep.extra("prepared_then_changed_sets", json!(n));
    }
    // the shares as VisualSORT computes and stores them (own-area thresholds configured): the share kept with the newest
    // observation of every track is that of ITS box among the boxes of ITS frame - simple tracker frame by frame,
    // batch tracker with two and three scenes of different sets (and sizes) in one batch, every assignment of sets to scenes
    {
        use super::trk::*;
        use crate::sched::{in_shuttle, Guarded};
        let sets: Vec<Vec<(i32, i32, i32, i32)>> = vec![
            vec![(0, 0, 10, 10), (5, 0, 15, 10)],
            vec![(0, 0, 10, 10), (30, 0, 40, 10), (60, 0, 70, 10)],
            vec![(0, 0, 20, 20), (5, 5, 10, 10), (40, 0, 50, 10), (45, 0, 55, 10)],
        ];
        let expected: Vec<Vec<f64>> = sets.iter().map(|b| (0..b.len()).map(|i| exact_share(b, i, 80)).collect()).collect();
        let mut n = 0u64;
        for kind in [Kind::VisualSort, Kind::BatchVisualSort] {
            for perm in super::hung::permutations(3) {
                for scenes_in_batch in [1usize, 2, 3] {
                    if kind == Kind::VisualSort && scenes_in_batch > 1 {
                        continue;
                    }
                    let (sets2, exp2, perm2) = (sets.clone(), expected.clone(), perm.clone());
                    n += 1;
                    let r = in_shuttle(move || {
                        let mut cfg = TrkCfg::new(kind);
                        cfg.vis.own_use = 0.01;
                        cfg.voting_shards = 2;
                        let mut t = Guarded::new(AnyTrk::new(&cfg));
                        let mut bad: Vec<String> = vec![];
                        // scene k carries set perm[k]
                        let frame = |set: usize| -> Vec<Det> {
                            sets2[set].iter().enumerate().map(|(i, b)| {
                                let mut f = vec![0.0f32; 8];
                                f[i % 8] = 1.0;
                                Det::ltwh(b.0 as f32, b.1 as f32, (b.2 - b.0) as f32, (b.3 - b.1) as f32).feat(&f, 0.9)
                            }).collect()
                        };
                        let mut results: Vec<(u64, Vec<Rec>)> = vec![];
                        if kind == Kind::VisualSort {
                            for k in 0..3usize {
                                results.push((k as u64, t.predict(k as u64, &frame(perm2[k]))));
                            }
                        } else {
                            let mut k = 0usize;
                            while k < 3 {
                                let batch: Vec<(u64, Vec<Det>)> = (k..(k + scenes_in_batch).min(3)).map(|s| (s as u64, frame(perm2[s]))).collect();
                                let res = t.submit_batch(&batch);
                                for _ in 0..res.batch_size() {
                                    let (s, v) = res.get();
                                    results.push((s, v.iter().map(Rec::from).collect()));
                                }
                                k += scenes_in_batch;
                            }
                        }
                        let stored = t.all_stored(false, 1);
                        for (scene, recs) in &results {
                            let set = perm2[*scene as usize];
                            if recs.len() != sets2[set].len() {
                                bad.push(format!("scene {scene}: {} records", recs.len()));
                                continue;
                            }
                            for (i, r) in recs.iter().enumerate() {
                                let share = stored.iter().find(|x| x.id == r.id).and_then(|x| x.obs0.first().and_then(|o| o.2)).map(f32::from_bits);
                                match share {
                                    Some(sh) if (sh as f64 - exp2[set][i]).abs() <= 1e-4 => {}
                                    other => bad.push(format!("scene {scene} (set {set}), box {i}: the share kept with the detection is {other:?}, the uncovered fraction of the box in its frame is {}", exp2[set][i])),
                                }
                            }
                        }
                        bad
                    });
                    match r {
                        Ok(bad) => {
                            for w in bad.into_iter().take(1) {
                                rep.violation(Violation { key: "own-area/as-stored-by-the-tracker".into(), what: w, replay: json!({"family":"shares as the visual trackers store them","tracker":kind.name(),"sets_of_scenes_0_1_2":perm,"scenes_per_batch":scenes_in_batch,"sets":sets.iter().map(|b| b.iter().map(|x| json!([x.0,x.1,x.2,x.3])).collect::<Vec<_>>()).collect::<Vec<_>>()}) });
                            }
                        }
                        Err(e) => rep.violation(Violation { key: "own-area/tracker-panic".into(), what: e.chars().take(300).collect(), replay: json!({"family":"shares as the visual trackers store them","tracker":kind.name(),"sets_of_scenes_0_1_2":perm,"scenes_per_batch":scenes_in_batch}) }),
                    }
                }
            }
        }
        evals.fetch_add(n, Ordering::Relaxed);
        rep.extra("tracker_level_runs", json!(n));
    }
let e = evals.load(Ordering::Relaxed);
    rep.add(e, e, e, e);
    rep.distinct_count(nontrivial.load(Ordering::Relaxed));
    rep.sample(json!({"integer_boxes":[[0,0,2,2],[1,1,3,3],[2,2,4,4]],"expected_shares":[0.75,0.5,0.75]}));
    rep.sample(json!({"family":"right-angle-fan/3"}));
    rep
}
