//! Self-test of the one place where something other than Similari's own code runs under the
//! cfg: the MPMC channel shim of src/verif.rs. Fixed producer/consumer scripts are run (a) on the
//! shim under ALL schedules of the controlled scheduler and (b) on real crossbeam with real threads;
//! every crossbeam outcome must be among the shim's outcomes, and every shim outcome must satisfy
//! the channel invariants (per-sender FIFO, no loss, no duplication, errors only on disconnect).

use crate::common::*;
use crate::sched;
use serde_json::json;
use std::collections::BTreeSet;
use std::sync::Mutex;

#[derive(Clone, Copy, Debug)]
struct Script {
    cap: Option<usize>,
    /// items per sender
    per_sender: usize,
    /// receiver stops after this many items and drops its end (None = drain until disconnected)
    recv_limit: Option<usize>,
    /// second receiver present (MPMC)
    two_receivers: bool,
}

type Outcome = (Vec<Vec<u32>>, Vec<u32>); // (items received per receiver, number of failed sends per sender)

macro_rules! body {
    ($chan:path, $spawn:path, $s:expr) => {{
        use $chan as ch;
        let s: Script = $s;
        let (tx, rx) = match s.cap {
            Some(c) => ch::bounded::<u32>(c),
            None => ch::unbounded::<u32>(),
        };
        let mut senders = vec![];
        for k in 0..2u32 {
            let tx = tx.clone();
            senders.push($spawn(move || {
                let mut failed = 0u32;
                for i in 0..s.per_sender as u32 {
                    if tx.send(k * 100 + i).is_err() {
                        failed += 1;
                    }
                }
                failed
            }));
        }
        drop(tx);
        let mut receivers = vec![];
        let nrecv = if s.two_receivers { 2 } else { 1 };
        for _ in 0..nrecv {
            let rx = rx.clone();
            receivers.push($spawn(move || {
                let mut got = vec![];
                loop {
                    if let Some(l) = s.recv_limit {
                        if got.len() >= l {
                            break;
                        }
                    }
                    match rx.recv() {
                        Ok(v) => got.push(v),
                        Err(_) => break,
                    }
                }
                got
            }));
        }
        drop(rx);
        let failed: Vec<u32> = senders.into_iter().map(|h| h.join().unwrap()).collect();
        let got: Vec<Vec<u32>> = receivers.into_iter().map(|h| h.join().unwrap()).collect();
        (got, failed)
    }};
}

fn run_shim(s: Script) -> Outcome {
    body!(similari::verif::crossbeam::channel, shuttle::thread::spawn, s)
}

fn run_real(s: Script) -> Outcome {
    body!(crossbeam::channel, std::thread::spawn, s)
}

fn invariants(s: &Script, o: &Outcome) -> Result<(), String> {
    let all: Vec<u32> = o.0.iter().flatten().cloned().collect();
    let mut seen = BTreeSet::new();
    for v in &all {
        if !seen.insert(*v) {
            return Err(format!("item {v} delivered twice"));
        }
    }
    for got in &o.0 {
        for k in 0..2u32 {
            let from_k: Vec<u32> = got.iter().filter(|v| **v / 100 == k).cloned().collect();
            if from_k.windows(2).any(|w| w[0] > w[1]) {
                return Err(format!("receiver saw sender {k}'s items out of order: {from_k:?}"));
            }
        }
    }
    let sent_ok: usize = (0..2).map(|k| s.per_sender - o.1[k] as usize).sum();
    if s.recv_limit.is_none() {
        // receivers drain until disconnected: nothing may be lost and no send may fail
        if o.1.iter().any(|f| *f > 0) {
            return Err(format!("send failed although a receiver was draining: {:?}", o.1));
        }
        if all.len() != 2 * s.per_sender {
            return Err(format!("{} of {} items delivered", all.len(), 2 * s.per_sender));
        }
    } else if all.len() > sent_ok {
        return Err(format!("{} items delivered but only {sent_ok} sends succeeded", all.len()));
    }
    Ok(())
}

/// returns a JSON summary; any failure is a machinery error (the facade cannot be trusted)
pub fn channel_shim_selftest(tier: Tier) -> serde_json::Value {
    let scripts = vec![
        Script { cap: Some(1), per_sender: 2, recv_limit: None, two_receivers: false },
        Script { cap: None, per_sender: 2, recv_limit: None, two_receivers: false },
        Script { cap: Some(1), per_sender: 2, recv_limit: Some(1), two_receivers: false },
        Script { cap: None, per_sender: 2, recv_limit: Some(2), two_receivers: false },
        Script { cap: Some(1), per_sender: 1, recv_limit: None, two_receivers: true },
        Script { cap: Some(2), per_sender: tier.pick(2, 3), recv_limit: Some(3), two_receivers: false },
    ];
    let mut summary = vec![];
    for s in scripts {
        // real crossbeam, real threads
        let mut real: BTreeSet<String> = BTreeSet::new();
        for _ in 0..tier.pick(300, 3000) {
            let o = run_real(s);
            if let Err(e) = invariants(&s, &o) {
                machinery_error(&format!("the invariant checker rejects a real crossbeam outcome ({e}): the self-test itself is wrong"));
            }
            let mut g = o.0.clone();
            g.sort();
            real.insert(format!("{:?}", (g, &o.1)));
        }
        // the shim under the controlled scheduler: every synchronisation operation is a decision point;
        // the number of departures from the default schedule is raised until every crossbeam outcome
        // has been reproduced (or the exploration is complete / capped)
        let outcomes: Mutex<BTreeSet<String>> = Mutex::new(BTreeSet::new());
        let mut schedules = 0u64;
        let mut bound_used = 0usize;
        let mut complete = false;
        for bound in 1..=tier.pick(5usize, 7usize) {
            let bad: Mutex<Option<String>> = Mutex::new(None);
            let cfg = sched::ExploreCfg { mode: sched::Mode::Fine, count_all_deviations: true, bound, max_execs: tier.pick(150_000, 2_000_000), ..Default::default() };
            let stats = sched::explore(&cfg, move || run_shim(s), |x| match &x.outcome {
                sched::Outcome::Done(o) => {
                    if let Err(e) = invariants(&s, o) {
                        *bad.lock().unwrap() = Some(format!("shim violates a channel invariant in script {s:?}: {e} (outcome {o:?})"));
                    }
                    // outcomes are compared up to the order of the two receivers
                    let mut g = o.0.clone();
                    g.sort();
                    outcomes.lock().unwrap().insert(format!("{:?}", (g, &o.1)));
                }
                other => *bad.lock().unwrap() = Some(format!("shim script {s:?} ended with {other:?}")),
            });
            if let Some(b) = bad.lock().unwrap().take() {
                machinery_error(&b);
            }
            schedules += stats.executions;
            bound_used = bound;
            // no deviation budget was ever exhausted = the whole tree was explored
            complete = !stats.truncated && stats.max_points <= bound;
            let shim = outcomes.lock().unwrap();
            if real.iter().all(|r| shim.contains(r)) || stats.truncated {
                break;
            }
        }
        let shim = outcomes.into_inner().unwrap();
        let missing: Vec<&String> = real.iter().filter(|r| !shim.contains(*r)).collect();
        if !missing.is_empty() && complete {
            machinery_error(&format!("real crossbeam produced an outcome the shim cannot produce in script {s:?}: {missing:?}"));
        }
        summary.push(json!({"script":format!("{s:?}"),"shim_schedules":schedules,"deviation_bound_reached":bound_used,"shim_outcomes":shim.len(),"crossbeam_outcomes_seen":real.len(),"crossbeam_outcomes_not_reproduced_within_bound":missing.len()}));
    }
    json!(summary)
}
