//! Shared plumbing: run context (tier, seed, caps), evidence writer, known-findings matcher,
//! violation / replay files, a work-stealing parallel loop.

use serde_json::{json, Map, Value};
use std::collections::{BTreeMap, BTreeSet};
use std::hash::{Hash, Hasher};
use std::sync::atomic::{AtomicU64, AtomicUsize, Ordering};
use std::sync::Mutex;
use std::time::Instant;

/// root of the verification tree (evidence/, replays/, known_findings.json); `VERIF_DIR` overrides it so
/// that background runs from a snapshot do not overwrite the live evidence
/// id of the check that is running (set by `Report::new`): the panic hook needs it when the checked library
/// brings the whole process down.
pub static CURRENT_CHECK: Mutex<Option<(String, String)>> = Mutex::new(None);

/// The checked library panicked inside a destructor while another of its destructors was already unwinding
/// (e.g. both stores of a tracker whose shard worker died): Rust aborts the process, nothing can be caught.
/// This is a failure of the code under test on an explored input, so it is reported as a violation - with the
/// first panic as the description - before the abort happens. (On the unchanged tree no execution gets here.)
pub fn abort_verdict(first_panic: &str) -> ! {
    let (id, tier) = CURRENT_CHECK.lock().map(|g| g.clone()).unwrap_or(None).unwrap_or(("UNKNOWN".into(), "quick".into()));
    let dir = format!("{}/replays/{}", verif_dir(), id);
    let _ = std::fs::create_dir_all(&dir);
    let path = format!("{dir}/process_abort_0.json");
    let body = json!({
        "property": id, "tier": tier, "key": format!("{}/panic-in-a-destructor-during-cleanup", id.to_lowercase()),
        "what": format!("the library panicked in a destructor while another panic of a destructor was unwinding - the process would abort; first panic: {first_panic}"),
        "replay": {"note": "re-run the check: the enumeration is deterministic and reaches the same execution"},
    });
    let _ = std::fs::write(&path, serde_json::to_string_pretty(&body).unwrap_or_default());
    println!("VIOLATION property={id} replay={path}");
    println!("  key={}/panic-in-a-destructor-during-cleanup what=first panic: {}", id.to_lowercase(), first_panic.chars().take(300).collect::<String>());
    use std::io::Write;
    let _ = std::io::stdout().flush();
    std::process::exit(1)
}

pub fn verif_dir() -> String {
    std::env::var("VERIF_DIR").unwrap_or_else(|_| "/verif".to_string())
}

#[derive(Clone, Copy, PartialEq, Eq, Debug)]
pub enum Tier {
    Quick,
    Thorough,
}

impl Tier {
    pub fn name(self) -> &'static str {
        match self {
            Tier::Quick => "quick",
            Tier::Thorough => "thorough",
        }
    }
    pub fn pick<T>(self, q: T, t: T) -> T {
        match self {
            Tier::Quick => q,
            Tier::Thorough => t,
        }
    }
}

pub fn n_threads() -> usize {
    std::env::var("VERIF_THREADS")
        .ok()
        .and_then(|s| s.parse().ok())
        .unwrap_or_else(|| {
            std::thread::available_parallelism()
                .map(|n| n.get())
                .unwrap_or(4)
                .min(16)
        })
}

/// One violation of the property, produced by a monitor.
#[derive(Clone, Debug)]
pub struct Violation {
    /// call site + shape of the counterexample (no concrete numbers): matched against known findings
    pub key: String,
    /// human-readable description of what was observed versus expected
    pub what: String,
    /// everything needed to re-execute the case
    pub replay: Value,
}

#[derive(Clone, Debug)]
pub struct Finding {
    pub property: String,
    pub status: String,
    pub key: String,
    pub what: String,
    pub commit: Option<String>,
}

pub fn load_findings() -> Vec<Finding> {
    let p = format!("{}/known_findings.json", verif_dir());
    let Ok(s) = std::fs::read_to_string(&p) else {
        return vec![];
    };
    let v: Value = serde_json::from_str(&s).unwrap_or_else(|e| {
        eprintln!("MACHINERY-ERROR: {p} does not parse: {e}");
        std::process::exit(2)
    });
    v.as_array()
        .map(|a| {
            a.iter()
                .map(|e| Finding {
                    property: e["property"].as_str().unwrap_or("").to_string(),
                    status: e["status"].as_str().unwrap_or("").to_string(),
                    key: e["key"].as_str().unwrap_or("").to_string(),
                    what: e["what"].as_str().unwrap_or("").to_string(),
                    commit: e["commit"].as_str().map(|s| s.to_string()),
                })
                .collect()
        })
        .unwrap_or_default()
}

/// Collects coverage counters and violations of one check run and writes the evidence file.
pub struct Report {
    pub id: String,
    pub tier: Tier,
    pub seed: u64,
    start: Instant,
    pub states: AtomicU64,
    pub transitions: AtomicU64,
    pub traces: AtomicU64,
    pub evaluations: AtomicU64,
    distinct: Mutex<BTreeSet<u64>>,
    distinct_extra: AtomicU64,
    pub rule: Mutex<String>,
    samples: Mutex<Vec<Value>>,
    extra: Mutex<Map<String, Value>>,
    assumptions: Mutex<Vec<String>>,
    violations: Mutex<BTreeMap<String, (u64, Vec<Violation>)>>,
    pub exhaustive: Mutex<bool>,
    caps_hit: Mutex<Vec<String>>,
    sample_cap: usize,
}

pub fn hash_of<T: Hash>(t: &T) -> u64 {
    let mut h = std::collections::hash_map::DefaultHasher::new();
    t.hash(&mut h);
    h.finish()
}

impl Report {
    pub fn new(id: &str, tier: Tier) -> Self {
        let seed = std::env::var("VERIF_SEED")
            .ok()
            .and_then(|s| s.parse::<u64>().ok())
            .unwrap_or(0);
        if let Ok(mut g) = CURRENT_CHECK.lock() {
            *g = Some((id.to_string(), tier.name().to_string()));
        }
        Report {
            id: id.to_string(),
            tier,
            seed,
            start: Instant::now(),
            states: AtomicU64::new(0),
            transitions: AtomicU64::new(0),
            traces: AtomicU64::new(0),
            evaluations: AtomicU64::new(0),
            distinct: Mutex::new(BTreeSet::new()),
            distinct_extra: AtomicU64::new(0),
            rule: Mutex::new(String::new()),
            samples: Mutex::new(vec![]),
            extra: Mutex::new(Map::new()),
            assumptions: Mutex::new(vec![]),
            violations: Mutex::new(BTreeMap::new()),
            exhaustive: Mutex::new(true),
            caps_hit: Mutex::new(vec![]),
            sample_cap: 6,
        }
    }

    pub fn elapsed(&self) -> f64 {
        self.start.elapsed().as_secs_f64()
    }

    /// wall budget (seconds) for engines that iterate bounds until a cap
    pub fn budget(&self) -> f64 {
        let d = match self.tier {
            Tier::Quick => 45.0,
            Tier::Thorough => 1200.0,
        };
        std::env::var("VERIF_BUDGET_S")
            .ok()
            .and_then(|s| s.parse().ok())
            .unwrap_or(d)
    }

    pub fn out_of_time(&self) -> bool {
        self.elapsed() > self.budget()
    }

    pub fn cap_hit(&self, what: &str) {
        *self.exhaustive.lock().unwrap() = false;
        let mut c = self.caps_hit.lock().unwrap();
        if c.len() < 50 {
            c.push(what.to_string());
        }
    }

    pub fn set_rule(&self, r: &str) {
        *self.rule.lock().unwrap() = r.to_string();
    }

    pub fn assume(&self, a: &str) {
        self.assumptions.lock().unwrap().push(a.to_string());
    }

    pub fn add(&self, states: u64, transitions: u64, traces: u64, evaluations: u64) {
        self.states.fetch_add(states, Ordering::Relaxed);
        self.transitions.fetch_add(transitions, Ordering::Relaxed);
        self.traces.fetch_add(traces, Ordering::Relaxed);
        self.evaluations.fetch_add(evaluations, Ordering::Relaxed);
    }

    /// record a hash of a distinct non-trivial case (de-duplicated)
    pub fn distinct(&self, h: u64) {
        self.distinct.lock().unwrap().insert(h);
    }

    pub fn distinct_many(&self, hs: impl IntoIterator<Item = u64>) {
        let mut d = self.distinct.lock().unwrap();
        for h in hs {
            d.insert(h);
        }
    }

    /// count cases that are distinct by construction (enumerated without repetition)
    pub fn distinct_count(&self, n: u64) {
        self.distinct_extra.fetch_add(n, Ordering::Relaxed);
    }

    /// keep a sample; `rank` rotates with VERIF_SEED which cases are kept
    pub fn sample(&self, v: Value) {
        let mut s = self.samples.lock().unwrap();
        if s.len() < self.sample_cap {
            s.push(v);
        }
    }

    pub fn want_sample(&self, index: u64) -> bool {
        // the seed only selects which cases are printed
        let s = self.samples.lock().unwrap();
        s.len() < self.sample_cap && (index.wrapping_add(self.seed)) % 7 == 0
    }

    pub fn extra(&self, k: &str, v: Value) {
        self.extra.lock().unwrap().insert(k.to_string(), v);
    }

    pub fn extra_add(&self, k: &str, n: u64) {
        let mut e = self.extra.lock().unwrap();
        let cur = e.get(k).and_then(|v| v.as_u64()).unwrap_or(0);
        e.insert(k.to_string(), json!(cur + n));
    }

    pub fn violation(&self, v: Violation) {
        let mut m = self.violations.lock().unwrap();
        let e = m.entry(v.key.clone()).or_insert((0, vec![]));
        e.0 += 1;
        if e.1.len() < 3 {
            e.1.push(v);
        }
    }

    pub fn n_violation_keys(&self) -> usize {
        self.violations.lock().unwrap().len()
    }

    /// Write evidence, print verdict lines, return the process exit code.
    pub fn finish(self) -> i32 {
        let findings = load_findings();
        for (i, msg) in ITEM_PANICS.lock().unwrap_or_else(|x| x.into_inner()).drain(..) {
            self.violation(Violation {
                key: format!("{}/panic-on-valid-input", self.id.to_lowercase()),
                what: format!("evaluating item #{i} of an enumerated grid panicked: {}", msg.chars().take(300).collect::<String>()),
                replay: json!({"grid_item": i, "panic": msg.chars().take(300).collect::<String>()}),
            });
            self.cap_hit("a grid item panicked: the enumeration was stopped early");
        }
        let viol = self.violations.lock().unwrap_or_else(|x| x.into_inner());
        let mut unlisted = 0u64;
        let mut listed = 0u64;
        let mut lines: Vec<String> = vec![];
        let mut known_keys: Vec<String> = vec![];
        let mut new_keys: Vec<String> = vec![];
        let dir = format!("{}/replays/{}", verif_dir(), self.id);
        // replay files of earlier runs are stale
        if let Ok(rd) = std::fs::read_dir(&dir) {
            for e in rd.flatten() {
                if e.path().extension().map_or(false, |x| x == "json") {
                    let _ = std::fs::remove_file(e.path());
                }
            }
        }
        for (key, (count, vs)) in viol.iter() {
            let known = findings
                .iter()
                .find(|f| f.property == self.id && f.status == "known" && &f.key == key);
            if let Some(f) = known {
                listed += count;
                known_keys.push(key.clone());
                lines.push(format!(
                    "KNOWN-FINDING: property={} key={} {} [{} case(s) this run; e.g. {}]",
                    self.id, key, f.what, count, vs[0].what
                ));
            } else {
                unlisted += count;
                new_keys.push(key.clone());
                let _ = std::fs::create_dir_all(&dir);
                for (i, v) in vs.iter().enumerate() {
                    let path = format!("{dir}/{}_{}.json", sanitize(key), i);
                    let body = json!({
                        "property": self.id, "tier": self.tier.name(), "key": key,
                        "what": v.what, "replay": v.replay, "cases_with_this_key": count,
                    });
                    let _ = std::fs::write(&path, serde_json::to_string_pretty(&body).unwrap());
                    if i == 0 {
                        lines.push(format!("VIOLATION property={} replay={}", self.id, path));
                        lines.push(format!("  key={key} cases={count} what={}", v.what));
                    }
                }
            }
        }
        let wall = self.elapsed();
        let distinct =
            self.distinct.lock().unwrap().len() as u64 + self.distinct_extra.load(Ordering::Relaxed);
        let mut cov = Map::new();
        cov.insert("states".into(), json!(self.states.load(Ordering::Relaxed)));
        cov.insert(
            "transitions".into(),
            json!(self.transitions.load(Ordering::Relaxed)),
        );
        cov.insert(
            "traces_validated_against_impl".into(),
            json!(self.traces.load(Ordering::Relaxed)),
        );
        cov.insert(
            "evaluations".into(),
            json!(self.evaluations.load(Ordering::Relaxed)),
        );
        cov.insert("distinct_nontrivial".into(), json!(distinct));
        cov.insert("rule".into(), json!(self.rule.lock().unwrap().clone()));
        cov.insert(
            "samples".into(),
            Value::Array(self.samples.lock().unwrap().clone()),
        );
        cov.insert("exhaustive".into(), json!(*self.exhaustive.lock().unwrap()));
        cov.insert("caps_hit".into(), json!(self.caps_hit.lock().unwrap().clone()));
        cov.insert("known_finding_keys_seen".into(), json!(known_keys));
        cov.insert("unlisted_violation_keys".into(), json!(new_keys));
        for (k, v) in self.extra.lock().unwrap().iter() {
            cov.insert(k.clone(), v.clone());
        }
        let ev = json!({
            "property_id": self.id,
            "tier": self.tier.name(),
            "seed": self.seed,
            "level": "model_checking",
            "coverage": Value::Object(cov),
            "assumptions": self.assumptions.lock().unwrap().clone(),
            "wall_s": (wall * 1000.0).round() / 1000.0,
            "violations": unlisted,
            "known_finding_cases": listed,
        });
        let _ = std::fs::create_dir_all(format!("{}/evidence", verif_dir()));
        let path = format!("{}/evidence/{}.json", verif_dir(), self.id);
        if let Err(e) = std::fs::write(&path, serde_json::to_string_pretty(&ev).unwrap() + "\n") {
            eprintln!("MACHINERY-ERROR: cannot write {path}: {e}");
            return 2;
        }
        for l in &lines {
            println!("{l}");
        }
        println!(
            "{} {}: states={} transitions={} traces={} evaluations={} distinct={} exhaustive={} wall={:.1}s violations={} known={}",
            self.id,
            self.tier.name(),
            self.states.load(Ordering::Relaxed),
            self.transitions.load(Ordering::Relaxed),
            self.traces.load(Ordering::Relaxed),
            self.evaluations.load(Ordering::Relaxed),
            distinct,
            *self.exhaustive.lock().unwrap(),
            wall,
            unlisted,
            listed
        );
        if unlisted > 0 {
            1
        } else {
            0
        }
    }
}

fn sanitize(s: &str) -> String {
    s.chars()
        .map(|c| if c.is_ascii_alphanumeric() { c } else { '_' })
        .take(80)
        .collect()
}

pub fn machinery_error(msg: &str) -> ! {
    eprintln!("MACHINERY-ERROR: {msg}");
    std::process::exit(2)
}

/// Panics raised while a grid item was being evaluated (item index, message). A panic inside the checked
/// library function on a valid input is a finding against the property ("completes", "for every input"), not
/// a failure of the machinery: `Report::finish` turns these into violations `<id>/panic-on-valid-input`.
pub static ITEM_PANICS: Mutex<Vec<(usize, String)>> = Mutex::new(Vec::new());

/// Dynamic parallel loop over `0..n` (chunked atomic counter), `f(i)` on worker threads. A panicking item is
/// recorded in `ITEM_PANICS`; after three of them the loop stops handing out work.
pub fn par_for<F: Fn(usize) + Sync>(n: usize, chunk: usize, f: F) {
    let next = AtomicUsize::new(0);
    let threads = n_threads().min(n.max(1));
    let stop = std::sync::atomic::AtomicBool::new(false);
    std::thread::scope(|s| {
        for _ in 0..threads {
            s.spawn(|| loop {
                let lo = next.fetch_add(chunk, Ordering::Relaxed);
                if lo >= n || stop.load(Ordering::Relaxed) {
                    break;
                }
                for i in lo..(lo + chunk).min(n) {
                    if let Err(e) = std::panic::catch_unwind(std::panic::AssertUnwindSafe(|| f(i))) {
                        let msg = if let Some(s) = e.downcast_ref::<&str>() {
                            s.to_string()
                        } else if let Some(s) = e.downcast_ref::<String>() {
                            s.clone()
                        } else {
                            "<non-string panic>".to_string()
                        };
                        let mut p = ITEM_PANICS.lock().unwrap_or_else(|x| x.into_inner());
                        p.push((i, msg));
                        if p.len() >= 3 {
                            stop.store(true, Ordering::Relaxed);
                        }
                        break;
                    }
                }
            });
        }
    });
}

pub fn f32_hex(x: f32) -> String {
    format!("{:#010x}", x.to_bits())
}

/// units in the last place of `x` as f32 (for error bounds)
pub fn ulp32(x: f64) -> f64 {
    let a = (x.abs() as f32).max(f32::MIN_POSITIVE);
    let b = f32::from_bits(a.to_bits() + 1);
    (b - a) as f64
}
