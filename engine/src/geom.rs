//! Reference geometry in f64, written independently of the crate: rotated rectangles, convex
//! clipping by half-planes, shoelace area, inclusion-exclusion union of convex polygons.

pub type P = (f64, f64);

#[derive(Clone, Copy, Debug, PartialEq)]
pub struct RBox {
    pub xc: f64,
    pub yc: f64,
    pub angle: f64,
    pub w: f64,
    pub h: f64,
}

impl RBox {
    pub fn from_u(b: &similari::utils::bbox::Universal2DBox) -> Self {
        RBox {
            xc: b.xc as f64,
            yc: b.yc as f64,
            angle: b.angle.unwrap_or(0.0) as f64,
            w: b.aspect as f64 * b.height as f64,
            h: b.height as f64,
        }
    }

    pub fn area(&self) -> f64 {
        self.w * self.h
    }

    pub fn radius(&self) -> f64 {
        (self.w * self.w + self.h * self.h).sqrt() / 2.0
    }

    /// counter-clockwise corners
    pub fn corners(&self) -> Vec<P> {
        let (s, c) = self.angle.sin_cos();
        let hw = self.w / 2.0;
        let hh = self.h / 2.0;
        [(-hw, -hh), (hw, -hh), (hw, hh), (-hw, hh)]
            .iter()
            .map(|(x, y)| (self.xc + x * c - y * s, self.yc + x * s + y * c))
            .collect()
    }

    pub fn is_axis_aligned(&self) -> bool {
        self.angle == 0.0
    }
}

pub fn shoelace(p: &[P]) -> f64 {
    let n = p.len();
    if n < 3 {
        return 0.0;
    }
    let mut a = 0.0;
    for i in 0..n {
        let (x1, y1) = p[i];
        let (x2, y2) = p[(i + 1) % n];
        a += x1 * y2 - x2 * y1;
    }
    a / 2.0
}

pub fn centroid(p: &[P]) -> P {
    let n = p.len() as f64;
    (
        p.iter().map(|q| q.0).sum::<f64>() / n,
        p.iter().map(|q| q.1).sum::<f64>() / n,
    )
}

/// Clip a convex polygon (any orientation) by the half-plane to the left of a->b (ccw clip polygon).
fn clip_half(poly: &[P], a: P, b: P) -> Vec<P> {
    let side = |q: P| (b.0 - a.0) * (q.1 - a.1) - (b.1 - a.1) * (q.0 - a.0);
    let n = poly.len();
    let mut out = Vec::with_capacity(n + 2);
    for i in 0..n {
        let s = poly[i];
        let e = poly[(i + 1) % n];
        let ds = side(s);
        let de = side(e);
        if ds >= 0.0 {
            out.push(s);
        }
        if (ds > 0.0 && de < 0.0) || (ds < 0.0 && de > 0.0) {
            let t = ds / (ds - de);
            out.push((s.0 + t * (e.0 - s.0), s.1 + t * (e.1 - s.1)));
        }
    }
    out
}

/// Intersection of two convex polygons, `clip` counter-clockwise.
pub fn convex_clip(subject: &[P], clip: &[P]) -> Vec<P> {
    let mut cur = subject.to_vec();
    let n = clip.len();
    for i in 0..n {
        if cur.is_empty() {
            break;
        }
        cur = clip_half(&cur, clip[i], clip[(i + 1) % n]);
    }
    cur
}

pub fn inter_area(a: &RBox, b: &RBox) -> f64 {
    // work relative to a's centre (exact in f64 for f32 inputs): shoelace on absolute coordinates
    // of magnitude 1e4 would lose 8 digits
    let b = &RBox { xc: b.xc - a.xc, yc: b.yc - a.yc, ..*b };
    let a = &RBox { xc: 0.0, yc: 0.0, ..*a };
    if a.is_axis_aligned() && b.is_axis_aligned() {
        let x1 = (a.xc - a.w / 2.0).max(b.xc - b.w / 2.0);
        let x2 = (a.xc + a.w / 2.0).min(b.xc + b.w / 2.0);
        let y1 = (a.yc - a.h / 2.0).max(b.yc - b.h / 2.0);
        let y2 = (a.yc + a.h / 2.0).min(b.yc + b.h / 2.0);
        if x2 > x1 && y2 > y1 {
            (x2 - x1) * (y2 - y1)
        } else {
            0.0
        }
    } else {
        shoelace(&convex_clip(&a.corners(), &b.corners())).abs()
    }
}

pub fn iou(a: &RBox, b: &RBox) -> f64 {
    let i = inter_area(a, b);
    i / (a.area() + b.area() - i)
}

/// Area of `base ∩ (∪ others)` by inclusion–exclusion over convex intersections (others.len() small).
pub fn covered_area(base: &[P], others: &[Vec<P>]) -> f64 {
    let n = others.len();
    let mut total = 0.0;
    for mask in 1u32..(1u32 << n) {
        let mut cur = base.to_vec();
        for (i, o) in others.iter().enumerate() {
            if mask & (1 << i) != 0 {
                cur = convex_clip(&cur, o);
                if cur.len() < 3 {
                    cur.clear();
                    break;
                }
            }
        }
        let a = shoelace(&cur).abs();
        if mask.count_ones() % 2 == 1 {
            total += a;
        } else {
            total -= a;
        }
    }
    total
}

pub fn dist(a: P, b: P) -> f64 {
    ((a.0 - b.0).powi(2) + (a.1 - b.1).powi(2)).sqrt()
}
