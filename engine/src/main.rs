//! vcheck <PROPERTY> <quick|thorough> [--replay <file>]
//! Exit 0: property held on everything explored (known findings are printed, not alarms);
//! exit 1: unlisted violation (VIOLATION line printed); exit 2: machinery error.

mod common;
mod geom;
mod props;
mod sched;

use common::Tier;

fn main() {
    // anyhow captures a backtrace per error when RUST_BACKTRACE is set; the store creates an error per
    // incompatible pair, and backtrace capture takes a process-wide lock
    std::env::set_var("RUST_LIB_BACKTRACE", "0");
    let args: Vec<String> = std::env::args().collect();
    if args.len() < 3 {
        eprintln!("usage: vcheck <ID> <quick|thorough> [--replay <file>]");
        std::process::exit(2);
    }
    let id = args[1].to_uppercase();
    let tier = match args[2].as_str() {
        "quick" => Tier::Quick,
        "thorough" => Tier::Thorough,
        "selftest" => Tier::Quick,
        other => {
            if let Ok(t) = std::env::var("VERIF_TIER") {
                if t == "thorough" { Tier::Thorough } else { Tier::Quick }
            } else {
                eprintln!("unknown tier {other}");
                std::process::exit(2);
            }
        }
    };
    let replay = args
        .iter()
        .position(|a| a == "--replay")
        .and_then(|i| args.get(i + 1).cloned());
    let code = std::panic::catch_unwind(|| props::dispatch(&id, tier, replay.as_deref()));
    match code {
        Ok(c) => std::process::exit(c),
        Err(_) => {
            eprintln!("MACHINERY-ERROR: check {id} panicked outside a monitored execution");
            std::process::exit(2)
        }
    }
}
