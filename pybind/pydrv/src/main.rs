//! C18 Rust reference driver.
//!
//! Reads API scripts (JSON lines), executes every step by calling the *wrapped Rust API* of the
//! `similari` crate directly (never the Py* wrapper types: the crate is built without the `python`
//! feature), and prints one canonical JSON line per step. This file is the table that says which
//! Rust call every Python-visible name is supposed to wrap, which parameter names the Python side
//! is documented to accept and which default values the documentation gives.
//!
//! usage: pydrv <scripts.jsonl> <out.jsonl>
//!
//! Step result conventions (shared with py_runner.py):
//!   value                       canonical value (floats as {"f": <16 hex digits of the f64 bits>})
//!   {"error": true}             the API call failed (panic / invalid argument / missing binding)
//!   {"driver_error": "..."}     this driver does not know the operation: machinery error

#![allow(dead_code)]

use geo::{Area, CoordsIter, Polygon};
use nalgebra::Point2;
use serde_json::{json, Map, Value};
use similari::prelude::{
    BatchSort, BoundingBox, PositionalMetricType, Sort, SortTrack, Universal2DBox, VisualSort,
    VisualSortMetricType, VisualSortObservation, VisualSortOptions,
};
use similari::trackers::batch::PredictionBatchResult;
use similari::trackers::sort::batch_api::SortPredictionBatchRequest;
use similari::trackers::sort::{VotingType, WastedSortTrack};
use similari::trackers::spatio_temporal_constraints::SpatioTemporalConstraints;
use similari::trackers::tracker_api::TrackerAPI;
use similari::trackers::visual_sort::batch_api::{
    BatchVisualSort, VisualSortPredictionBatchRequest,
};
use similari::trackers::visual_sort::{VisualSortObservationSet, WastedVisualSortTrack};
use similari::utils::kalman::kalman_2d_box::{Universal2DBoxKalmanFilter, DIM_2D_BOX_X2};
use similari::utils::kalman::kalman_2d_point::{Point2DKalmanFilter, DIM_2D_POINT_X2};
use similari::utils::kalman::kalman_2d_point_vec::Vec2DKalmanFilter;
use similari::utils::kalman::KalmanState;
use similari::utils::nms::nms;
use std::cell::RefCell;
use std::collections::HashMap;
use std::io::{BufRead, BufReader, BufWriter, Write};
use std::panic::{catch_unwind, AssertUnwindSafe};
use std::rc::Rc;
use std::time::{Duration, Instant};

// ---------------------------------------------------------------------------------------------
// Documented defaults (see evidence `assumptions` for the source of each value).
// ---------------------------------------------------------------------------------------------
const DOC_KALMAN_POSITION_WEIGHT: f32 = 1.0 / 20.0;
const DOC_KALMAN_VELOCITY_WEIGHT: f32 = 1.0 / 160.0;
const DOC_SORT_SHARDS: usize = 4;
const DOC_SORT_BBOX_HISTORY: usize = 1;
const DOC_SORT_MAX_IDLE_EPOCHS: usize = 5;
const DOC_SORT_METHOD: PositionalMetricType = PositionalMetricType::Mahalanobis;
const DOC_SORT_MIN_CONFIDENCE: f32 = 0.05;
const DOC_BATCH_DISTANCE_SHARDS: usize = 4;
const DOC_BATCH_VOTING_SHARDS: usize = 4;

// ---------------------------------------------------------------------------------------------
// Errors
// ---------------------------------------------------------------------------------------------
enum E {
    /// the API rejects the call (what Python reports as an exception)
    Api,
    /// the driver itself cannot execute the step
    Driver(String),
}
type R<T> = Result<T, E>;

macro_rules! drv {
    ($($arg:tt)*) => { Err(E::Driver(format!($($arg)*))) };
}

// ---------------------------------------------------------------------------------------------
// Objects
// ---------------------------------------------------------------------------------------------
enum Obj {
    UBox(Universal2DBox),
    BBox(BoundingBox),
    Poly(Polygon<f64>),
    BoxKF(Universal2DBoxKalmanFilter),
    BoxKFState(KalmanState<DIM_2D_BOX_X2>),
    PointKF(Point2DKalmanFilter),
    PointKFState(KalmanState<DIM_2D_POINT_X2>),
    VecKF(Vec2DKalmanFilter),
    Stc(SpatioTemporalConstraints),
    PosMetric(PositionalMetricType),
    VisMetric(VisualSortMetricType),
    Opts(VisualSortOptions),
    VObs(VisualSortObservation<'static>),
    VObsSet(VisualSortObservationSet<'static>),
    Sort(Sort),
    VSort(VisualSort),
    BSort(BatchSort),
    BVSort(BatchVisualSort),
    SortReq(SortPredictionBatchRequest),
    /// request + the result handle that `prediction()` has handed out already (if any)
    VReq(
        VisualSortPredictionBatchRequest<'static>,
        Option<PredictionBatchResult>,
    ),
    BatchRes(PredictionBatchResult),
    Track(SortTrack),
    WSort(WastedSortTrack),
    WVis(WastedVisualSortTrack),
    List(Vec<Obj>),
    Plain(Value),
}

impl Obj {
    fn cls(&self) -> &'static str {
        match self {
            Obj::UBox(_) => "Universal2DBox",
            Obj::BBox(_) => "BoundingBox",
            Obj::Poly(_) => "Polygon",
            Obj::BoxKF(_) => "Universal2DBoxKalmanFilter",
            Obj::BoxKFState(_) => "Universal2DBoxKalmanFilterState",
            Obj::PointKF(_) => "Point2DKalmanFilter",
            Obj::PointKFState(_) => "Point2DKalmanFilterState",
            Obj::VecKF(_) => "Vec2DKalmanFilter",
            Obj::Stc(_) => "SpatioTemporalConstraints",
            Obj::PosMetric(_) => "PositionalMetricType",
            Obj::VisMetric(_) => "VisualSortMetricType",
            Obj::Opts(_) => "VisualSortOptions",
            Obj::VObs(_) => "VisualSortObservation",
            Obj::VObsSet(_) => "VisualSortObservationSet",
            Obj::Sort(_) => "Sort",
            Obj::VSort(_) => "VisualSort",
            Obj::BSort(_) => "BatchSort",
            Obj::BVSort(_) => "BatchVisualSort",
            Obj::SortReq(_) => "SortPredictionBatchRequest",
            Obj::VReq(..) => "VisualSortPredictionBatchRequest",
            Obj::BatchRes(_) => "PredictionBatchResult",
            Obj::Track(_) => "SortTrack",
            Obj::WSort(_) => "WastedSortTrack",
            Obj::WVis(_) => "WastedVisualSortTrack",
            Obj::List(_) => "list",
            Obj::Plain(_) => "plain",
        }
    }

    /// copy of a value object (what PyO3 does when a `Clone` pyclass is passed by value)
    fn try_clone(&self) -> R<Obj> {
        Ok(match self {
            Obj::UBox(b) => Obj::UBox(b.clone()),
            Obj::BBox(b) => Obj::BBox(*b),
            Obj::Poly(p) => Obj::Poly(p.clone()),
            Obj::BoxKFState(s) => Obj::BoxKFState(*s),
            Obj::PointKFState(s) => Obj::PointKFState(*s),
            Obj::Stc(s) => Obj::Stc(s.clone()),
            Obj::PosMetric(m) => Obj::PosMetric(*m),
            Obj::VisMetric(m) => Obj::VisMetric(*m),
            Obj::Opts(o) => Obj::Opts(o.clone()),
            Obj::VObs(o) => Obj::VObs(o.clone()),
            Obj::BatchRes(r) => Obj::BatchRes(r.clone()),
            Obj::Track(t) => Obj::Track(t.clone()),
            Obj::WSort(t) => Obj::WSort(t.clone()),
            Obj::WVis(t) => Obj::WVis(t.clone()),
            Obj::Plain(v) => Obj::Plain(v.clone()),
            Obj::List(l) => Obj::List(l.iter().map(|o| o.try_clone()).collect::<R<Vec<_>>>()?),
            other => return drv!("object of class {} cannot be copied", other.cls()),
        })
    }
}

type Table = HashMap<String, Rc<RefCell<Obj>>>;

// Same-named newtypes: the Python side formats `PyX(inner)` with the derived `Debug`; a derived `Debug`
// of a tuple struct with the same name around (a reference to) the same Rust value prints the same text.
#[derive(Debug)]
struct PyPolygon<'a>(&'a Polygon<f64>);
#[derive(Debug)]
struct PySortTrack<'a>(&'a SortTrack);
#[derive(Debug)]
struct PyVotingType<'a>(&'a VotingType);
#[derive(Debug)]
struct PyPositionalMetricType<'a>(&'a PositionalMetricType);
#[derive(Debug)]
struct PyVisualSortMetricType<'a>(&'a VisualSortMetricType);
#[derive(Debug)]
struct PyVisualSortObservation<'a>(&'a VisualSortObservation<'static>);
#[derive(Debug)]
struct PyVisualSortObservationSet<'a>(&'a VisualSortObservationSet<'static>);

// ---------------------------------------------------------------------------------------------
// Canonical values
// ---------------------------------------------------------------------------------------------
fn cf64(x: f64) -> Value {
    if x.is_nan() {
        json!({"f": "nan"})
    } else {
        json!({ "f": format!("{:016x}", x.to_bits()) })
    }
}
fn cf32(x: f32) -> Value {
    // f32 -> f64 is exact; this is the conversion PyO3 applies to an f32 return value
    cf64(x as f64)
}
fn copt_f32(x: Option<f32>) -> Value {
    x.map(cf32).unwrap_or(Value::Null)
}
fn copt_i64(x: Option<i64>) -> Value {
    x.map(|v| json!(v)).unwrap_or(Value::Null)
}
fn err_val() -> Value {
    json!({"error": true})
}
fn object(cls: &str, fields: Map<String, Value>) -> Value {
    json!({"cls": cls, "fields": Value::Object(fields)})
}

fn dump_ubox(b: &Universal2DBox, top: bool) -> Value {
    let mut f = Map::new();
    f.insert("xc".into(), cf32(b.xc));
    f.insert("yc".into(), cf32(b.yc));
    f.insert("angle".into(), copt_f32(b.angle));
    f.insert("aspect".into(), cf32(b.aspect));
    f.insert("height".into(), cf32(b.height));
    f.insert("confidence".into(), cf32(b.confidence));
    f.insert("get_radius".into(), cf32(b.get_radius()));
    f.insert("area".into(), cf32(b.area()));
    if top {
        f.insert("repr".into(), json!(format!("{:?}", b)));
    }
    object("Universal2DBox", f)
}

fn dump_bbox(b: &BoundingBox, top: bool) -> Value {
    let mut f = Map::new();
    f.insert("left".into(), cf32(b.left));
    f.insert("top".into(), cf32(b.top));
    f.insert("width".into(), cf32(b.width));
    f.insert("height".into(), cf32(b.height));
    f.insert("confidence".into(), cf32(b.confidence));
    if top {
        f.insert("repr".into(), json!(format!("{:?}", b)));
    }
    object("BoundingBox", f)
}

fn points_of(p: &Polygon<f64>) -> Value {
    Value::Array(
        p.coords_iter()
            .map(|c| json!([cf64(c.x), cf64(c.y)]))
            .collect(),
    )
}

fn dump_poly(p: &Polygon<f64>, top: bool) -> Value {
    let mut f = Map::new();
    f.insert("get_points".into(), points_of(p));
    if top {
        f.insert("repr".into(), json!(format!("{:?}", PyPolygon(p))));
    }
    object("Polygon", f)
}

fn boxes(v: &[Universal2DBox]) -> Value {
    Value::Array(v.iter().map(|b| dump_ubox(b, false)).collect())
}

fn dump_track(t: &SortTrack, top: bool) -> Value {
    let mut f = Map::new();
    f.insert("id".into(), json!(t.id));
    f.insert("epoch".into(), json!(t.epoch));
    f.insert("predicted_bbox".into(), dump_ubox(&t.predicted_bbox, false));
    f.insert("observed_bbox".into(), dump_ubox(&t.observed_bbox, false));
    f.insert("scene_id".into(), json!(t.scene_id));
    f.insert("length".into(), json!(t.length));
    f.insert(
        "voting_type".into(),
        json!({
            "repr": format!("{:?}", PyVotingType(&t.voting_type)),
            "str": format!("{:#?}", PyVotingType(&t.voting_type)),
        }),
    );
    f.insert("custom_object_id".into(), copt_i64(t.custom_object_id));
    if top {
        f.insert("repr".into(), json!(format!("{:?}", PySortTrack(t))));
    }
    object("SortTrack", f)
}

fn dump_wsort(t: &WastedSortTrack, top: bool) -> Value {
    let mut f = Map::new();
    f.insert("id".into(), json!(t.id));
    f.insert("epoch".into(), json!(t.epoch));
    f.insert("predicted_bbox".into(), dump_ubox(&t.predicted_bbox, false));
    f.insert("observed_bbox".into(), dump_ubox(&t.observed_bbox, false));
    f.insert("scene_id".into(), json!(t.scene_id));
    f.insert("length".into(), json!(t.length));
    f.insert("predicted_boxes".into(), boxes(&t.predicted_boxes));
    f.insert("observed_boxes".into(), boxes(&t.observed_boxes));
    if top {
        f.insert("repr".into(), json!(format!("{:?}", t)));
    }
    object("WastedSortTrack", f)
}

fn dump_wvis(t: &WastedVisualSortTrack, top: bool) -> Value {
    let mut f = Map::new();
    f.insert("id".into(), json!(t.id));
    f.insert("epoch".into(), json!(t.epoch));
    f.insert("predicted_bbox".into(), dump_ubox(&t.predicted_bbox, false));
    f.insert("observed_bbox".into(), dump_ubox(&t.observed_bbox, false));
    f.insert("scene_id".into(), json!(t.scene_id));
    f.insert("length".into(), json!(t.length));
    f.insert("predicted_boxes".into(), boxes(&t.predicted_boxes));
    f.insert("observed_boxes".into(), boxes(&t.observed_boxes));
    f.insert(
        "observed_features".into(),
        Value::Array(
            t.observed_features
                .iter()
                .map(|o| match o {
                    None => Value::Null,
                    Some(v) => Value::Array(v.iter().map(|x| cf32(*x)).collect()),
                })
                .collect(),
        ),
    );
    if top {
        f.insert("repr".into(), json!(format!("{:?}", t)));
    }
    object("WastedVisualSortTrack", f)
}

fn dump_box_state(s: &KalmanState<DIM_2D_BOX_X2>) -> Value {
    let mut f = Map::new();
    // Python: universal_bbox() = Universal2DBox::try_from(state).unwrap(); bbox() = as_ltwh of that
    let ub = catch_unwind(AssertUnwindSafe(|| Universal2DBox::try_from(*s)));
    match ub {
        Ok(Ok(b)) => {
            f.insert("universal_bbox".into(), dump_ubox(&b, false));
            match BoundingBox::try_from(&b) {
                Ok(bb) => f.insert("bbox".into(), dump_bbox(&bb, false)),
                Err(_) => f.insert("bbox".into(), err_val()),
            };
        }
        _ => {
            f.insert("universal_bbox".into(), err_val());
            f.insert("bbox".into(), err_val());
        }
    }
    object("Universal2DBoxKalmanFilterState", f)
}

fn dump_point_state(s: &KalmanState<DIM_2D_POINT_X2>) -> Value {
    let p: Point2<f32> = Point2::from(*s);
    let mut f = Map::new();
    f.insert("x".into(), cf32(p.x));
    f.insert("y".into(), cf32(p.y));
    object("Point2DKalmanFilterState", f)
}

fn repr_of(o: &Obj, pretty: bool) -> R<String> {
    macro_rules! fmt {
        ($v:expr) => {
            if pretty {
                format!("{:#?}", $v)
            } else {
                format!("{:?}", $v)
            }
        };
    }
    Ok(match o {
        // BoundingBox / Universal2DBox: __str__ is defined as __repr__ (`{:?}` of the inner value)
        Obj::UBox(b) => format!("{:?}", b),
        Obj::BBox(b) => format!("{:?}", b),
        Obj::Poly(p) => fmt!(PyPolygon(p)),
        Obj::PosMetric(m) => fmt!(PyPositionalMetricType(m)),
        Obj::VisMetric(m) => fmt!(PyVisualSortMetricType(m)),
        Obj::Track(t) => fmt!(PySortTrack(t)),
        Obj::WSort(t) => fmt!(t),
        Obj::WVis(t) => fmt!(t),
        Obj::Opts(o) => fmt!(o),
        Obj::VObs(o) => fmt!(PyVisualSortObservation(o)),
        Obj::VObsSet(s) => fmt!(PyVisualSortObservationSet(s)),
        other => return drv!("repr/str of class {} is not reproducible", other.cls()),
    })
}

fn dump(o: &Obj, top: bool) -> Value {
    match o {
        Obj::UBox(b) => dump_ubox(b, top),
        Obj::BBox(b) => dump_bbox(b, top),
        Obj::Poly(p) => dump_poly(p, top),
        Obj::BoxKFState(s) => dump_box_state(s),
        Obj::PointKFState(s) => dump_point_state(s),
        Obj::Track(t) => dump_track(t, top),
        Obj::WSort(t) => dump_wsort(t, top),
        Obj::WVis(t) => dump_wvis(t, top),
        Obj::PosMetric(_) | Obj::VisMetric(_) | Obj::Opts(_) | Obj::VObs(_) | Obj::VObsSet(_) => {
            let mut f = Map::new();
            f.insert("repr".into(), json!(repr_of(o, false).unwrap_or_default()));
            f.insert("str".into(), json!(repr_of(o, true).unwrap_or_default()));
            object(o.cls(), f)
        }
        Obj::List(l) => Value::Array(l.iter().map(|x| dump(x, top)).collect()),
        Obj::Plain(v) => v.clone(),
        other => json!({ "cls": other.cls() }),
    }
}

// ---------------------------------------------------------------------------------------------
// Arguments
// ---------------------------------------------------------------------------------------------
/// Resolves positional + keyword arguments against the documented parameter list
/// (`(name, has_default)`), with Python's rules: too many / unknown / duplicated / missing => error.
fn params(step: &Value, spec: &[(&str, bool)]) -> R<Vec<Option<Value>>> {
    let empty_a = Vec::new();
    let empty_k = Map::new();
    let pos = step.get("args").and_then(|v| v.as_array()).unwrap_or(&empty_a);
    let kw = step
        .get("kwargs")
        .and_then(|v| v.as_object())
        .unwrap_or(&empty_k);
    if pos.len() > spec.len() {
        return Err(E::Api);
    }
    for k in kw.keys() {
        if !spec.iter().any(|(n, _)| n == k) {
            return Err(E::Api);
        }
    }
    let mut out = Vec::with_capacity(spec.len());
    for (i, (name, has_default)) in spec.iter().enumerate() {
        let p = pos.get(i);
        let k = kw.get(*name);
        match (p, k) {
            (Some(_), Some(_)) => return Err(E::Api),
            (Some(v), None) | (None, Some(v)) => out.push(Some(v.clone())),
            (None, None) => {
                if *has_default {
                    out.push(None)
                } else {
                    return Err(E::Api);
                }
            }
        }
    }
    Ok(out)
}

/// all parameters required
fn req(step: &Value, names: &[&str]) -> R<Vec<Value>> {
    let spec: Vec<(&str, bool)> = names.iter().map(|n| (*n, false)).collect();
    Ok(params(step, &spec)?.into_iter().map(|v| v.unwrap()).collect())
}

fn f32v(v: &Value) -> R<f32> {
    match v {
        Value::Number(n) => Ok(n.as_f64().ok_or(E::Api)? as f32),
        _ => Err(E::Api),
    }
}
fn opt_f32v(v: &Value) -> R<Option<f32>> {
    if v.is_null() {
        Ok(None)
    } else {
        f32v(v).map(Some)
    }
}
fn i64v(v: &Value) -> R<i64> {
    match v {
        Value::Number(n) if n.is_i64() || n.is_u64() => n.as_i64().ok_or(E::Api),
        _ => Err(E::Api),
    }
}
fn opt_i64v(v: &Value) -> R<Option<i64>> {
    if v.is_null() {
        Ok(None)
    } else {
        i64v(v).map(Some)
    }
}
fn usizev(v: &Value) -> R<usize> {
    usize::try_from(i64v(v)?).map_err(|_| E::Api)
}
fn u64v(v: &Value) -> R<u64> {
    u64::try_from(i64v(v)?).map_err(|_| E::Api)
}
fn boolv(v: &Value) -> R<bool> {
    v.as_bool().ok_or(E::Api)
}
/// a Python sequence (list or tuple)
fn seqv(v: &Value) -> R<&Vec<Value>> {
    match v {
        Value::Array(a) => Ok(a),
        Value::Object(m) => m.get("tuple").and_then(|t| t.as_array()).ok_or(E::Api),
        _ => Err(E::Api),
    }
}
/// a Python tuple of exactly n elements (PyO3 does not accept a list for a Rust tuple)
fn tuplev(v: &Value, n: usize) -> R<&Vec<Value>> {
    match v {
        Value::Object(m) => {
            let t = m.get("tuple").and_then(|t| t.as_array()).ok_or(E::Api)?;
            if t.len() == n {
                Ok(t)
            } else {
                Err(E::Api)
            }
        }
        _ => Err(E::Api),
    }
}
fn refname(v: &Value) -> R<&str> {
    v.as_object()
        .and_then(|m| m.get("ref"))
        .and_then(|r| r.as_str())
        .ok_or(E::Api)
}
fn lookup(t: &Table, v: &Value) -> R<Rc<RefCell<Obj>>> {
    t.get(refname(v)?).cloned().ok_or(E::Api)
}
fn uboxv(t: &Table, v: &Value) -> R<Universal2DBox> {
    match &*lookup(t, v)?.borrow() {
        Obj::UBox(b) => Ok(b.clone()),
        _ => Err(E::Api),
    }
}
fn box_statev(t: &Table, v: &Value) -> R<KalmanState<DIM_2D_BOX_X2>> {
    match &*lookup(t, v)?.borrow() {
        Obj::BoxKFState(s) => Ok(*s),
        _ => Err(E::Api),
    }
}
fn point_statev(t: &Table, v: &Value) -> R<KalmanState<DIM_2D_POINT_X2>> {
    match &*lookup(t, v)?.borrow() {
        Obj::PointKFState(s) => Ok(*s),
        _ => Err(E::Api),
    }
}
fn point_state_listv(t: &Table, v: &Value) -> R<Vec<KalmanState<DIM_2D_POINT_X2>>> {
    match &*lookup(t, v)?.borrow() {
        Obj::List(l) => l
            .iter()
            .map(|o| match o {
                Obj::PointKFState(s) => Ok(*s),
                _ => Err(E::Api),
            })
            .collect(),
        _ => Err(E::Api),
    }
}
fn pointsv(v: &Value) -> R<Vec<Point2<f32>>> {
    seqv(v)?
        .iter()
        .map(|p| {
            let t = tuplev(p, 2)?;
            Ok(Point2::from([f32v(&t[0])?, f32v(&t[1])?]))
        })
        .collect()
}
fn pos_metricv(t: &Table, v: &Value) -> R<PositionalMetricType> {
    match &*lookup(t, v)?.borrow() {
        Obj::PosMetric(m) => Ok(*m),
        _ => Err(E::Api),
    }
}
fn vis_metricv(t: &Table, v: &Value) -> R<VisualSortMetricType> {
    match &*lookup(t, v)?.borrow() {
        Obj::VisMetric(m) => Ok(*m),
        _ => Err(E::Api),
    }
}
fn stcv(t: &Table, v: &Value) -> R<SpatioTemporalConstraints> {
    match &*lookup(t, v)?.borrow() {
        Obj::Stc(s) => Ok(s.clone()),
        _ => Err(E::Api),
    }
}
fn optsv(t: &Table, v: &Value) -> R<VisualSortOptions> {
    match &*lookup(t, v)?.borrow() {
        Obj::Opts(o) => Ok(o.clone()),
        _ => Err(E::Api),
    }
}
fn vobsv(t: &Table, v: &Value) -> R<VisualSortObservation<'static>> {
    match &*lookup(t, v)?.borrow() {
        Obj::VObs(o) => Ok(o.clone()),
        _ => Err(E::Api),
    }
}
/// `List[(Universal2DBox, Optional[int])]`
fn detectionsv(t: &Table, v: &Value) -> R<Vec<(Universal2DBox, Option<i64>)>> {
    seqv(v)?
        .iter()
        .map(|d| {
            let tu = tuplev(d, 2)?;
            Ok((uboxv(t, &tu[0])?, opt_i64v(&tu[1])?))
        })
        .collect()
}

type Out = (Value, Option<Obj>);
fn plain(v: Value) -> R<Out> {
    Ok((v, None))
}
fn bound(o: Obj) -> R<Out> {
    Ok((dump(&o, true), Some(o)))
}
fn none() -> R<Out> {
    Ok((Value::Null, None))
}
fn ints(v: Vec<usize>) -> Value {
    Value::Array(v.into_iter().map(|x| json!(x)).collect())
}
fn tracks(v: Vec<SortTrack>) -> Obj {
    Obj::List(v.into_iter().map(Obj::Track).collect())
}

// ---------------------------------------------------------------------------------------------
// Constructors, static methods, functions
// ---------------------------------------------------------------------------------------------
const SORT_PARAMS: [(&str, bool); 8] = [
    ("shards", true),
    ("bbox_history", true),
    ("max_idle_epochs", true),
    ("method", true),
    ("min_confidence", true),
    ("spatio_temporal_constraints", true),
    ("kalman_position_weight", true),
    ("kalman_velocity_weight", true),
];
const BATCH_SORT_PARAMS: [(&str, bool); 9] = [
    ("distance_shards", true),
    ("voting_shards", true),
    ("bbox_history", true),
    ("max_idle_epochs", true),
    ("method", true),
    ("min_confidence", true),
    ("spatio_temporal_constraints", true),
    ("kalman_position_weight", true),
    ("kalman_velocity_weight", true),
];
const KF_PARAMS: [(&str, bool); 2] = [("position_weight", true), ("velocity_weight", true)];

fn kf_weights(step: &Value) -> R<Option<(f32, f32)>> {
    let a = params(step, &KF_PARAMS)?;
    if a[0].is_none() && a[1].is_none() {
        return Ok(None); // the Rust API's own Default impl
    }
    let p = match &a[0] {
        Some(v) => f32v(v)?,
        None => DOC_KALMAN_POSITION_WEIGHT,
    };
    let v = match &a[1] {
        Some(v) => f32v(v)?,
        None => DOC_KALMAN_VELOCITY_WEIGHT,
    };
    Ok(Some((p, v)))
}

fn method_or_default(t: &Table, v: &Option<Value>) -> R<PositionalMetricType> {
    match v {
        None => Ok(DOC_SORT_METHOD),
        // Python: `method=None` is the documented way to ask for the default metric
        Some(Value::Null) => Ok(DOC_SORT_METHOD),
        Some(v) => pos_metricv(t, v),
    }
}
fn stc_or_none(t: &Table, v: &Option<Value>) -> R<Option<SpatioTemporalConstraints>> {
    match v {
        None | Some(Value::Null) => Ok(None),
        Some(v) => stcv(t, v).map(Some),
    }
}
fn usize_or(v: &Option<Value>, d: usize) -> R<usize> {
    match v {
        None => Ok(d),
        Some(v) => usizev(v),
    }
}
fn f32_or(v: &Option<Value>, d: f32) -> R<f32> {
    match v {
        None => Ok(d),
        Some(v) => f32v(v),
    }
}

fn construct(t: &Table, cls: &str, step: &Value) -> R<Out> {
    match cls {
        "BoundingBox" => {
            let a = req(step, &["left", "top", "width", "height"])?;
            bound(Obj::BBox(BoundingBox::new(
                f32v(&a[0])?,
                f32v(&a[1])?,
                f32v(&a[2])?,
                f32v(&a[3])?,
            )))
        }
        "Universal2DBox" => {
            let a = req(step, &["xc", "yc", "angle", "aspect", "height"])?;
            bound(Obj::UBox(Universal2DBox::new(
                f32v(&a[0])?,
                f32v(&a[1])?,
                opt_f32v(&a[2])?,
                f32v(&a[3])?,
                f32v(&a[4])?,
            )))
        }
        "Universal2DBoxKalmanFilter" => bound(Obj::BoxKF(match kf_weights(step)? {
            None => Universal2DBoxKalmanFilter::default(),
            Some((p, v)) => Universal2DBoxKalmanFilter::new(p, v),
        })),
        "Point2DKalmanFilter" => bound(Obj::PointKF(match kf_weights(step)? {
            None => Point2DKalmanFilter::default(),
            Some((p, v)) => Point2DKalmanFilter::new(p, v),
        })),
        "Vec2DKalmanFilter" => bound(Obj::VecKF(match kf_weights(step)? {
            None => Vec2DKalmanFilter::default(),
            Some((p, v)) => Vec2DKalmanFilter::new(p, v),
        })),
        "SpatioTemporalConstraints" => {
            req(step, &[])?;
            bound(Obj::Stc(SpatioTemporalConstraints::default()))
        }
        "VisualSortOptions" => {
            req(step, &[])?;
            bound(Obj::Opts(VisualSortOptions::default()))
        }
        "VisualSortObservation" => {
            let a = req(
                step,
                &["feature", "feature_quality", "bounding_box", "custom_object_id"],
            )?;
            let feature: Option<&'static [f32]> = if a[0].is_null() {
                None
            } else {
                let v: Vec<f32> = seqv(&a[0])?.iter().map(f32v).collect::<R<_>>()?;
                Some(Box::leak(v.into_boxed_slice()))
            };
            bound(Obj::VObs(VisualSortObservation::new(
                feature,
                opt_f32v(&a[1])?,
                uboxv(t, &a[2])?,
                opt_i64v(&a[3])?,
            )))
        }
        "VisualSortObservationSet" => {
            req(step, &[])?;
            bound(Obj::VObsSet(VisualSortObservationSet::new()))
        }
        "SortPredictionBatchRequest" => {
            req(step, &[])?;
            bound(Obj::SortReq(SortPredictionBatchRequest::new()))
        }
        "VisualSortPredictionBatchRequest" => {
            req(step, &[])?;
            bound(Obj::VReq(VisualSortPredictionBatchRequest::new(), None))
        }
        "Sort" => {
            let a = params(step, &SORT_PARAMS)?;
            bound(Obj::Sort(Sort::new(
                usize_or(&a[0], DOC_SORT_SHARDS)?,
                usize_or(&a[1], DOC_SORT_BBOX_HISTORY)?,
                usize_or(&a[2], DOC_SORT_MAX_IDLE_EPOCHS)?,
                method_or_default(t, &a[3])?,
                f32_or(&a[4], DOC_SORT_MIN_CONFIDENCE)?,
                stc_or_none(t, &a[5])?,
                f32_or(&a[6], DOC_KALMAN_POSITION_WEIGHT)?,
                f32_or(&a[7], DOC_KALMAN_VELOCITY_WEIGHT)?,
            )))
        }
        "BatchSort" => {
            let a = params(step, &BATCH_SORT_PARAMS)?;
            bound(Obj::BSort(BatchSort::new(
                usize_or(&a[0], DOC_BATCH_DISTANCE_SHARDS)?,
                usize_or(&a[1], DOC_BATCH_VOTING_SHARDS)?,
                usize_or(&a[2], DOC_SORT_BBOX_HISTORY)?,
                usize_or(&a[3], DOC_SORT_MAX_IDLE_EPOCHS)?,
                method_or_default(t, &a[4])?,
                f32_or(&a[5], DOC_SORT_MIN_CONFIDENCE)?,
                stc_or_none(t, &a[6])?,
                f32_or(&a[7], DOC_KALMAN_POSITION_WEIGHT)?,
                f32_or(&a[8], DOC_KALMAN_VELOCITY_WEIGHT)?,
            )))
        }
        "VisualSort" => {
            let a = req(step, &["shards", "opts"])?;
            let shards = usizev(&a[0])?;
            let opts = optsv(t, &a[1])?;
            bound(Obj::VSort(VisualSort::new(shards, &opts)))
        }
        "BatchVisualSort" => {
            let a = req(step, &["distance_shards", "voting_shards", "opts"])?;
            let d = usizev(&a[0])?;
            let v = usizev(&a[1])?;
            let opts = optsv(t, &a[2])?;
            bound(Obj::BVSort(BatchVisualSort::new(d, v, &opts)))
        }
        // classes that Python cannot construct: Polygon, SortTrack, Wasted*, *State, PredictionBatchResult,
        // PositionalMetricType, VisualSortMetricType
        "Polygon" | "SortTrack" | "WastedSortTrack" | "WastedVisualSortTrack"
        | "Universal2DBoxKalmanFilterState" | "Point2DKalmanFilterState"
        | "PredictionBatchResult" | "PositionalMetricType" | "VisualSortMetricType" => Err(E::Api),
        _ => drv!("unknown class {cls}"),
    }
}

fn static_call(_t: &Table, cls: &str, method: &str, step: &Value) -> R<Out> {
    match (cls, method) {
        ("BoundingBox", "new_with_confidence") => {
            let a = req(step, &["left", "top", "width", "height", "confidence"])?;
            bound(Obj::BBox(BoundingBox::new_with_confidence(
                f32v(&a[0])?,
                f32v(&a[1])?,
                f32v(&a[2])?,
                f32v(&a[3])?,
                f32v(&a[4])?,
            )))
        }
        ("Universal2DBox", "new_with_confidence") => {
            let a = req(
                step,
                &["xc", "yc", "angle", "aspect", "height", "confidence"],
            )?;
            bound(Obj::UBox(Universal2DBox::new_with_confidence(
                f32v(&a[0])?,
                f32v(&a[1])?,
                opt_f32v(&a[2])?,
                f32v(&a[3])?,
                f32v(&a[4])?,
                f32v(&a[5])?,
            )))
        }
        ("Universal2DBox", "ltwh") => {
            let a = req(step, &["left", "top", "width", "height"])?;
            bound(Obj::UBox(Universal2DBox::ltwh(
                f32v(&a[0])?,
                f32v(&a[1])?,
                f32v(&a[2])?,
                f32v(&a[3])?,
            )))
        }
        ("Universal2DBox", "ltwh_with_confidence") => {
            let a = req(step, &["left", "top", "width", "height", "confidence"])?;
            bound(Obj::UBox(Universal2DBox::ltwh_with_confidence(
                f32v(&a[0])?,
                f32v(&a[1])?,
                f32v(&a[2])?,
                f32v(&a[3])?,
                f32v(&a[4])?,
            )))
        }
        ("PositionalMetricType", "maha") => {
            req(step, &[])?;
            bound(Obj::PosMetric(PositionalMetricType::Mahalanobis))
        }
        ("PositionalMetricType", "iou") => {
            let a = req(step, &["threshold"])?;
            bound(Obj::PosMetric(PositionalMetricType::IoU(f32v(&a[0])?)))
        }
        ("VisualSortMetricType", "euclidean") => {
            let a = req(step, &["threshold"])?;
            bound(Obj::VisMetric(VisualSortMetricType::euclidean(f32v(&a[0])?)))
        }
        ("VisualSortMetricType", "cosine") => {
            let a = req(step, &["threshold"])?;
            bound(Obj::VisMetric(VisualSortMetricType::cosine(f32v(&a[0])?)))
        }
        ("Universal2DBoxKalmanFilter", "calculate_cost") => {
            let a = req(step, &["distance", "inverted"])?;
            plain(cf32(Universal2DBoxKalmanFilter::calculate_cost(
                f32v(&a[0])?,
                boolv(&a[1])?,
            )))
        }
        ("Point2DKalmanFilter", "calculate_cost") => {
            let a = req(step, &["distance", "inverted"])?;
            plain(cf32(Point2DKalmanFilter::calculate_cost(
                f32v(&a[0])?,
                boolv(&a[1])?,
            )))
        }
        ("Vec2DKalmanFilter", "calculate_cost") => {
            let a = req(step, &["distances", "inverted"])?;
            let d: Vec<f32> = seqv(&a[0])?.iter().map(f32v).collect::<R<_>>()?;
            plain(Value::Array(
                Vec2DKalmanFilter::calculate_cost(&d, boolv(&a[1])?)
                    .into_iter()
                    .map(cf32)
                    .collect(),
            ))
        }
        _ => drv!("unknown static method {cls}.{method}"),
    }
}

fn func(t: &Table, name: &str, step: &Value) -> R<Out> {
    match name {
        "version" => {
            req(step, &[])?;
            match std::env::var("C18_CRATE_VERSION") {
                Ok(v) => plain(json!(v)),
                Err(_) => drv!("C18_CRATE_VERSION is not set"),
            }
        }
        "nms" => {
            let a = req(step, &["detections", "nms_threshold", "score_threshold"])?;
            let dets: Vec<(Universal2DBox, Option<f32>)> = seqv(&a[0])?
                .iter()
                .map(|d| {
                    let tu = tuplev(d, 2)?;
                    Ok((uboxv(t, &tu[0])?, opt_f32v(&tu[1])?))
                })
                .collect::<R<_>>()?;
            let res: Vec<Universal2DBox> = nms(&dets, f32v(&a[1])?, opt_f32v(&a[2])?)
                .into_iter()
                .cloned()
                .collect();
            bound(Obj::List(res.into_iter().map(Obj::UBox).collect()))
        }
        "sutherland_hodgman_clip" => {
            let a = req(step, &["subject", "clipping"])?;
            let s = uboxv(t, &a[0])?;
            let c = uboxv(t, &a[1])?;
            bound(Obj::Poly(s.sutherland_hodgman_clip(c)))
        }
        "intersection_area" => {
            let a = req(step, &["subject", "clipping"])?;
            let s = uboxv(t, &a[0])?;
            let c = uboxv(t, &a[1])?;
            plain(cf64(s.sutherland_hodgman_clip(c).unsigned_area()))
        }
        _ => drv!("unknown function {name}"),
    }
}

// ---------------------------------------------------------------------------------------------
// Methods
// ---------------------------------------------------------------------------------------------
macro_rules! tracker_common {
    ($trk:expr, $method:expr, $step:expr, $wasted:expr) => {{
        let trk = $trk;
        match $method {
            "skip_epochs" => {
                let a = req($step, &["n"])?;
                trk.skip_epochs(usizev(&a[0])?);
                Some(none())
            }
            "skip_epochs_for_scene" => {
                let a = req($step, &["scene_id", "n"])?;
                trk.skip_epochs_for_scene(u64v(&a[0])?, usizev(&a[1])?);
                Some(none())
            }
            "shard_stats" => {
                req($step, &[])?;
                Some(plain(ints(trk.active_shard_stats())))
            }
            "current_epoch" => {
                req($step, &[])?;
                Some(plain(json!(trk.current_epoch())))
            }
            "current_epoch_with_scene" => {
                let a = req($step, &["scene_id"])?;
                Some(plain(json!(trk.current_epoch_with_scene(u64v(&a[0])?))))
            }
            "wasted" => {
                req($step, &[])?;
                let w: Vec<Obj> = trk.wasted().into_iter().map($wasted).collect();
                Some(bound(Obj::List(w)))
            }
            "clear_wasted" => {
                req($step, &[])?;
                trk.clear_wasted();
                Some(none())
            }
            _ => None,
        }
    }};
}

fn wsort(
    t: similari::track::Track<
        similari::trackers::sort::SortAttributes,
        similari::trackers::sort::metric::SortMetric,
        Universal2DBox,
    >,
) -> Obj {
    Obj::WSort(WastedSortTrack::from(t))
}
fn wvis(
    t: similari::track::Track<
        similari::trackers::visual_sort::track_attributes::VisualAttributes,
        similari::trackers::visual_sort::metric::VisualMetric,
        similari::trackers::visual_sort::observation_attributes::VisualObservationAttributes,
    >,
) -> Obj {
    Obj::WVis(WastedVisualSortTrack::from(t))
}

fn vobs_setv<'a>(t: &'a Table, v: &Value) -> R<Rc<RefCell<Obj>>> {
    let o = lookup(t, v)?;
    let ok = matches!(&*o.borrow(), Obj::VObsSet(_));
    if ok {
        Ok(o)
    } else {
        Err(E::Api)
    }
}

fn method_call(t: &Table, target: &Rc<RefCell<Obj>>, method: &str, step: &Value) -> R<Out> {
    let mut guard = target.borrow_mut();
    let cls = guard.cls();
    match &mut *guard {
        Obj::BBox(b) => match method {
            "as_xyaah" => {
                req(step, &[])?;
                bound(Obj::UBox(b.as_xyaah()))
            }
            _ => drv!("unknown method {cls}.{method}"),
        },
        Obj::UBox(b) => match method {
            "get_radius" => {
                req(step, &[])?;
                plain(cf32(b.get_radius()))
            }
            "area" => {
                req(step, &[])?;
                plain(cf32(b.area()))
            }
            "as_ltwh" => {
                req(step, &[])?;
                match BoundingBox::try_from(&*b) {
                    Ok(bb) => bound(Obj::BBox(bb)),
                    Err(_) => Err(E::Api),
                }
            }
            "gen_vertices" => {
                req(step, &[])?;
                b.gen_vertices();
                none()
            }
            "get_vertices" => {
                req(step, &[])?;
                bound(Obj::Poly(b.get_vertices()))
            }
            "rotate" => {
                // the Python method mutates in place: the in-place Rust call is `rotate_mut`
                let a = req(step, &["angle"])?;
                b.rotate_mut(f32v(&a[0])?);
                none()
            }
            _ => drv!("unknown method {cls}.{method}"),
        },
        Obj::Poly(p) => match method {
            "get_points" => {
                req(step, &[])?;
                plain(points_of(p))
            }
            _ => drv!("unknown method {cls}.{method}"),
        },
        Obj::BoxKF(f) => match method {
            "initiate" => {
                let a = req(step, &["bbox"])?;
                bound(Obj::BoxKFState(f.initiate(&uboxv(t, &a[0])?)))
            }
            "predict" => {
                let a = req(step, &["state"])?;
                bound(Obj::BoxKFState(f.predict(&box_statev(t, &a[0])?)))
            }
            "update" => {
                let a = req(step, &["state", "bbox"])?;
                bound(Obj::BoxKFState(
                    f.update(&box_statev(t, &a[0])?, &uboxv(t, &a[1])?),
                ))
            }
            "distance" => {
                let a = req(step, &["state", "bbox"])?;
                plain(cf32(f.distance(box_statev(t, &a[0])?, &uboxv(t, &a[1])?)))
            }
            _ => drv!("unknown method {cls}.{method}"),
        },
        Obj::BoxKFState(s) => match method {
            "universal_bbox" => {
                req(step, &[])?;
                bound(Obj::UBox(Universal2DBox::try_from(*s).map_err(|_| E::Api)?))
            }
            "bbox" => {
                req(step, &[])?;
                bound(Obj::BBox(BoundingBox::try_from(*s).map_err(|_| E::Api)?))
            }
            _ => drv!("unknown method {cls}.{method}"),
        },
        Obj::PointKF(f) => match method {
            "initiate" => {
                let a = req(step, &["x", "y"])?;
                bound(Obj::PointKFState(
                    f.initiate(&Point2::from([f32v(&a[0])?, f32v(&a[1])?])),
                ))
            }
            "predict" => {
                let a = req(step, &["state"])?;
                bound(Obj::PointKFState(f.predict(&point_statev(t, &a[0])?)))
            }
            "update" => {
                let a = req(step, &["state", "x", "y"])?;
                bound(Obj::PointKFState(f.update(
                    &point_statev(t, &a[0])?,
                    &Point2::from([f32v(&a[1])?, f32v(&a[2])?]),
                )))
            }
            "distance" => {
                let a = req(step, &["state", "x", "y"])?;
                plain(cf32(f.distance(
                    &point_statev(t, &a[0])?,
                    &Point2::from([f32v(&a[1])?, f32v(&a[2])?]),
                )))
            }
            _ => drv!("unknown method {cls}.{method}"),
        },
        Obj::PointKFState(s) => {
            let p: Point2<f32> = Point2::from(*s);
            match method {
                "x" => {
                    req(step, &[])?;
                    plain(cf32(p.x))
                }
                "y" => {
                    req(step, &[])?;
                    plain(cf32(p.y))
                }
                _ => drv!("unknown method {cls}.{method}"),
            }
        }
        Obj::VecKF(f) => {
            let states = |v: Vec<KalmanState<DIM_2D_POINT_X2>>| {
                Obj::List(v.into_iter().map(Obj::PointKFState).collect())
            };
            match method {
                "initiate" => {
                    let a = req(step, &["points"])?;
                    bound(states(f.initiate(&pointsv(&a[0])?)))
                }
                "predict" => {
                    let a = req(step, &["state"])?;
                    bound(states(f.predict(&point_state_listv(t, &a[0])?)))
                }
                "update" => {
                    let a = req(step, &["state", "points"])?;
                    bound(states(
                        f.update(&point_state_listv(t, &a[0])?, &pointsv(&a[1])?),
                    ))
                }
                "distance" => {
                    let a = req(step, &["state", "points"])?;
                    plain(Value::Array(
                        f.distance(&point_state_listv(t, &a[0])?, &pointsv(&a[1])?)
                            .into_iter()
                            .map(cf32)
                            .collect(),
                    ))
                }
                _ => drv!("unknown method {cls}.{method}"),
            }
        }
        Obj::Stc(s) => match method {
            "add_constraints" => {
                let a = req(step, &["constraints"])?;
                let c: Vec<(usize, f32)> = seqv(&a[0])?
                    .iter()
                    .map(|e| {
                        let tu = tuplev(e, 2)?;
                        Ok((usizev(&tu[0])?, f32v(&tu[1])?))
                    })
                    .collect::<R<_>>()?;
                s.add_constraints(c);
                none()
            }
            "validate" => {
                let a = req(step, &["epoch_delta", "dist"])?;
                plain(json!(s.validate(usizev(&a[0])?, f32v(&a[1])?)))
            }
            _ => drv!("unknown method {cls}.{method}"),
        },
        Obj::Opts(o) => {
            // Python setters mutate in place; the Rust API offers the consuming builder methods of the
            // same names. A rejected value leaves the options unchanged on both sides.
            let cur = o.clone();
            let new = match method {
                "max_idle_epochs" => cur.max_idle_epochs(usizev(&req(step, &["n"])?[0])?),
                "kept_history_length" => cur.kept_history_length(usizev(&req(step, &["n"])?[0])?),
                "visual_min_votes" => cur.visual_min_votes(usizev(&req(step, &["n"])?[0])?),
                "visual_metric" => cur.visual_metric(vis_metricv(t, &req(step, &["metric"])?[0])?),
                "spatio_temporal_constraints" => {
                    cur.spatio_temporal_constraints(stcv(t, &req(step, &["constraints"])?[0])?)
                }
                "positional_metric" => {
                    cur.positional_metric(pos_metricv(t, &req(step, &["metric"])?[0])?)
                }
                "visual_minimal_track_length" => {
                    cur.visual_minimal_track_length(usizev(&req(step, &["length"])?[0])?)
                }
                "visual_minimal_area" => cur.visual_minimal_area(f32v(&req(step, &["area"])?[0])?),
                "visual_minimal_quality_use" => {
                    cur.visual_minimal_quality_use(f32v(&req(step, &["q"])?[0])?)
                }
                "positional_min_confidence" => {
                    cur.positional_min_confidence(f32v(&req(step, &["conf"])?[0])?)
                }
                "visual_max_observations" => {
                    cur.visual_max_observations(usizev(&req(step, &["n"])?[0])?)
                }
                "visual_minimal_quality_collect" => {
                    cur.visual_minimal_quality_collect(f32v(&req(step, &["q"])?[0])?)
                }
                "visual_minimal_own_area_percentage_use" => {
                    cur.visual_minimal_own_area_percentage_use(f32v(&req(step, &["area"])?[0])?)
                }
                "visual_minimal_own_area_percentage_collect" => {
                    cur.visual_minimal_own_area_percentage_collect(f32v(&req(step, &["area"])?[0])?)
                }
                "kalman_position_weight" => {
                    cur.kalman_position_weight(f32v(&req(step, &["weight"])?[0])?)
                }
                "kalman_velocity_weight" => {
                    cur.kalman_velocity_weight(f32v(&req(step, &["weight"])?[0])?)
                }
                _ => return drv!("unknown method {cls}.{method}"),
            };
            *o = new;
            none()
        }
        Obj::VObsSet(s) => match method {
            "add" => {
                let a = req(step, &["observation"])?;
                s.add(vobsv(t, &a[0])?);
                none()
            }
            _ => drv!("unknown method {cls}.{method}"),
        },
        Obj::Sort(trk) => {
            if let Some(r) = tracker_common!(&mut *trk, method, step, wsort) {
                return r;
            }
            match method {
                "predict" => {
                    let a = req(step, &["bboxes"])?;
                    bound(tracks(trk.predict(&detectionsv(t, &a[0])?)))
                }
                "predict_with_scene" => {
                    let a = req(step, &["scene_id", "bboxes"])?;
                    let scene = u64v(&a[0])?;
                    bound(tracks(
                        trk.predict_with_scene(scene, &detectionsv(t, &a[1])?),
                    ))
                }
                "idle_tracks" => {
                    req(step, &[])?;
                    bound(tracks(trk.idle_tracks()))
                }
                "idle_tracks_with_scene" => {
                    let a = req(step, &["scene_id"])?;
                    bound(tracks(trk.idle_tracks_with_scene(u64v(&a[0])?)))
                }
                _ => drv!("unknown method {cls}.{method}"),
            }
        }
        Obj::VSort(trk) => {
            if let Some(r) = tracker_common!(&mut *trk, method, step, wvis) {
                return r;
            }
            match method {
                "predict" => {
                    let a = req(step, &["observation_set"])?;
                    let set = vobs_setv(t, &a[0])?;
                    let set = set.borrow();
                    let Obj::VObsSet(s) = &*set else { unreachable!() };
                    bound(tracks(trk.predict(&s.inner)))
                }
                "predict_with_scene" => {
                    let a = req(step, &["scene_id", "observation_set"])?;
                    let scene = u64v(&a[0])?;
                    let set = vobs_setv(t, &a[1])?;
                    let set = set.borrow();
                    let Obj::VObsSet(s) = &*set else { unreachable!() };
                    bound(tracks(trk.predict_with_scene(scene, &s.inner)))
                }
                "idle_tracks" => {
                    req(step, &[])?;
                    bound(tracks(trk.idle_tracks()))
                }
                // Python-visible name of `idle_tracks_with_scene`
                "idle_tracks_with_scene_py" => {
                    let a = req(step, &["scene_id"])?;
                    bound(tracks(trk.idle_tracks_with_scene(u64v(&a[0])?)))
                }
                _ => drv!("unknown method {cls}.{method}"),
            }
        }
        Obj::BSort(trk) => {
            if let Some(r) = tracker_common!(&mut *trk, method, step, wsort) {
                return r;
            }
            match method {
                "predict" => {
                    let a = req(step, &["batch"])?;
                    let r = lookup(t, &a[0])?;
                    // PyO3 passes the request by value: a copy that shares the result channel
                    let mut copy = match &*r.borrow() {
                        Obj::SortReq(q) => q.clone(),
                        _ => return Err(E::Api),
                    };
                    let res = copy.result.take();
                    trk.predict(copy.batch);
                    bound(Obj::BatchRes(res.ok_or(E::Api)?))
                }
                // Python: idle_tracks(scene_id)
                "idle_tracks" => {
                    let a = req(step, &["scene_id"])?;
                    bound(tracks(trk.idle_tracks_with_scene(u64v(&a[0])?)))
                }
                _ => drv!("unknown method {cls}.{method}"),
            }
        }
        Obj::BVSort(trk) => {
            if let Some(r) = tracker_common!(&mut *trk, method, step, wvis) {
                return r;
            }
            match method {
                "predict" => {
                    let a = req(step, &["py_batch"])?;
                    let r = lookup(t, &a[0])?;
                    let (mut copy, handed_out) = match &*r.borrow() {
                        Obj::VReq(q, h) => (q.clone(), h.clone()),
                        _ => return Err(E::Api),
                    };
                    // the results of a batch arrive at the handle that belongs to its request
                    let res = copy.prediction().or(handed_out);
                    trk.predict(copy.batch);
                    bound(Obj::BatchRes(res.ok_or(E::Api)?))
                }
                "idle_tracks" => {
                    let a = req(step, &["scene_id"])?;
                    bound(tracks(trk.idle_tracks_with_scene(u64v(&a[0])?)))
                }
                _ => drv!("unknown method {cls}.{method}"),
            }
        }
        Obj::SortReq(q) => match method {
            "add" => {
                let a = params(
                    step,
                    &[
                        ("scene_id", false),
                        ("bbox", false),
                        ("custom_object_id", true),
                    ],
                )?;
                let scene = u64v(a[0].as_ref().unwrap())?;
                let b = uboxv(t, a[1].as_ref().unwrap())?;
                let id = match &a[2] {
                    None => None, // documented default
                    Some(v) => opt_i64v(v)?,
                };
                q.add(scene, b, id);
                none()
            }
            _ => drv!("unknown method {cls}.{method}"),
        },
        Obj::VReq(q, handed_out) => match method {
            "add" => {
                let a = req(step, &["scene_id", "elt"])?;
                q.add(u64v(&a[0])?, vobsv(t, &a[1])?);
                none()
            }
            "prediction" => {
                req(step, &[])?;
                match q.prediction() {
                    Some(r) => {
                        *handed_out = Some(r.clone());
                        bound(Obj::BatchRes(r))
                    }
                    None => none(),
                }
            }
            _ => drv!("unknown method {cls}.{method}"),
        },
        Obj::BatchRes(r) => match method {
            "ready" => {
                req(step, &[])?;
                plain(json!(r.ready()))
            }
            "batch_size" => {
                req(step, &[])?;
                plain(json!(r.batch_size()))
            }
            "get" => {
                req(step, &[])?;
                let (scene, trks) = r.get();
                let l = tracks(trks);
                plain(json!([scene, dump(&l, true)]))
            }
            _ => drv!("unknown method {cls}.{method}"),
        },
        _ => drv!("class {cls} has no methods ({method})"),
    }
}

fn get_attr(target: &Rc<RefCell<Obj>>, attr: &str) -> R<Out> {
    let g = target.borrow();
    match (&*g, attr) {
        (Obj::BBox(b), "left") => plain(cf32(b.left)),
        (Obj::BBox(b), "top") => plain(cf32(b.top)),
        (Obj::BBox(b), "width") => plain(cf32(b.width)),
        (Obj::BBox(b), "height") => plain(cf32(b.height)),
        (Obj::BBox(b), "confidence") => plain(cf32(b.confidence)),
        (Obj::UBox(b), "xc") => plain(cf32(b.xc)),
        (Obj::UBox(b), "yc") => plain(cf32(b.yc)),
        (Obj::UBox(b), "angle") => plain(copt_f32(b.angle)),
        (Obj::UBox(b), "aspect") => plain(cf32(b.aspect)),
        (Obj::UBox(b), "height") => plain(cf32(b.height)),
        (Obj::UBox(b), "confidence") => plain(cf32(b.confidence)),
        (o, a) => drv!("unknown attribute {}.{a}", o.cls()),
    }
}

fn set_attr(target: &Rc<RefCell<Obj>>, attr: &str, v: &Value) -> R<Out> {
    let mut g = target.borrow_mut();
    match (&mut *g, attr) {
        (Obj::BBox(b), "left") => b.left = f32v(v)?,
        (Obj::BBox(b), "top") => b.top = f32v(v)?,
        (Obj::BBox(b), "width") => b.width = f32v(v)?,
        (Obj::BBox(b), "height") => b.height = f32v(v)?,
        // the ltwh box has public fields only: no validating setter exists in the Rust API
        (Obj::BBox(b), "confidence") => b.confidence = f32v(v)?,
        (Obj::UBox(b), "xc") => b.xc = f32v(v)?,
        (Obj::UBox(b), "yc") => b.yc = f32v(v)?,
        (Obj::UBox(b), "angle") => b.angle = opt_f32v(v)?,
        (Obj::UBox(b), "aspect") => b.aspect = f32v(v)?,
        (Obj::UBox(b), "height") => b.height = f32v(v)?,
        (Obj::UBox(b), "confidence") => b.set_confidence(f32v(v)?),
        (o, a) => return drv!("unknown settable attribute {}.{a}", o.cls()),
    }
    none()
}

// ---------------------------------------------------------------------------------------------
// Steps
// ---------------------------------------------------------------------------------------------
fn sfield<'a>(step: &'a Value, name: &str) -> R<&'a str> {
    match step.get(name).and_then(|v| v.as_str()) {
        Some(s) => Ok(s),
        None => drv!("step without string field {name}"),
    }
}

fn target(t: &Table, step: &Value) -> R<Rc<RefCell<Obj>>> {
    let on = sfield(step, "on")?;
    // a missing binding is the consequence of an earlier failed step: an API-level error on both sides
    t.get(on).cloned().ok_or(E::Api)
}

fn exec(t: &Table, step: &Value) -> R<Out> {
    let op = sfield(step, "op")?;
    match op {
        "new" => construct(t, sfield(step, "cls")?, step),
        "static" => static_call(t, sfield(step, "cls")?, sfield(step, "method")?, step),
        "func" => func(t, sfield(step, "name")?, step),
        "call" => {
            let tg = target(t, step)?;
            method_call(t, &tg, sfield(step, "method")?, step)
        }
        "get" => get_attr(&target(t, step)?, sfield(step, "attr")?),
        "set" => {
            let v = step.get("value").cloned().unwrap_or(Value::Null);
            set_attr(&target(t, step)?, sfield(step, "attr")?, &v)
        }
        "dump" => {
            let tg = target(t, step)?;
            let g = tg.borrow();
            plain(dump(&g, true))
        }
        "repr" => {
            let tg = target(t, step)?;
            let g = tg.borrow();
            plain(json!(repr_of(&g, false)?))
        }
        "str" => {
            let tg = target(t, step)?;
            let g = tg.borrow();
            plain(json!(repr_of(&g, true)?))
        }
        "item" => {
            let tg = target(t, step)?;
            let g = tg.borrow();
            let idx = step.get("index").and_then(|v| v.as_u64()).unwrap_or(0) as usize;
            match &*g {
                Obj::List(l) => match l.get(idx) {
                    Some(o) => bound(o.try_clone()?),
                    None => Err(E::Api),
                },
                _ => Err(E::Api),
            }
        }
        // PredictionBatchResult.get() called n times; the (scene, tracks) pairs ordered by scene id
        "collect" => {
            let tg = target(t, step)?;
            let g = tg.borrow();
            let n = step.get("n").and_then(|v| v.as_u64()).unwrap_or(0) as usize;
            match &*g {
                Obj::BatchRes(r) => {
                    let mut all = Vec::new();
                    for _ in 0..n {
                        all.push(r.get());
                    }
                    all.sort_by_key(|(s, _)| *s);
                    plain(Value::Array(
                        all.into_iter()
                            .map(|(s, trks)| json!([s, dump(&tracks(trks), true)]))
                            .collect(),
                    ))
                }
                _ => Err(E::Api),
            }
        }
        // PredictionBatchResult.ready() polled until true or until the timeout expires
        "wait_ready" => {
            let tg = target(t, step)?;
            let g = tg.borrow();
            let ms = step
                .get("timeout_ms")
                .and_then(|v| v.as_u64())
                .unwrap_or(1000);
            match &*g {
                Obj::BatchRes(r) => {
                    let t0 = Instant::now();
                    let mut ready = r.ready();
                    while !ready && t0.elapsed() < Duration::from_millis(ms) {
                        std::thread::sleep(Duration::from_millis(2));
                        ready = r.ready();
                    }
                    plain(json!(ready))
                }
                _ => Err(E::Api),
            }
        }
        other => drv!("unknown op {other}"),
    }
}

fn main() {
    let args: Vec<String> = std::env::args().collect();
    if args.len() != 3 {
        eprintln!("usage: pydrv <scripts.jsonl> <out.jsonl>");
        std::process::exit(2);
    }
    // API panics are results, not noise
    std::panic::set_hook(Box::new(|_| {}));
    let input = BufReader::new(std::fs::File::open(&args[1]).expect("cannot open scripts"));
    let mut out = BufWriter::new(std::fs::File::create(&args[2]).expect("cannot create output"));
    let mut scripts = 0usize;
    let mut steps_total = 0usize;
    for line in input.lines() {
        let line = line.expect("read error");
        if line.trim().is_empty() {
            continue;
        }
        let script: Value = serde_json::from_str(&line).expect("script is not JSON");
        let id = script.get("id").cloned().unwrap_or(Value::Null);
        let empty = Vec::new();
        let steps = script
            .get("steps")
            .and_then(|s| s.as_array())
            .unwrap_or(&empty);
        let mut table: Table = HashMap::new();
        for (k, step) in steps.iter().enumerate() {
            let r = catch_unwind(AssertUnwindSafe(|| exec(&table, step)));
            let result = match r {
                Ok(Ok((val, obj))) => {
                    if let (Some(name), Some(obj)) =
                        (step.get("bind").and_then(|b| b.as_str()), obj)
                    {
                        table.insert(name.to_string(), Rc::new(RefCell::new(obj)));
                    }
                    val
                }
                Ok(Err(E::Api)) => err_val(),
                Ok(Err(E::Driver(m))) => json!({ "driver_error": m }),
                Err(_) => err_val(),
            };
            writeln!(
                out,
                "{}",
                json!({"script": id, "step": k, "result": result})
            )
            .expect("write error");
            steps_total += 1;
        }
        // dropping the trackers joins their worker threads
        let _ = catch_unwind(AssertUnwindSafe(move || drop(table)));
        scripts += 1;
    }
    writeln!(
        out,
        "{}",
        json!({"done": true, "scripts": scripts, "steps": steps_total})
    )
    .expect("write error");
    out.flush().expect("flush error");
}
