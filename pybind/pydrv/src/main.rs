fn main(){ println!("{}", serde_json::json!({"a":1.5})); }
