#!/usr/bin/env python3
"""C18 check: generate the API scripts, run them through the Python module and through the Rust driver,
compare the outputs field by field, write the evidence, print the verdict lines.

usage: c18_check.py <quick|thorough> [--replay <file>]
environment (set by run_c18.sh): C18_PYDRV (driver binary), C18_PYMOD (directory with similari.so),
C18_WORK (scratch directory), C18_VERIF (verif root), C18_REPO, C18_CRATE_VERSION, VERIF_SEED.
exit: 0 agreed / only known findings, 1 unlisted disagreement, 2 machinery error
"""
import json
import os
import re
import subprocess
import sys
import time

HERE = os.path.dirname(os.path.abspath(__file__))
sys.path.insert(0, HERE)
import gen_scripts  # noqa: E402

PROPERTY = "C18"
TRACK_CLASSES = ("SortTrack", "WastedSortTrack", "WastedVisualSortTrack")


def machinery(msg):
    print(f"MACHINERY-ERROR: {msg}")
    sys.stdout.flush()
    sys.exit(2)


def env(name, default=None):
    v = os.environ.get(name, default)
    if v is None:
        machinery(f"environment variable {name} is not set (run through run_c18.sh)")
    return v


# --------------------------------------------------------------------------------------------------
# normalisation of one step result before comparison
# --------------------------------------------------------------------------------------------------
def is_track(v):
    return isinstance(v, dict) and v.get("cls") in TRACK_CLASSES and isinstance(v.get("fields"), dict)


def sort_key(v):
    f = v["fields"]
    s, i = f.get("scene_id"), f.get("id")
    return (s if isinstance(s, int) else -1, i if isinstance(i, int) else -1)


def sort_unordered(v):
    """lists of track records that the API returns in hash order: ordered by (scene_id, id)"""
    if isinstance(v, list):
        if v and all(is_track(x) for x in v):
            return sorted(v, key=sort_key)
        return [sort_unordered(x) for x in v]
    return v


def canon_ids(v, mapping):
    """ids of a tracker whose scenes are dispatched in hash order: renamed per scene in order of appearance;
    repr strings of the records (they contain the raw ids) are dropped"""
    if isinstance(v, list):
        return [canon_ids(x, mapping) for x in v]
    if is_track(v):
        f = dict(v["fields"])
        f.pop("repr", None)
        scene, raw = f.get("scene_id"), f.get("id")
        if isinstance(scene, int) and isinstance(raw, int):
            per = mapping.setdefault(scene, {})
            if raw not in per:
                per[raw] = len(per) + 1
            f["id"] = f"scene{scene}#{per[raw]}"
        return {"cls": v["cls"], "fields": f}
    return v


def is_err(v):
    return isinstance(v, dict) and len(v) == 1 and v.get("error") is True


def first_diff(a, b, encl=None, field=None, path=""):
    """first difference in document order: (enclosing class, field, kind, path) or None"""
    if a == b:
        return None
    ea, eb = is_err(a), is_err(b)
    if ea != eb:
        return (encl, field, "error-python-only" if ea else "error-rust-only", path)
    if isinstance(a, dict) and isinstance(b, dict):
        if "cls" in a and "cls" in b:
            if a["cls"] != b["cls"]:
                return (encl, field, "type", path)
            fa, fb = a.get("fields") or {}, b.get("fields") or {}
            for k in sorted(set(fa) | set(fb)):
                if k not in fa or k not in fb:
                    return (a["cls"], k, "missing", f"{path}.{k}")
                d = first_diff(fa[k], fb[k], a["cls"], k, f"{path}.{k}")
                if d:
                    return d
            return None
        return (encl, field, "value", path)
    if isinstance(a, list) and isinstance(b, list):
        if len(a) != len(b):
            return (encl, field, "length", path)
        for i, (x, y) in enumerate(zip(a, b)):
            d = first_diff(x, y, encl, field, f"{path}[{i}]")
            if d:
                return d
        return None
    return (encl, field, "value" if type(a) is type(b) else "type", path)


def structural_key(step, py, rs):
    d = first_diff(py, rs)
    if d is None:
        return None, ""
    encl, field, kind, path = d
    if encl is not None:
        name = {"repr": "__repr__", "str": "__str__"}.get(field, field)
        return f"{encl}.{name}/{kind}", path
    return f"{step.get('api', step.get('op'))}/{kind}", path


def sanitize(s):
    return re.sub(r"[^A-Za-z0-9]", "_", s)[:80]


# --------------------------------------------------------------------------------------------------
def run_both(work, scripts_path):
    py_out, rs_out = os.path.join(work, "py.out"), os.path.join(work, "rs.out")
    for p in (py_out, rs_out):
        if os.path.exists(p):
            os.remove(p)
    penv = dict(os.environ)
    penv["PYTHONPATH"] = env("C18_PYMOD") + (":" + penv["PYTHONPATH"] if penv.get("PYTHONPATH") else "")
    timeout = float(os.environ.get("C18_TIMEOUT_S", "1500"))
    with open(os.path.join(work, "py.stderr"), "w") as pe, open(os.path.join(work, "rs.stderr"), "w") as re_:
        t0 = time.time()
        pp = subprocess.Popen([sys.executable, os.path.join(HERE, "py_runner.py"), scripts_path, py_out],
                              env=penv, stdout=pe, stderr=pe, cwd=work)
        rp = subprocess.Popen([env("C18_PYDRV"), scripts_path, rs_out], env=penv, stdout=re_, stderr=re_, cwd=work)
        times = {}
        for name, proc in (("python runner", pp), ("rust driver", rp)):
            try:
                rc = proc.wait(timeout=max(1.0, timeout - (time.time() - t0)))
            except subprocess.TimeoutExpired:
                pp.kill()
                rp.kill()
                machinery(f"{name} did not finish within {timeout:.0f} s (see {work}/py.stderr, rs.stderr)")
            times[name] = round(time.time() - t0, 3)
            if rc != 0:
                pp.kill()
                rp.kill()
                tail = ""
                try:
                    with open(os.path.join(work, "py.stderr" if proc is pp else "rs.stderr")) as f:
                        tail = " | ".join(f.read().strip().splitlines()[-4:])
                except OSError:
                    pass
                machinery(f"{name} ended with status {rc}: {tail}")
    return py_out, rs_out, times


def compare(scripts, py_out, rs_out):
    """returns (disagreements, stats, py_done, rs_done); disagreements: script id -> record"""
    dis = {}
    stats = {"steps_compared": 0, "steps_both_error": 0, "both_error_apis": {}, "scripts_compared": 0,
             "steps_after_first_disagreement_skipped": 0}
    with open(py_out) as pf, open(rs_out) as rf:
        for script in scripts:
            sid = script["id"]
            canon = bool(script.get("canon_ids"))
            maps = ({}, {})
            broken = False
            for k, step in enumerate(script["steps"]):
                pl, rl = pf.readline(), rf.readline()
                if not pl or not rl:
                    machinery(f"output ends early at script {sid} step {k} "
                              f"({'python' if not pl else 'rust'} side): a runner crashed")
                if broken:
                    stats["steps_after_first_disagreement_skipped"] += 1
                    continue
                stats["steps_compared"] += 1
                if pl == rl and not canon:
                    if '"result":{"error":true}' in pl:
                        stats["steps_both_error"] += 1
                        a = step.get("api", "?")
                        stats["both_error_apis"][a] = stats["both_error_apis"].get(a, 0) + 1
                    if '"driver_error"' in pl:
                        machinery(f"script {sid} step {k}: {pl.strip()}")
                    continue
                pj, rj = json.loads(pl), json.loads(rl)
                for side, j in (("python", pj), ("rust", rj)):
                    if j.get("script") != sid or j.get("step") != k:
                        machinery(f"{side} output out of step at script {sid} step {k}: got {j.get('script')}/{j.get('step')}")
                    if isinstance(j.get("result"), dict) and "driver_error" in j["result"]:
                        machinery(f"{side} side cannot execute script {sid} step {k}: {j['result']['driver_error']}")
                pr, rr = pj["result"], rj["result"]
                if step.get("unordered") or canon:
                    pr, rr = sort_unordered(pr), sort_unordered(rr)
                if canon:
                    pr, rr = canon_ids(pr, maps[0]), canon_ids(rr, maps[1])
                if pr == rr:
                    if is_err(pr):
                        stats["steps_both_error"] += 1
                        a = step.get("api", "?")
                        stats["both_error_apis"][a] = stats["both_error_apis"].get(a, 0) + 1
                    continue
                key, path = structural_key(step, pr, rr)
                dis[sid] = {"script": script, "step": k, "structural_key": key, "path": path,
                            "python": pr, "rust": rr}
                broken = True
            stats["scripts_compared"] += 1
        pd, rd = pf.readline(), rf.readline()
    try:
        pd, rd = json.loads(pd), json.loads(rd)
    except ValueError:
        machinery("a runner did not write its final line: it crashed")
    if not pd.get("done") or not rd.get("done"):
        machinery("a runner did not finish")
    return dis, stats, pd, rd


def attribute(scripts, dis):
    """final key of every disagreement"""
    by_id = {s["id"]: s for s in scripts}
    keys = {}
    for sid, d in dis.items():
        s = by_id[sid]
        if s.get("focus") and (not s.get("control") or s["control"] not in dis):
            keys[sid] = s["focus"]
    default_classes = set()
    for k in keys.values():
        m = re.match(r"^([A-Za-z0-9]+)\.__init__/default", k)
        if m:
            default_classes.add(m.group(1))
    for sid, d in dis.items():
        if sid in keys:
            continue
        s = by_id[sid]
        if not s.get("focus") and s.get("defaults_of") in default_classes:
            keys[sid] = f"{s['defaults_of']}.__init__/defaults"
        else:
            keys[sid] = d["structural_key"]
    return keys


def what_of(d):
    def short(v):
        t = json.dumps(v, sort_keys=True)
        return t if len(t) <= 160 else t[:157] + "..."
    step = d["script"]["steps"][d["step"]]
    return (f"script {d['script']['id']} step {d['step']} ({step.get('api')}) differs at result{d['path']}: "
            f"python={short(d['python'])} rust={short(d['rust'])}")


def main():
    t_start = time.time()
    args = sys.argv[1:]
    if not args or args[0] not in ("quick", "thorough"):
        machinery("usage: c18_check.py <quick|thorough> [--replay <file>]")
    tier = args[0]
    replay = None
    if len(args) >= 3 and args[1] == "--replay":
        replay = args[2]
    elif len(args) > 1:
        machinery(f"unknown arguments {args[1:]}")
    try:
        seed = int(os.environ.get("VERIF_SEED", "0") or "0")
    except ValueError:
        seed = 0
    verif = env("C18_VERIF")
    work = env("C18_WORK")
    os.makedirs(work, exist_ok=True)

    if replay:
        try:
            with open(replay) as f:
                body = json.load(f)
            script = body["replay"]["script"] if "replay" in body else body["script"]
        except (OSError, ValueError, KeyError) as e:
            machinery(f"cannot read replay file {replay}: {e}")
        scripts = [script]
        all_scripts = scripts
    else:
        all_scripts = gen_scripts.generate(tier)
        scripts = all_scripts
    scripts_path = os.path.join(work, "scripts.jsonl")
    with open(scripts_path, "w") as f:
        for s in scripts:
            f.write(json.dumps(s, separators=(",", ":")))
            f.write("\n")

    # what the module exposes
    penv = dict(os.environ)
    penv["PYTHONPATH"] = env("C18_PYMOD")
    names_path = os.path.join(work, "names.json")
    r = subprocess.run([sys.executable, os.path.join(HERE, "py_runner.py"), "--introspect", names_path],
                       env=penv, capture_output=True, text=True, cwd=work)
    if r.returncode != 0:
        machinery("python cannot import / introspect the module built from the tree: "
                  + " | ".join((r.stderr or r.stdout).strip().splitlines()[-3:]))
    with open(names_path) as f:
        exposed = json.load(f)

    py_out, rs_out, times = run_both(work, scripts_path)
    dis, stats, pd, rd = compare(scripts, py_out, rs_out)
    n_steps = sum(len(s["steps"]) for s in scripts)
    for side, d in (("python", pd), ("rust", rd)):
        if d.get("scripts") != len(scripts) or d.get("steps") != n_steps:
            machinery(f"{side} side executed {d.get('scripts')} scripts / {d.get('steps')} steps, "
                      f"expected {len(scripts)} / {n_steps}")
    keys = attribute(scripts, dis)

    # ---- known findings, replay files, verdict lines
    findings = []
    kf_path = os.path.join(verif, "known_findings.json")
    if os.path.exists(kf_path):
        try:
            with open(kf_path) as f:
                findings = json.load(f)
        except ValueError as e:
            machinery(f"{kf_path} does not parse: {e}")
    known = {e.get("key"): e.get("what", "") for e in findings
             if isinstance(e, dict) and e.get("property") == PROPERTY and e.get("status") == "known"}
    per_key = {}
    for sid in sorted(dis, key=lambda x: (len(dis[x]["script"]["steps"]), x)):
        per_key.setdefault(keys[sid], []).append(sid)
    lines, known_seen, unlisted_keys = [], [], []
    unlisted = listed = 0
    rdir = os.path.join(verif, "replays", PROPERTY)
    if not replay and os.path.isdir(rdir):
        # replay files of earlier full runs would be stale
        for fn in os.listdir(rdir):
            if fn.endswith(".json"):
                try:
                    os.remove(os.path.join(rdir, fn))
                except OSError:
                    pass
    for key in sorted(per_key):
        sids = per_key[key]
        if key in known:
            listed += len(sids)
            known_seen.append(key)
            lines.append(f"KNOWN-FINDING: property={PROPERTY} key={key} {known[key]} "
                         f"[{len(sids)} case(s) this run; e.g. {what_of(dis[sids[0]])}]")
            continue
        unlisted += len(sids)
        unlisted_keys.append(key)
        if replay:
            lines.append(f"VIOLATION property={PROPERTY} replay={replay}")
            lines.append(f"  key={key} cases={len(sids)} what={what_of(dis[sids[0]])}")
            continue
        os.makedirs(rdir, exist_ok=True)
        for i, sid in enumerate(sids[:3]):
            d = dis[sid]
            path = os.path.join(rdir, f"{sanitize(key)}_{i}.json")
            body = {"property": PROPERTY, "tier": tier, "key": key, "what": what_of(d),
                    "cases_with_this_key": len(sids),
                    "replay": {"script": d["script"], "step": d["step"], "structural_key": d["structural_key"],
                               "python": d["python"], "rust": d["rust"]},
                    "how": f"{verif}/check C18 {tier} --replay {path}"}
            with open(path, "w") as f:
                json.dump(body, f, indent=1, sort_keys=True)
                f.write("\n")
            if i == 0:
                lines.append(f"VIOLATION property={PROPERTY} replay={path}")
                lines.append(f"  key={key} cases={len(sids)} what={what_of(d)}")

    # ---- evidence
    covered = set(pd.get("covered", []))
    exposed_names = set(exposed)
    not_reproducible = {}
    for n in sorted(exposed_names - covered):
        not_reproducible[n] = "not exercised by any script"
    group_counts, group_steps = {}, {}
    distinct = set()
    for s in scripts:
        group_counts[s["group"]] = group_counts.get(s["group"], 0) + 1
        group_steps[s["group"]] = group_steps.get(s["group"], 0) + len(s["steps"])
        if len(s["steps"]) >= 2:
            distinct.add(json.dumps(s["steps"], sort_keys=True))
    n = len(scripts)
    picks = sorted({(seed * 7919 + i * max(1, n // 5) + i) % n for i in range(5)}) if n else []
    samples = [scripts[i] for i in picks]
    coverage = {
        "states": len(scripts),
        "transitions": stats["steps_compared"],
        "traces_validated_against_impl": stats["scripts_compared"],
        "evaluations": len(scripts),
        "distinct_nontrivial": len(distinct),
        "rule": gen_scripts.RULE,
        "samples": samples,
        "exhaustive": replay is None,
        "steps_generated": n_steps,
        "steps_skipped_after_first_disagreement_of_their_script": stats["steps_after_first_disagreement_skipped"],
        "steps_rejected_by_both_sides": stats["steps_both_error"],
        "apis_rejected_by_both_sides": dict(sorted(stats["both_error_apis"].items())),
        "scripts_per_group": dict(sorted(group_counts.items())),
        "steps_per_group": dict(sorted(group_steps.items())),
        "api_names_exposed": len(exposed_names),
        "api_names_covered": sorted(covered & exposed_names),
        "api_names_covered_not_in_introspection": sorted(covered - exposed_names),
        "api_names_not_covered": sorted(exposed_names - covered),
        "api_names_excluded": {
            "<Class>.__repr__ / __str__ of BatchSort, BatchVisualSort, Sort, VisualSort, the Kalman filter and state "
            "classes, PredictionBatchResult, the batch request classes, SpatioTemporalConstraints":
                "the binding defines none: Python's default object repr (type name and address) has no Rust counterpart",
            "VotingType": "not exported by the module; its repr/str are compared through SortTrack.voting_type",
        },
        "disagreeing_scripts": len(dis),
        "known_finding_keys_seen": known_seen,
        "unlisted_violation_keys": unlisted_keys,
        "runner_wall_s": times,
        "repo": env("C18_REPO", "/repo"),
        "crate_version": os.environ.get("C18_CRATE_VERSION", ""),
        "replay_of": replay,
    }
    assumptions = [
        "Reference for a Python name = the Rust item it is named after, called directly by pydrv (crate built without "
        "the python feature, same source tree): see the match arms of /verif/pybind/pydrv/src/main.rs. In-place Python "
        "methods map to the in-place Rust call (Universal2DBox.rotate -> rotate_mut, attribute setters -> public field "
        "assignment, Universal2DBox.confidence= -> set_confidence); VisualSortOptions setters map to the consuming "
        "builder methods of the same names; BatchSort.idle_tracks(scene) / VisualSort.idle_tracks_with_scene_py -> "
        "idle_tracks_with_scene; shard_stats -> TrackerAPI::active_shard_stats; objects passed by value are cloned "
        "(as PyO3 does for Clone pyclasses); BatchSort/BatchVisualSort.predict(request) -> predict(copy.batch) with "
        "the result handle that belongs to the request.",
        "Defaults: api.md names the parameters of Sort but gives no default values, so: shards=4, max_idle_epochs=5, "
        "distance_shards=4, voting_shards=4 from the examples under /repo/python/sort (every example passes these "
        "values); bbox_history=1 from api.md ('you can set it to 1') and the Rust doc of Sort::new ('for online - keep "
        "1'); method=Mahalanobis from PositionalMetricType::default(); min_confidence=0.05 from "
        "DEFAULT_MINIMAL_SORT_CONFIDENCE; spatio_temporal_constraints=None from api.md ('just set to None'); Kalman "
        "weights 1/20 and 1/160 from the Default impls of the three filters and of SortAttributesOptions; "
        "custom_object_id=None from api.md ('Optional[int] = None'); VisualSortOptions() = VisualSortOptions::default(). "
        "The same table is in DESIGN.md (C18).",
        "repr/str are compared where the binding formats a Rust value with Debug: directly for BoundingBox, "
        "Universal2DBox, WastedSortTrack, WastedVisualSortTrack, VisualSortOptions; for Polygon, SortTrack, VotingType, "
        "PositionalMetricType, VisualSortMetricType, VisualSortObservation(Set) through a derived Debug of a same-named "
        "tuple struct around the same Rust value.",
        "Both builds use the same compiler, opt-level 3, debug assertions and overflow checks on, no "
        "--cfg similari_verif; floating point results are compared by bit pattern (NaN as one class).",
        "Lists that the API returns in hash order (idle tracks, wasted tracks) are compared as sorted by (scene_id, id); "
        "for two-scene batches the ids are renamed per scene in order of appearance (scene dispatch follows the hash "
        "order of the request map) and the repr strings of those records are not compared.",
        "A step that raises on both sides counts as agreement whatever the exception types.",
    ]
    evidence = {
        "property_id": PROPERTY,
        "tier": tier,
        "seed": seed,
        "level": "model_checking",
        "coverage": coverage,
        "assumptions": assumptions,
        "wall_s": round(time.time() - t_start + float(os.environ.get("C18_BUILD_S", "0") or 0), 3),
        "violations": unlisted,
        "known_finding_cases": listed,
    }
    if not replay:
        os.makedirs(os.path.join(verif, "evidence"), exist_ok=True)
        with open(os.path.join(verif, "evidence", f"{PROPERTY}.json"), "w") as f:
            json.dump(evidence, f, indent=1, sort_keys=True)
            f.write("\n")

    for l in lines:
        print(l)
    print(f"C18 {tier}: {len(scripts)} scripts, {stats['steps_compared']} steps compared, "
          f"{len(covered & exposed_names)}/{len(exposed_names)} exposed names exercised, "
          f"{len(dis)} disagreeing script(s), {len(unlisted_keys)} unlisted key(s), {len(known_seen)} known key(s), "
          f"{evidence['wall_s']} s")
    sys.stdout.flush()
    sys.exit(1 if unlisted else 0)


if __name__ == "__main__":
    try:
        main()
    except SystemExit:
        raise
    except BaseException as e:  # a bug in the checker is never a verdict
        import traceback
        traceback.print_exc()
        print(f"MACHINERY-ERROR: c18_check.py failed: {type(e).__name__}: {e}")
        sys.stdout.flush()
        sys.exit(2)
