#!/bin/bash
# C18 (Python projection): run_c18.sh <quick|thorough> [--replay <file>]
#
# Builds the Python extension from the CURRENT working tree of the repository and the Rust reference driver
# (pydrv, path dependency on the same tree, python feature off), enumerates all API scripts of the tier, runs
# them through both and compares the outputs field by field. Neither build uses --cfg similari_verif.
#
# exit 0 = every script agreed (KNOWN-FINDING lines are not alarms)
# exit 1 = unlisted disagreement ("VIOLATION property=C18 replay=<path>" is printed)
# exit 2 = machinery error ("MACHINERY-ERROR: ..."): build failure, import failure, runner crash
#
# environment:
#   C18_REPO        tree under test (default /repo)
#   C18_TARGET_PY   cargo target dir of the extension build   (default /verif/target-py)
#   C18_TARGET_DRV  cargo target dir of the driver build      (default /verif/target-py-drv)
#   VERIF_SEED      rotates which scripts are shown as samples in the evidence (never what is enumerated)
set -u
TIER="${1:-${VERIF_TIER:-quick}}"
[ $# -gt 0 ] && shift
case "$TIER" in
  quick|thorough) ;;
  *) echo "MACHINERY-ERROR: usage: run_c18.sh <quick|thorough> [--replay <file>]"; exit 2 ;;
esac

HERE="$(cd "$(dirname "${BASH_SOURCE[0]}")" && pwd)"
VERIF_ROOT="$(cd "$HERE/.." && pwd)"
REPO="${C18_REPO:-/repo}"
TARGET_PY="${C18_TARGET_PY:-$VERIF_ROOT/target-py}"
TARGET_DRV="${C18_TARGET_DRV:-$VERIF_ROOT/target-py-drv}"
WORK="$TARGET_PY/c18"
PYTHON="${C18_PYTHON:-python3}"

export CARGO_NET_OFFLINE=true
export RUST_LIB_BACKTRACE=0
export RUST_BACKTRACE=0
# the verification cfg must not leak into these builds
unset RUSTFLAGS CARGO_ENCODED_RUSTFLAGS CARGO_BUILD_RUSTFLAGS

T0=$(date +%s.%N)
mkdir -p "$WORK" "$TARGET_PY/pymod" || { echo "MACHINERY-ERROR: cannot create $WORK"; exit 2; }
[ -f "$REPO/Cargo.toml" ] || { echo "MACHINERY-ERROR: no Cargo.toml in $REPO"; exit 2; }

# 1. the Python extension, from the current working tree (dev profile, default features = python)
LOG="$WORK/build-ext.log"
if ! (cd "$REPO" && CARGO_TARGET_DIR="$TARGET_PY" cargo build --offline --lib) >"$LOG" 2>&1; then
  echo "MACHINERY-ERROR: building the Python extension from $REPO failed (see $LOG)"
  grep -E "^error" -A6 "$LOG" | head -40
  exit 2
fi
if ! cp "$TARGET_PY/debug/libsimilari.so" "$TARGET_PY/pymod/similari.so"; then
  echo "MACHINERY-ERROR: $TARGET_PY/debug/libsimilari.so is missing after the build"
  exit 2
fi

# 2. the Rust reference driver against the same tree
DRV="$HERE/pydrv"
sed "s#@REPO@#$REPO#g" "$DRV/Cargo.toml.in" >"$DRV/Cargo.toml.new" || { echo "MACHINERY-ERROR: cannot write $DRV/Cargo.toml"; exit 2; }
if ! cmp -s "$DRV/Cargo.toml.new" "$DRV/Cargo.toml" 2>/dev/null; then mv "$DRV/Cargo.toml.new" "$DRV/Cargo.toml"; else rm -f "$DRV/Cargo.toml.new"; fi
cp "$REPO/Cargo.lock" "$DRV/Cargo.lock" || { echo "MACHINERY-ERROR: cannot copy $REPO/Cargo.lock"; exit 2; }
LOG="$WORK/build-drv.log"
if ! (cd "$DRV" && CARGO_TARGET_DIR="$TARGET_DRV" cargo build --release --offline) >"$LOG" 2>&1; then
  echo "MACHINERY-ERROR: building the Rust driver against $REPO failed (see $LOG)"
  grep -E "^error" -A8 "$LOG" | head -60
  exit 2
fi
[ -x "$TARGET_DRV/release/pydrv" ] || { echo "MACHINERY-ERROR: $TARGET_DRV/release/pydrv is missing after the build"; exit 2; }

# 3. the module must import
if ! PYTHONPATH="$TARGET_PY/pymod" "$PYTHON" -c "import similari; similari.version()" >"$WORK/import.log" 2>&1; then
  echo "MACHINERY-ERROR: python cannot import the module built from $REPO: $(tail -n 2 "$WORK/import.log" | tr '\n' ' ')"
  exit 2
fi

if [ "${C18_BUILD_ONLY:-0}" = 1 ]; then echo "C18 builds are up to date"; exit 0; fi

VERSION="$(sed -n 's/^version *= *"\(.*\)"/\1/p' "$REPO/Cargo.toml" | head -n 1)"
T1=$(date +%s.%N)
export C18_BUILD_S="$(echo "$T1 - $T0" | bc 2>/dev/null || echo 0)"
export C18_REPO="$REPO"
# VERIF_DIR (if set) redirects evidence / replays / known findings, as for the other engines
export C18_VERIF="${VERIF_DIR:-$VERIF_ROOT}"
export C18_WORK="$WORK"
export C18_PYMOD="$TARGET_PY/pymod"
export C18_PYDRV="$TARGET_DRV/release/pydrv"
export C18_CRATE_VERSION="$VERSION"
if [ "$TIER" = quick ]; then export C18_TIMEOUT_S="${C18_TIMEOUT_S:-600}"; else export C18_TIMEOUT_S="${C18_TIMEOUT_S:-1500}"; fi

"$PYTHON" "$HERE/c18_check.py" "$TIER" "$@"
rc=$?
if [ $rc -ne 0 ] && [ $rc -ne 1 ] && [ $rc -ne 2 ]; then
  echo "MACHINERY-ERROR: c18_check.py ended with status $rc"
  exit 2
fi
exit $rc
