#!/usr/bin/env python3
"""C18 Python-side runner.

Executes API scripts (JSON lines) through the Python module `similari` (built from the tree under test,
found through PYTHONPATH) and prints one canonical JSON line per step, in the format of pydrv.

usage: py_runner.py <scripts.jsonl> <out.jsonl>
       py_runner.py --introspect <out.json>

Step result conventions (shared with pydrv/src/main.rs):
  value                      canonical value (floats as {"f": <16 hex digits of the f64 bits>})
  {"error": true}            the API call raised (ValueError, TypeError, AttributeError, PanicException, ...)
  {"driver_error": "..."}    this runner does not know the operation: machinery error
"""
import json
import math
import struct
import sys
import time

import similari

ERR = {"error": True}

# Python-visible names exercised by this run ("Class.method", "Class.attr" for a getter, "Class.attr=" for a
# setter, "Class.__init__" for the constructor, bare names for module functions)
COVERED = set()


class DriverError(Exception):
    pass


def fbits(x):
    if math.isnan(x):
        return {"f": "nan"}
    return {"f": struct.pack(">d", x).hex()}


def safe(fn):
    """Value of an API access; an exception inside the binding is a result, not a crash."""
    try:
        return fn()
    except (KeyboardInterrupt, SystemExit):
        raise
    except BaseException:  # PanicException derives from BaseException
        return ERR


def field(obj, cls, name, top=False):
    COVERED.add(f"{cls}.{name}")
    return safe(lambda: canon(getattr(obj, name), top))


def method0(obj, cls, name, top=False):
    COVERED.add(f"{cls}.{name}")
    return safe(lambda: canon(getattr(obj, name)(), top))


def rep(obj, cls):
    COVERED.add(f"{cls}.__repr__")
    return safe(lambda: repr(obj))


def st(obj, cls):
    COVERED.add(f"{cls}.__str__")
    return safe(lambda: str(obj))


def d_ubox(o, top):
    c = "Universal2DBox"
    f = {k: field(o, c, k) for k in ("xc", "yc", "angle", "aspect", "height", "confidence")}
    f["get_radius"] = method0(o, c, "get_radius")
    f["area"] = method0(o, c, "area")
    if top:
        f["repr"] = rep(o, c)
    return f


def d_bbox(o, top):
    c = "BoundingBox"
    f = {k: field(o, c, k) for k in ("left", "top", "width", "height", "confidence")}
    if top:
        f["repr"] = rep(o, c)
    return f


def d_poly(o, top):
    c = "Polygon"
    f = {"get_points": method0(o, c, "get_points")}
    if top:
        f["repr"] = rep(o, c)
    return f


def d_voting(v):
    return {"repr": safe(lambda: repr(v)), "str": safe(lambda: str(v))}


def d_track(o, top):
    c = "SortTrack"
    f = {k: field(o, c, k) for k in ("id", "epoch", "predicted_bbox", "observed_bbox", "scene_id", "length",
                                     "custom_object_id")}
    COVERED.add(f"{c}.voting_type")
    f["voting_type"] = safe(lambda: d_voting(o.voting_type))
    if top:
        f["repr"] = rep(o, c)
    return f


def d_wsort(o, top, c="WastedSortTrack"):
    f = {k: field(o, c, k) for k in ("id", "epoch", "predicted_bbox", "observed_bbox", "scene_id", "length",
                                     "predicted_boxes", "observed_boxes")}
    if top:
        f["repr"] = rep(o, c)
    return f


def d_wvis(o, top):
    c = "WastedVisualSortTrack"
    f = d_wsort(o, False, c)
    f["observed_features"] = field(o, c, "observed_features")
    if top:
        f["repr"] = rep(o, c)
    return f


def d_box_state(o, top):
    c = "Universal2DBoxKalmanFilterState"
    return {"universal_bbox": method0(o, c, "universal_bbox"), "bbox": method0(o, c, "bbox")}


def d_point_state(o, top):
    c = "Point2DKalmanFilterState"
    return {"x": method0(o, c, "x"), "y": method0(o, c, "y")}


def d_repr_str(cls):
    def d(o, top):
        return {"repr": rep(o, cls), "str": st(o, cls)}
    return d


DUMPERS = {
    "Universal2DBox": d_ubox,
    "BoundingBox": d_bbox,
    "Polygon": d_poly,
    "SortTrack": d_track,
    "WastedSortTrack": d_wsort,
    "WastedVisualSortTrack": d_wvis,
    "Universal2DBoxKalmanFilterState": d_box_state,
    "Point2DKalmanFilterState": d_point_state,
    "PositionalMetricType": d_repr_str("PositionalMetricType"),
    "VisualSortMetricType": d_repr_str("VisualSortMetricType"),
    "VisualSortOptions": d_repr_str("VisualSortOptions"),
    "VisualSortObservation": d_repr_str("VisualSortObservation"),
    "VisualSortObservationSet": d_repr_str("VisualSortObservationSet"),
}


def canon(v, top=True):
    if v is None or isinstance(v, (bool, str)):
        return v
    if isinstance(v, int):
        return v
    if isinstance(v, float):
        return fbits(v)
    if isinstance(v, (list, tuple)):
        return [canon(x, top) for x in v]
    cls = type(v).__name__
    d = DUMPERS.get(cls)
    if d is not None:
        return {"cls": cls, "fields": d(v, top)}
    return {"cls": cls}


def resolve(table, v):
    if isinstance(v, dict):
        if "ref" in v:
            return table[v["ref"]]
        if "tuple" in v:
            return tuple(resolve(table, x) for x in v["tuple"])
        raise DriverError(f"unknown argument form {v!r}")
    if isinstance(v, list):
        return [resolve(table, x) for x in v]
    return v


def call_args(table, step):
    args = [resolve(table, a) for a in step.get("args", [])]
    kwargs = {k: resolve(table, a) for k, a in step.get("kwargs", {}).items()}
    return args, kwargs


def exec_step(table, step):
    """Returns (canonical result, object to bind or None). API exceptions propagate."""
    op = step.get("op")
    if op == "new":
        cls = step["cls"]
        COVERED.add(f"{cls}.__init__")
        args, kwargs = call_args(table, step)
        o = getattr(similari, cls)(*args, **kwargs)
        return canon(o), o
    if op == "static":
        cls, m = step["cls"], step["method"]
        COVERED.add(f"{cls}.{m}")
        args, kwargs = call_args(table, step)
        o = getattr(getattr(similari, cls), m)(*args, **kwargs)
        return canon(o), o
    if op == "func":
        name = step["name"]
        COVERED.add(name)
        args, kwargs = call_args(table, step)
        o = getattr(similari, name)(*args, **kwargs)
        return canon(o), o
    if op == "call":
        t = table[step["on"]]
        m = step["method"]
        COVERED.add(f"{type(t).__name__}.{m}")
        args, kwargs = call_args(table, step)
        o = getattr(t, m)(*args, **kwargs)
        return canon(o), o
    if op == "get":
        t = table[step["on"]]
        COVERED.add(f"{type(t).__name__}.{step['attr']}")
        return canon(getattr(t, step["attr"])), None
    if op == "set":
        t = table[step["on"]]
        COVERED.add(f"{type(t).__name__}.{step['attr']}=")
        setattr(t, step["attr"], resolve(table, step.get("value")))
        return None, None
    if op == "dump":
        return canon(table[step["on"]]), None
    if op == "repr":
        t = table[step["on"]]
        COVERED.add(f"{type(t).__name__}.__repr__")
        return repr(t), None
    if op == "str":
        t = table[step["on"]]
        COVERED.add(f"{type(t).__name__}.__str__")
        return str(t), None
    if op == "item":
        o = table[step["on"]][step.get("index", 0)]
        return canon(o), o
    if op == "collect":
        r = table[step["on"]]
        COVERED.add(f"{type(r).__name__}.get")
        got = [r.get() for _ in range(step.get("n", 0))]
        got.sort(key=lambda p: p[0])
        return [[s, canon(trks)] for s, trks in got], None
    if op == "wait_ready":
        r = table[step["on"]]
        COVERED.add(f"{type(r).__name__}.ready")
        t0 = time.monotonic()
        ready = r.ready()
        while not ready and time.monotonic() - t0 < step.get("timeout_ms", 1000) / 1000.0:
            time.sleep(0.002)
            ready = r.ready()
        return ready, None
    raise DriverError(f"unknown op {op!r}")


def run(scripts_path, out_path):
    dumps = json.dumps
    n_scripts = n_steps = 0
    with open(scripts_path) as src, open(out_path, "w") as out:
        for line in src:
            line = line.strip()
            if not line:
                continue
            script = json.loads(line)
            sid = script.get("id")
            table = {}
            for k, step in enumerate(script.get("steps", [])):
                try:
                    result, obj = exec_step(table, step)
                    if step.get("bind") and obj is not None:
                        table[step["bind"]] = obj
                except (KeyboardInterrupt, SystemExit):
                    raise
                except DriverError as e:
                    result = {"driver_error": str(e)}
                except BaseException:
                    result = ERR
                out.write(dumps({"script": sid, "step": k, "result": result}, sort_keys=True,
                                separators=(",", ":"), ensure_ascii=False))
                out.write("\n")
                n_steps += 1
            table.clear()
            n_scripts += 1
        out.write(dumps({"done": True, "scripts": n_scripts, "steps": n_steps, "covered": sorted(COVERED)},
                        sort_keys=True, separators=(",", ":")))
        out.write("\n")


def introspect(out_path):
    """Everything the module exposes: functions, and per class the constructor, the methods, the properties
    (getter, and setter where assigning works) and __repr__/__str__ where the binding defines them."""
    names = {}
    samples = {
        "BoundingBox": lambda: similari.BoundingBox(0.0, 0.0, 1.0, 1.0),
        "Universal2DBox": lambda: similari.Universal2DBox(0.0, 0.0, None, 1.0, 1.0),
    }
    for n in sorted(dir(similari)):
        if n.startswith("__"):
            continue
        o = getattr(similari, n)
        if isinstance(o, type):
            if o.__new__ is not object.__new__:
                try:
                    o()  # "No constructor defined" is a TypeError raised by PyO3's default tp_new
                    names[f"{n}.__init__"] = "constructor"
                except TypeError as e:
                    if "No constructor defined" not in str(e):
                        names[f"{n}.__init__"] = "constructor"
                except BaseException:
                    names[f"{n}.__init__"] = "constructor"
            if o.__repr__ is not object.__repr__:
                names[f"{n}.__repr__"] = "repr"
            if o.__str__ is not object.__str__:
                names[f"{n}.__str__"] = "str"
            for m in sorted(dir(o)):
                if m.startswith("__"):
                    continue
                a = o.__dict__.get(m, None)
                kind = type(a).__name__
                if kind == "getset_descriptor":
                    names[f"{n}.{m}"] = "getter"
                    if n in samples:
                        inst = samples[n]()
                        try:
                            setattr(inst, m, getattr(inst, m))
                            names[f"{n}.{m}="] = "setter"
                        except BaseException:
                            pass
                else:
                    names[f"{n}.{m}"] = "method"
        elif callable(o):
            names[n] = "function"
    with open(out_path, "w") as f:
        json.dump(names, f, indent=0, sort_keys=True)


if __name__ == "__main__":
    if len(sys.argv) == 3 and sys.argv[1] == "--introspect":
        introspect(sys.argv[2])
    elif len(sys.argv) == 3:
        run(sys.argv[1], sys.argv[2])
    else:
        sys.stderr.write(__doc__)
        sys.exit(2)
