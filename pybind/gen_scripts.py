#!/usr/bin/env python3
"""C18 script generator: exhaustive enumeration of API scripts over fixed small argument menus.

No random draws anywhere: the set of scripts is a function of the tier only. Every script is a JSON object
  {"id", "group", "steps": [...], optional "control", "focus", "defaults_of", "canon_ids"}
and every step carries "api": the Python-visible name it exercises (used to name a disagreement).

  control      id of the script that differs only by passing the omitted argument(s) explicitly
  focus        the key a disagreement of this script gets when its control script agrees
  defaults_of  class whose constructor is called with omitted arguments in this script
  canon_ids    track ids depend on the order in which the scenes of a batch are dispatched (hash order):
               the comparer renames ids per scene in order of appearance and ignores repr strings of tracks

usage: gen_scripts.py <quick|thorough> <out.jsonl>      (also importable: generate(tier) -> list)
"""
import itertools
import json
import os
import sys


def T(*xs):
    return {"tuple": list(xs)}


def R(name):
    return {"ref": name}


def new(cls, bind, *args, **kwargs):
    s = {"op": "new", "cls": cls, "api": f"{cls}.__init__", "args": list(args), "bind": bind}
    if kwargs:
        s["kwargs"] = kwargs
    return s


def static(cls, method, bind, *args, **kwargs):
    s = {"op": "static", "cls": cls, "method": method, "api": f"{cls}.{method}", "args": list(args)}
    if bind:
        s["bind"] = bind
    if kwargs:
        s["kwargs"] = kwargs
    return s


def func(name, bind, *args, **kwargs):
    s = {"op": "func", "name": name, "api": name, "args": list(args)}
    if bind:
        s["bind"] = bind
    if kwargs:
        s["kwargs"] = kwargs
    return s


def call(cls, on, method, *args, bind=None, unordered=False, **kwargs):
    s = {"op": "call", "on": on, "method": method, "api": f"{cls}.{method}", "args": list(args)}
    if bind:
        s["bind"] = bind
    if kwargs:
        s["kwargs"] = kwargs
    if unordered:
        s["unordered"] = True  # list returned in hash order: compared as sorted by (scene_id, id)
    return s


def get(cls, on, attr):
    return {"op": "get", "on": on, "attr": attr, "api": f"{cls}.{attr}"}


def setattr_(cls, on, attr, value):
    return {"op": "set", "on": on, "attr": attr, "value": value, "api": f"{cls}.{attr}="}


def dump(cls, on):
    return {"op": "dump", "on": on, "api": f"{cls}.__repr__"}


def repr_(cls, on):
    return {"op": "repr", "on": on, "api": f"{cls}.__repr__"}


def str_(cls, on):
    return {"op": "str", "on": on, "api": f"{cls}.__str__"}


def item(cls, on, index, bind):
    return {"op": "item", "on": on, "index": index, "bind": bind, "api": f"{cls}.__repr__"}


class Out:
    def __init__(self):
        self.scripts = []
        self.counters = {}

    def add(self, group, steps, **meta):
        n = self.counters.get(group, 0)
        self.counters[group] = n + 1
        sid = f"{group}-{n:05d}"
        # every object that was handed to a call as an ARGUMENT is dumped once more at the end of the script:
        # the wrapped Rust functions only read their arguments, so the Python layer must not write into them
        used = {}

        def refs(v):
            if isinstance(v, dict):
                if "ref" in v:
                    yield v["ref"]
                for x in v.get("tuple", []):
                    yield from refs(x)
            elif isinstance(v, list):
                for x in v:
                    yield from refs(x)

        for st in steps:
            if st.get("op") in ("new", "static", "func", "call"):
                for r in list(refs(st.get("args", []))) + list(refs(list(st.get("kwargs", {}).values()))):
                    used[r] = st.get("api", st.get("op"))
        steps = list(steps) + [{"op": "dump", "on": r, "api": f"{api}:argument-afterwards"} for r, api in used.items()
                               if not r.startswith("rq")]
        s = {"id": sid, "group": group, "steps": steps}
        s.update({k: v for k, v in meta.items() if v is not None})
        self.scripts.append(s)
        return sid


def words(letters, maxlen, minlen=0):
    for n in range(minlen, maxlen + 1):
        for w in itertools.product(letters, repeat=n):
            yield w


# ------------------------------------------------------------------------------------------------
# a) boxes and polygons
# ------------------------------------------------------------------------------------------------
U = "Universal2DBox"
B = "BoundingBox"
U_ATTRS = ["xc", "yc", "angle", "aspect", "height", "confidence"]
B_ATTRS = ["left", "top", "width", "height", "confidence"]

U_NEW = [(3.0, 4.0, None, 1.5, 5.0), (3.0, 4.0, 0.0, 1.5, 5.0), (-2.5, 7.25, 0.5, 0.8, 12.0),
         (100.0, 50.0, 3.5, 2.0, 0.5), (0.0, 0.0, -0.3, 1.0, 1.0)]
U_NWC = [(3.0, 4.0, None, 1.5, 5.0, 0.85), (3.0, 4.0, 0.0, 1.5, 5.0, 1.0), (-2.5, 7.25, 0.5, 0.8, 12.0, 0.0),
         (1.0, 2.0, 1.2, 0.7, 3.0, 0.3), (3.0, 4.0, None, 1.5, 5.0, 1.5)]          # last one: invalid confidence
U_LTWH = [(0.0, 0.0, 10.0, 20.0), (1.0, 2.0, 10.0, 15.0), (-5.5, 3.25, 2.0, 8.0), (100.0, 200.0, 0.5, 0.25)]
U_LTWHC = [(0.0, 0.0, 10.0, 20.0, 0.95), (1.0, 2.0, 10.0, 15.0, 0.0), (-5.5, 3.25, 2.0, 8.0, 1.0),
           (100.0, 200.0, 0.5, 0.25, 0.3), (0.0, 0.0, 10.0, 20.0, -0.1)]            # last one: invalid confidence
B_NEW = [(1.0, 2.0, 10.0, 15.0), (0.0, 0.0, 5.0, 10.0), (-3.5, 4.25, 2.0, 8.0), (10.3, 11.1, 2.9, 3.9),
         (0.0, 0.0, 0.0, 0.0)]
B_NWC = [(1.0, 2.0, 10.0, 15.0, 0.95), (0.0, 0.0, 5.0, 10.0, 0.0), (-3.5, 4.25, 2.0, 8.0, 1.0),
         (1.0, 2.0, 3.0, 4.0, 1.5)]                                                   # last one: invalid confidence

U_SET = {"xc": [1.5, -7.25], "yc": [0.0, 42.5], "angle": [None, 0.75], "aspect": [0.5, 2.5],
         "height": [3.0, 0.125], "confidence": [0.4, 1.5]}                              # 1.5: rejected
B_SET = {"left": [1.5, -7.25], "top": [0.0, 42.5], "width": [0.5, 20.0], "height": [3.0, 0.125],
         "confidence": [0.4, 1.5]}                                                      # 1.5: plain field, accepted


def u_ctors():
    kw5 = ["xc", "yc", "angle", "aspect", "height"]
    for a in U_NEW:
        yield new(U, "b", *a)
    yield new(U, "b", **dict(zip(kw5, U_NEW[2])))
    for a in U_NWC:
        yield static(U, "new_with_confidence", "b", *a)
    yield static(U, "new_with_confidence", "b", **dict(zip(kw5 + ["confidence"], U_NWC[0])))
    for a in U_LTWH:
        yield static(U, "ltwh", "b", *a)
    for a in U_LTWHC:
        yield static(U, "ltwh_with_confidence", "b", *a)


def b_ctors():
    kw4 = ["left", "top", "width", "height"]
    for a in B_NEW:
        yield new(B, "b", *a)
    yield new(B, "b", **dict(zip(kw4, B_NEW[0])))
    for a in B_NWC:
        yield static(B, "new_with_confidence", "b", *a)


def u_observe():
    """every getter and every non-mutating method of a universal box"""
    s = [get(U, "b", a) for a in U_ATTRS]
    s += [call(U, "b", "get_radius"), call(U, "b", "area"), repr_(U, "b"), str_(U, "b"),
          call(U, "b", "as_ltwh", bind="l"), call(U, "b", "get_vertices", bind="p"),
          call("Polygon", "p", "get_points"), repr_("Polygon", "p"), str_("Polygon", "p"), dump(U, "b")]
    return s


def u_mutators():
    m = []
    for a, vals in U_SET.items():
        for v in vals:
            m.append(setattr_(U, "b", a, v))
    m.append(call(U, "b", "rotate", 0.6))
    m.append(call(U, "b", "rotate", -1.25))
    m.append(call(U, "b", "rotate", angle=0.3))
    m.append(call(U, "b", "gen_vertices"))
    return m


def b_observe():
    s = [get(B, "b", a) for a in B_ATTRS]
    s += [repr_(B, "b"), str_(B, "b"), call(B, "b", "as_xyaah", bind="u"), call(U, "u", "as_ltwh"), dump(B, "b")]
    return s


def b_mutators():
    return [setattr_(B, "b", a, v) for a, vals in B_SET.items() for v in vals]


def group_a(out, tier):
    depth = 2 if tier == "thorough" else 1
    for c in u_ctors():
        out.add("a-ubox", [c] + u_observe())
        for w in words(u_mutators(), depth, 1):
            out.add("a-ubox", [c] + list(w) + [dump(U, "b"), call(U, "b", "as_ltwh"),
                                               call(U, "b", "get_vertices", bind="p"),
                                               call("Polygon", "p", "get_points")])
        if depth < 2:
            # the polygon cache: generate it, change the box in place, read the polygon again
            gen = call(U, "b", "gen_vertices")
            for m in u_mutators():
                out.add("a-ubox", [c, gen, m, dump(U, "b"), call(U, "b", "get_vertices", bind="p"),
                                   call("Polygon", "p", "get_points"), gen,
                                   call(U, "b", "get_vertices", bind="p2"), call("Polygon", "p2", "get_points")])
    for c in b_ctors():
        out.add("a-bbox", [c] + b_observe())
        for w in words(b_mutators(), depth, 1):
            out.add("a-bbox", [c] + list(w) + [dump(B, "b"), call(B, "b", "as_xyaah")])


# ------------------------------------------------------------------------------------------------
# b) nms, clipping, intersection area
# ------------------------------------------------------------------------------------------------
NMS_MENU = [
    static(U, "ltwh", "n0", 10.0, 11.0, 3.0, 3.8),
    static(U, "ltwh", "n1", 10.3, 11.1, 2.9, 3.9),
    static(U, "ltwh", "n2", 50.0, 50.0, 4.0, 4.0),
    new(U, "n3", 11.5, 13.0, 0.4, 0.8, 4.0),
    new(U, "n4", 11.0, 12.0, None, 1.0, 0.0),         # zero height: filtered out by nms
]
SCORE_PATTERNS = [[None, None, None], [0.9, 0.8, 0.7], [0.3, 0.6, 0.95], [None, 0.6, None]]
CLIP_MENU = [
    static(U, "ltwh", "c0", 0.0, 0.0, 5.0, 10.0),
    static(U, "ltwh", "c1", 0.0, 0.0, 10.0, 5.0),
    new(U, "c2", 2.5, 5.0, 0.5, 0.5, 10.0),
    new(U, "c3", 2.5, 5.0, 0.5, 1.0, 4.0),
    static(U, "ltwh", "c4", 100.0, 100.0, 5.0, 5.0),
    new(U, "c5", 2.5, 5.0, None, 0.2, 2.0),
]


def group_b(out, tier):
    idx = range(len(NMS_MENU))
    lists = [()] + [p for n in (1, 2, 3) for p in itertools.permutations(idx, n)]
    first = True
    for lst in lists:
        patterns = SCORE_PATTERNS if lst else [SCORE_PATTERNS[0]]
        for pat in patterns:
            for nms_t in (0.3, 0.7):
                # 5.0 lies above every score and above every box height (an unscored box is ranked by its height
                # but never removed by the score filter)
                for score_t in (None, 0.5, 5.0):
                    prelude = [NMS_MENU[i] for i in sorted(set(lst))]
                    dets = [T(R(f"n{i}"), pat[k]) for k, i in enumerate(lst)]
                    if first and lst:
                        f = func("nms", "r", dets, nms_threshold=nms_t, score_threshold=score_t)
                        first = False
                    else:
                        f = func("nms", "r", dets, nms_t, score_t)
                    steps = prelude + [f]
                    if lst:
                        steps += [item(U, "r", 0, "r0"), call(U, "r0", "as_ltwh")]
                    out.add("b-nms", steps)
    for i in range(len(CLIP_MENU)):
        for j in range(len(CLIP_MENU)):
            prelude = [CLIP_MENU[i]] + ([CLIP_MENU[j]] if j != i else [])
            out.add("b-clip", prelude + [
                func("sutherland_hodgman_clip", "p", R(f"c{i}"), R(f"c{j}")),
                call("Polygon", "p", "get_points"), repr_("Polygon", "p"), str_("Polygon", "p"),
                func("intersection_area", None, R(f"c{i}"), R(f"c{j}")),
            ])
    # cached vertices on the arguments must not change anything
    out.add("b-clip", [CLIP_MENU[2], CLIP_MENU[3], call(U, "c2", "gen_vertices"), call(U, "c3", "gen_vertices"),
                       call(U, "c2", "rotate", 1.0),
                       func("sutherland_hodgman_clip", "p", R("c2"), R("c3")),
                       func("intersection_area", None, subject=R("c2"), clipping=R("c3"))])
    out.add("b-version", [func("version", None)])


# ------------------------------------------------------------------------------------------------
# c) Kalman filters
# ------------------------------------------------------------------------------------------------
KF_CTORS = [
    # (name, args, kwargs, focus parameter or None, is control)
    ("explicit", (0.05, 0.00625), {}, None),
    ("noargs", (), {}, "*"),
    ("omit-velocity", (), {"position_weight": 0.05}, "velocity_weight"),
    ("omit-position", (), {"velocity_weight": 0.00625}, "position_weight"),
    ("custom", (0.1, 0.01), {}, None),
]
COSTS = [0.0, 3.5, 6.0, 11.0, 11.5, 150.0]


def kf_family(out, tier, cls, state_cls, inits, letters, group):
    """letters: dict name -> function(state_name, new_state_name) -> step"""
    maxlen = 3 if tier == "thorough" else 2
    for init_i, init in enumerate(inits):
        for w in words(sorted(letters), maxlen):
            control_id = None
            for cname, args, kwargs, focus in KF_CTORS:
                steps = [new(cls, "f", *args, **kwargs)] + init("f", "s0")
                cur = "s0"
                for k, letter in enumerate(w):
                    nxt = f"s{k + 1}"
                    st = letters[letter](cur, nxt)
                    steps += st
                    if any(s.get("bind") == nxt for s in st):
                        cur = nxt
                # every state handed to predict / update / distance is dumped once more at the end: the filters
                # read their arguments, they must not write into them
                bound_states = ["s0"] + [f"s{k + 1}" for k in range(len(w)) if any(s.get("bind") == f"s{k + 1}" for s in steps)]
                steps += [dump(state_cls, n) for n in bound_states]
                meta = {}
                if focus is not None:
                    meta = {"control": control_id, "defaults_of": cls,
                            "focus": f"{cls}.__init__/default:{focus}" if focus != "*" else f"{cls}.__init__/defaults"}
                sid = out.add(group, steps, **meta)
                if cname == "explicit":
                    control_id = sid


def group_c(out, tier):
    BK, BS = "Universal2DBoxKalmanFilter", "Universal2DBoxKalmanFilterState"
    PK, PS = "Point2DKalmanFilter", "Point2DKalmanFilterState"
    VK = "Vec2DKalmanFilter"
    m_boxes = [static(U, "ltwh", "m1", 0.2, 0.2, 5.1, 9.9), new(U, "m2", 1.0, 1.5, 0.1, 0.55, 10.5)]

    def box_init(box_step):
        def init(f, s):
            return m_boxes + [box_step, call(BK, f, "initiate", R("i"), bind=s)]
        return init

    box_letters = {
        "P": lambda s, n: [call(BK, "f", "predict", R(s), bind=n)],
        "U1": lambda s, n: [call(BK, "f", "update", R(s), R("m1"), bind=n)],
        "U2": lambda s, n: [call(BK, "f", "update", R(s), R("m2"), bind=n),
                            call(BS, n, "universal_bbox"), call(BS, n, "bbox")],
        "D1": lambda s, n: [call(BK, "f", "distance", R(s), R("m1"))],
    }
    kf_family(out, tier, BK, BS,
              [box_init(static(U, "ltwh", "i", 0.0, 0.0, 5.0, 10.0)), box_init(new(U, "i", 10.0, 20.0, 0.3, 0.6, 8.0))],
              box_letters, "c-boxkf")

    def point_init(x, y):
        def init(f, s):
            return [call(PK, f, "initiate", x, y, bind=s)]
        return init

    point_letters = {
        "P": lambda s, n: [call(PK, "f", "predict", R(s), bind=n)],
        "U1": lambda s, n: [call(PK, "f", "update", R(s), 1.2, 2.1, bind=n)],
        "U2": lambda s, n: [call(PK, "f", "update", R(s), 5.0, -1.0, bind=n), call(PS, n, "x"), call(PS, n, "y")],
        "D1": lambda s, n: [call(PK, "f", "distance", R(s), 1.2, 2.1)],
    }
    kf_family(out, tier, PK, PS, [point_init(1.0, 2.0), point_init(-3.5, 0.25)], point_letters, "c-pointkf")

    pts0 = [T(1.0, 2.0), T(-3.5, 0.25)]
    pts1 = [T(1.2, 2.1), T(-3.0, 0.5)]
    pts2 = [T(5.0, -1.0), T(0.0, 0.0)]

    def vec_init(f, s):
        return [call(VK, f, "initiate", pts0, bind=s)]

    vec_letters = {
        "P": lambda s, n: [call(VK, "f", "predict", R(s), bind=n)],
        "U1": lambda s, n: [call(VK, "f", "update", R(s), pts1, bind=n)],
        "U2": lambda s, n: [call(VK, "f", "update", R(s), pts2, bind=n)],
        "UX": lambda s, n: [call(VK, "f", "update", R(s), [T(1.0, 1.0)], bind=n)],   # length mismatch: rejected
        "D1": lambda s, n: [call(VK, "f", "distance", R(s), pts1)],
    }
    kf_family(out, tier, VK, PS, [vec_init], vec_letters, "c-veckf")

    for d in COSTS:
        for inv in (True, False):
            out.add("c-cost", [static(BK, "calculate_cost", None, d, inv)])
            out.add("c-cost", [static(PK, "calculate_cost", None, d, inv)])
            out.add("c-cost", [static(VK, "calculate_cost", None, [d], inv)])
    for inv in (True, False):
        out.add("c-cost", [static(VK, "calculate_cost", None, COSTS, inv)])
        out.add("c-cost", [static(VK, "calculate_cost", None, [], inv)])
    out.add("c-cost", [static(BK, "calculate_cost", None, distance=6.0, inverted=True)])


# ------------------------------------------------------------------------------------------------
# d) spatio-temporal constraints
# ------------------------------------------------------------------------------------------------
STC = "SpatioTemporalConstraints"
STC_TABLES = [
    [T(1, 0.5), T(2, 1.0), T(3, 2.0)],
    [T(3, 2.5), T(1, 0.75), T(7, 8.5)],
    [T(0, 0.25)],
]
STC_GAPS = [0, 1, 2, 3, 5, 8]
STC_DISTS = [0.0, 0.5, 0.6, 1.0, 2.2, 9.0]


def group_d(out, tier):
    for n in (0, 1, 2, 3):
        for seq in itertools.product(range(len(STC_TABLES)), repeat=n):
            steps = [new(STC, "c")]
            for i in seq:
                steps.append(call(STC, "c", "add_constraints", STC_TABLES[i]))
            for g in STC_GAPS:
                for d in STC_DISTS:
                    steps.append(call(STC, "c", "validate", g, d))
            out.add("d-constraints", steps)
    out.add("d-constraints", [new(STC, "c"), call(STC, "c", "add_constraints", [T(1, 0.0)]),
                              call(STC, "c", "validate", 1, 0.5)])
    out.add("d-constraints", [new(STC, "c"), call(STC, "c", "add_constraints", [T(1, 1.0), T(2, -1.0)]),
                              call(STC, "c", "validate", 1, 2.5), call(STC, "c", "validate", 2, 2.5)])
    out.add("d-constraints", [new(STC, "c"), call(STC, "c", "add_constraints", [T(-1, 1.0)]),
                              call(STC, "c", "validate", 0, 2.5)])
    out.add("d-constraints", [new(STC, "c"), call(STC, "c", "add_constraints", STC_TABLES[0]),
                              call(STC, "c", "validate", 1, -1.0), call(STC, "c", "validate", -1, 0.1),
                              call(STC, "c", "validate", epoch_delta=2, dist=0.9)])


# ------------------------------------------------------------------------------------------------
# shared detections for the trackers
# ------------------------------------------------------------------------------------------------
PM = "PositionalMetricType"
VM = "VisualSortMetricType"
OPT = "VisualSortOptions"
OBS = "VisualSortObservation"
OSET = "VisualSortObservationSet"

DET_BOXES = {
    "A": static(U, "ltwh", "A", 0.0, 0.0, 10.0, 20.0),
    "A2": static(U, "ltwh", "A2", 0.5, 0.5, 10.0, 20.0),
    "Bx": static(U, "ltwh", "Bx", 100.0, 100.0, 15.0, 15.0),
    "B2": static(U, "ltwh", "B2", 101.0, 100.5, 15.0, 15.0),
    "C": static(U, "new_with_confidence", "C", 50.0, 50.0, 0.5, 0.8, 12.0, 0.9),
    "E": static(U, "ltwh", "E", 200.0, 0.0, 2.0, 20.0),
    "E2": static(U, "ltwh", "E2", 201.5, 0.0, 2.0, 20.0),
    "D": static(U, "ltwh_with_confidence", "D", 300.0, 300.0, 10.0, 10.0, 0.01),
}
# detection lists for Sort / BatchSort: (box, custom object id)
SORT_LISTS = {
    "l1": [("A", None), ("Bx", 7)],
    "l2": [("A2", 11), ("B2", None)],
    "l3": [],
    "l4": [("A", 5), ("C", 3)],
    "l5": [("E", None)],
}
# observations for VisualSort / BatchVisualSort: (feature, quality, box, custom object id)
VIS_LISTS = {
    "l1": [([1.0, 0.0], 0.9, "A", None), ([0.0, 1.0], 0.8, "Bx", 7)],
    "l2": [([0.9, 0.1], 0.95, "A2", 11), (None, None, "B2", None)],
    "l3": [],
    "l4": [([1.0, 1.0], 0.7, "A", 5), ([0.5, 0.5], None, "C", 3)],
    "l5": [(None, None, "E", None)],
}


class Prelude:
    """creates each shared object once per script"""

    def __init__(self):
        self.steps = []
        self.have = set()

    def box(self, name):
        if name not in self.have:
            self.have.add(name)
            self.steps.append(DET_BOXES[name])
        return R(name)

    def sort_list(self, lname):
        return [T(self.box(b), cid) for b, cid in SORT_LISTS[lname]]

    def obs(self, lname, k):
        name = f"o_{lname}_{k}"
        if name not in self.have:
            self.have.add(name)
            feat, q, b, cid = VIS_LISTS[lname][k]
            self.steps.append(new(OBS, name, feat, q, self.box(b), cid))
        return R(name)

    def obs_set(self, lname):
        name = f"set_{lname}"
        if name not in self.have:
            refs = [self.obs(lname, k) for k in range(len(VIS_LISTS[lname]))]
            self.have.add(name)
            self.steps.append(new(OSET, name))
            for r in refs:
                self.steps.append(call(OSET, name, "add", r))
        return R(name)


# ------------------------------------------------------------------------------------------------
# e) option objects and metric types
# ------------------------------------------------------------------------------------------------
def opt_setters():
    """(label, prelude steps, setter step) for every setter x 2 values"""
    res = []

    def simple(name, vals):
        for v in vals:
            res.append((f"{name}={v}", [], call(OPT, "o", name, v)))

    simple("max_idle_epochs", [1, 7])
    simple("kept_history_length", [1, 4])
    simple("visual_min_votes", [2, 3])
    res.append(("visual_metric=euclidean(0.7)", [static(VM, "euclidean", "vm", 0.7)], call(OPT, "o", "visual_metric", R("vm"))))
    res.append(("visual_metric=cosine(0.5)", [static(VM, "cosine", "vm", 0.5)], call(OPT, "o", "visual_metric", R("vm"))))
    res.append(("stc=1", [new(STC, "stc"), call(STC, "stc", "add_constraints", [T(1, 0.5)])],
                call(OPT, "o", "spatio_temporal_constraints", R("stc"))))
    res.append(("stc=2", [new(STC, "stc"), call(STC, "stc", "add_constraints", [T(2, 1.5), T(5, 3.0)])],
                call(OPT, "o", "spatio_temporal_constraints", R("stc"))))
    res.append(("positional_metric=maha", [static(PM, "maha", "pm")], call(OPT, "o", "positional_metric", R("pm"))))
    res.append(("positional_metric=iou(0.6)", [static(PM, "iou", "pm", 0.6)], call(OPT, "o", "positional_metric", R("pm"))))
    simple("visual_minimal_track_length", [1, 2])
    simple("visual_minimal_area", [5.0, 250.0])
    simple("visual_minimal_quality_use", [0.45, 0.85])
    simple("positional_min_confidence", [0.13, 0.5])
    simple("visual_max_observations", [3, 8])
    simple("visual_minimal_quality_collect", [0.5, 0.92])
    simple("visual_minimal_own_area_percentage_use", [0.1, 0.6])
    simple("visual_minimal_own_area_percentage_collect", [0.2, 0.7])
    simple("kalman_position_weight", [0.1, 0.02])
    simple("kalman_velocity_weight", [0.01, 0.003])
    return res


def visual_history(pre, trk="t", cls="VisualSort"):
    """one fixed history on a VisualSort tracker; every record it produces is dumped"""
    return [
        call(cls, trk, "predict", pre.obs_set("l1")),
        call(cls, trk, "predict", pre.obs_set("l2")),
        call(cls, trk, "predict", pre.obs_set("l1")),
        call(cls, trk, "predict_with_scene", 3, pre.obs_set("l4")),
        call(cls, trk, "shard_stats"),
        call(cls, trk, "idle_tracks", unordered=True),
        call(cls, trk, "skip_epochs", 8),
        call(cls, trk, "wasted", unordered=True),
        call(cls, trk, "shard_stats"),
    ]


def uniq(steps):
    """drops repeated creations of the same binding (setter preludes reuse names)"""
    seen, res = set(), []
    for s in steps:
        key = json.dumps(s, sort_keys=True)
        if s.get("bind") and s["op"] in ("new", "static") and key in seen:
            continue
        seen.add(key)
        res.append(s)
    return res


def group_e(out, tier):
    setters = opt_setters()
    depth = 2 if tier == "thorough" else 1
    combos = [()] + [c for n in range(1, depth + 1) for c in itertools.product(range(len(setters)), repeat=n)]
    combos.append(tuple(range(0, len(setters), 2)))   # every setter once (first values)
    combos.append(tuple(range(1, len(setters), 2)))   # every setter once (second values)
    for combo in combos:
        pre = Prelude()
        steps = [new(OPT, "o"), repr_(OPT, "o")]
        for k, i in enumerate(combo):
            _, p, s = setters[i]
            # distinct names for metric / constraint objects of different setters in one script
            ren = {"vm": f"vm{k}", "pm": f"pm{k}", "stc": f"stc{k}"}
            def rn(x):
                if isinstance(x, dict):
                    if "ref" in x:
                        return {"ref": ren.get(x["ref"], x["ref"])}
                    return {kk: rn(vv) for kk, vv in x.items()}
                if isinstance(x, list):
                    return [rn(y) for y in x]
                return x
            for st in p + [s]:
                st = rn(json.loads(json.dumps(st)))
                if st.get("bind") in ren:
                    st["bind"] = ren[st["bind"]]
                if st.get("on") in ren:
                    st["on"] = ren[st["on"]]
                steps.append(st)
        steps += [repr_(OPT, "o"), str_(OPT, "o"), new("VisualSort", "t", 1, R("o"))]
        hist = visual_history(pre)
        out.add("e-options", steps + pre.steps + hist)
    # metric type objects
    out.add("e-metric", [static(PM, "maha", "m"), repr_(PM, "m"), str_(PM, "m")])
    for t in (0.3, 0.7, 0.999):
        out.add("e-metric", [static(PM, "iou", "m", t), repr_(PM, "m"), str_(PM, "m")])
    out.add("e-metric", [static(PM, "iou", "m", threshold=0.3), repr_(PM, "m")])
    for t in (0.7, 2.0, 0.0, -1.0):
        out.add("e-metric", [static(VM, "euclidean", "m", t), repr_(VM, "m"), str_(VM, "m")])
    for t in (0.5, -0.2, 1.0, 1.5):
        out.add("e-metric", [static(VM, "cosine", "m", t), repr_(VM, "m"), str_(VM, "m")])
    # observation objects
    for lname in ("l1", "l2", "l4"):
        pre = Prelude()
        s = pre.obs_set(lname)
        steps = pre.steps + [repr_(OSET, s["ref"]), str_(OSET, s["ref"])]
        for k in range(len(VIS_LISTS[lname])):
            steps += [repr_(OBS, f"o_{lname}_{k}"), str_(OBS, f"o_{lname}_{k}")]
        out.add("e-observation", steps)
    out.add("e-observation", [DET_BOXES["A"], new(OBS, "o", feature=[1.0, 2.0], feature_quality=0.5,
                                                  bounding_box=R("A"), custom_object_id=4), repr_(OBS, "o")])


# ------------------------------------------------------------------------------------------------
# f) trackers
# ------------------------------------------------------------------------------------------------
def sort_ctor_variants():
    """(label, prelude, ctor step, defaults_of)"""
    return [
        ("noargs", [], new("Sort", "t"), "Sort"),
        ("iou-1shard", [static(PM, "iou", "pm", 0.3)],
         new("Sort", "t", 1, 2, 1, R("pm"), 0.05, None, 0.05, 0.00625), None),
        ("maha-2shards-constraints",
         [static(PM, "maha", "pm"), new(STC, "stc"), call(STC, "stc", "add_constraints", [T(1, 1.0), T(2, 2.0)])],
         new("Sort", "t", shards=2, bbox_history=3, max_idle_epochs=2, method=R("pm"), min_confidence=0.1,
             spatio_temporal_constraints=R("stc")), "Sort"),      # the two Kalman weights are omitted
    ]


def simple_letters(cls, pre, vis):
    """alphabet of the simple trackers; vis: observation sets instead of detection lists"""
    arg = (lambda l: pre.obs_set(l)) if vis else (lambda l: pre.sort_list(l))
    idle_scene = "idle_tracks_with_scene_py" if vis else "idle_tracks_with_scene"
    return {
        "p1": lambda: [call(cls, "t", "predict", arg("l1"))],
        "p2": lambda: [call(cls, "t", "predict", arg("l2"))],
        "p3": lambda: [call(cls, "t", "predict", arg("l3"))],
        "p4": lambda: [call(cls, "t", "predict_with_scene", 3, arg("l4"))],
        "sk": lambda: [call(cls, "t", "skip_epochs", 3)],
        "sks": lambda: [call(cls, "t", "skip_epochs_for_scene", 3, 7)],
        # one epoch only: the tracks of scene 3 become idle (not wasted) while scene 0 has none
        "sk1": lambda: [call(cls, "t", "skip_epochs_for_scene", 3, 1)],
        "idle": lambda: [call(cls, "t", "idle_tracks", unordered=True)],
        "idles": lambda: [call(cls, "t", idle_scene, 3, unordered=True)],
        "w": lambda: [call(cls, "t", "wasted", unordered=True)],
        "cw": lambda: [call(cls, "t", "clear_wasted")],
        "ce": lambda: [call(cls, "t", "current_epoch")],
        "ces": lambda: [call(cls, "t", "current_epoch_with_scene", 3)],
        "st": lambda: [call(cls, "t", "shard_stats")],
    }


SUFFIX = ["st", "ce", "ces", "idle", "idles", "w", "st"]


def vis_opts_variants():
    return [
        ("default-opts", [new(OPT, "o")], new("VisualSort", "t", 1, R("o"))),
        ("custom-opts",
         [new(OPT, "o"), call(OPT, "o", "max_idle_epochs", 1), call(OPT, "o", "kept_history_length", 2),
          static(VM, "euclidean", "vm", 0.7), call(OPT, "o", "visual_metric", R("vm")),
          static(PM, "maha", "pm"), call(OPT, "o", "positional_metric", R("pm")),
          call(OPT, "o", "visual_minimal_track_length", 1), call(OPT, "o", "visual_max_observations", 3)],
         new("VisualSort", "t", shards=2, opts=R("o"))),
    ]


def batch_letters(cls, pre, vis, two_scenes):
    """alphabet of the batch trackers. A predict letter = build a request, predict, read the results."""
    counter = [0]
    req_cls = "VisualSortPredictionBatchRequest" if vis else "SortPredictionBatchRequest"
    RES = "PredictionBatchResult"

    def predict(scenes):
        def f():
            counter[0] += 1
            rq, rs = f"rq{counter[0]}", f"rs{counter[0]}"
            steps = [new(req_cls, rq)]
            for scene, lname in scenes:
                if vis:
                    for k in range(len(VIS_LISTS[lname])):
                        steps.append(call(req_cls, rq, "add", scene, pre.obs(lname, k)))
                else:
                    for b, cid in SORT_LISTS[lname]:
                        steps.append(call(req_cls, rq, "add", scene, pre.box(b), cid))
            n = len([1 for scene, lname in scenes if (VIS_LISTS if vis else SORT_LISTS)[lname]])
            steps += [call(cls, "t", "predict", R(rq), bind=rs), call(RES, rs, "batch_size"),
                      {"op": "collect", "on": rs, "n": n, "api": f"{RES}.get"},
                      call(RES, rs, "ready")]
            return steps
        return f

    letters = {
        "pb1": predict([(0, "l1")]),
        "pb2": predict([(0, "l2")]),
        "pbe": predict([]),
        "pb5": predict([(0, "l5")]),
        "sk": lambda: [call(cls, "t", "skip_epochs", 3)],
        "sks": lambda: [call(cls, "t", "skip_epochs_for_scene", 3, 7)],
        "idle": lambda: [call(cls, "t", "idle_tracks", 0, unordered=True)],
        "idles": lambda: [call(cls, "t", "idle_tracks", 3, unordered=True)],
        "w": lambda: [call(cls, "t", "wasted", unordered=True)],
        "cw": lambda: [call(cls, "t", "clear_wasted")],
        "ce": lambda: [call(cls, "t", "current_epoch")],
        "ces": lambda: [call(cls, "t", "current_epoch_with_scene", 3)],
        "st": lambda: [call(cls, "t", "shard_stats")],
    }
    if two_scenes:
        letters["pb3"] = predict([(0, "l1"), (3, "l4")])
        # one epoch only: the tracks of scene 3 become idle (not wasted) while scene 0 has none
        letters["sk1"] = lambda: [call(cls, "t", "skip_epochs_for_scene", 3, 1)]
    return letters


def tracker_words(out, group, maxlen, ctor_prelude, ctor, make_letters, suffix, meta, prefix=(), only=None):
    names = None
    pre0 = Prelude()
    names = sorted(make_letters(pre0))
    if only is not None:
        names = [n for n in names if n in only]
    for w in words(names, maxlen):
        pre = Prelude()
        letters = make_letters(pre)
        body = []
        for l in list(prefix) + list(w) + suffix:
            body += letters[l]()
        m = dict(meta)
        if any(l == "pb3" for l in w):
            m["canon_ids"] = True
        out.add(group, ctor_prelude + [ctor] + pre.steps + body, **m)


def group_f(out, tier):
    maxlen = 3 if tier == "thorough" else 2
    for label, p, ctor, dof in sort_ctor_variants():
        tracker_words(out, "f-sort", maxlen, p, ctor, lambda pre: simple_letters("Sort", pre, False), SUFFIX,
                      {"defaults_of": dof, "variant": label})
    for label, p, ctor in vis_opts_variants():
        tracker_words(out, "f-visualsort", maxlen, p, ctor, lambda pre: simple_letters("VisualSort", pre, True),
                      SUFFIX, {"variant": label})
    bsuffix = ["st", "ce", "ces", "idle", "idles", "w", "st"]
    # BatchSort() with no arguments: 4 voting threads, so only single-scene batches (deterministic ids)
    tracker_words(out, "f-batchsort", maxlen, [], new("BatchSort", "t"),
                  lambda pre: batch_letters("BatchSort", pre, False, False), bsuffix,
                  {"defaults_of": "BatchSort", "variant": "noargs"})
    tracker_words(out, "f-batchsort", maxlen, [static(PM, "iou", "pm", 0.3)],
                  new("BatchSort", "t", 1, 1, 2, 1, R("pm"), 0.05, None, 0.05, 0.00625),
                  lambda pre: batch_letters("BatchSort", pre, False, True), bsuffix, {"variant": "iou-1-1"})
    tracker_words(out, "f-batchvisualsort", maxlen, [new(OPT, "o")],
                  new("BatchVisualSort", "t", 1, 1, R("o")),
                  lambda pre: batch_letters("BatchVisualSort", pre, True, True), bsuffix,
                  {"variant": "default-opts"})
    vo = vis_opts_variants()[1]
    tracker_words(out, "f-batchvisualsort", maxlen, vo[1],
                  new("BatchVisualSort", "t", distance_shards=1, voting_shards=1, opts=R("o")),
                  lambda pre: batch_letters("BatchVisualSort", pre, True, True), bsuffix,
                  {"variant": "custom-opts"})

    # expiry by predict calls alone (no skip, no wasted() in between): the tracks of the first call expire while
    # the internal periodic collection has not run; then every word over {clear_wasted, wasted, shard_stats,
    # idle_tracks, predict}
    exp_only = ["cw", "w", "st", "idle", "p1", "pb1"]
    sv = sort_ctor_variants()[1]
    tracker_words(out, "f-sort", 2, sv[1], sv[2], lambda pre: simple_letters("Sort", pre, False), SUFFIX,
                  {"variant": "expiry-by-predict"}, prefix=["p1", "p3", "p3"], only=exp_only)
    vv = vis_opts_variants()[1]
    tracker_words(out, "f-visualsort", 2, vv[1], vv[2], lambda pre: simple_letters("VisualSort", pre, True), SUFFIX,
                  {"variant": "expiry-by-predict"}, prefix=["p1", "p3", "p3"], only=exp_only)
    tracker_words(out, "f-batchsort", 2, [static(PM, "iou", "pm", 0.3)],
                  new("BatchSort", "t", 1, 1, 2, 1, R("pm"), 0.05, None, 0.05, 0.00625),
                  lambda pre: batch_letters("BatchSort", pre, False, True), bsuffix, {"variant": "expiry-by-predict"},
                  prefix=["pb1", "pb5", "pb5"], only=exp_only)
    tracker_words(out, "f-batchvisualsort", 2, vo[1],
                  new("BatchVisualSort", "t", distance_shards=1, voting_shards=1, opts=R("o")),
                  lambda pre: batch_letters("BatchVisualSort", pre, True, True), bsuffix,
                  {"variant": "expiry-by-predict"}, prefix=["pb1", "pb5", "pb5"], only=exp_only)

    # result-object protocol: get() one by one, ready() observed by polling, request reused, prediction()
    RES = "PredictionBatchResult"
    pre = Prelude()
    steps = [new("BatchSort", "t", 1, 1, 2, 1, None, 0.05, None, 0.05, 0.00625), new("SortPredictionBatchRequest", "rq")]
    for b, cid in SORT_LISTS["l1"]:
        steps.append(call("SortPredictionBatchRequest", "rq", "add", 0, pre.box(b), cid))
    steps.append(call("SortPredictionBatchRequest", "rq", "add", 0, pre.box("C")))                      # default id
    steps.append(call("SortPredictionBatchRequest", "rq", "add", scene_id=0, bbox=pre.box("E"), custom_object_id=9))
    steps += [call("BatchSort", "t", "predict", R("rq"), bind="rs"),
              {"op": "wait_ready", "on": "rs", "timeout_ms": 5000, "api": f"{RES}.ready"},
              call(RES, "rs", "batch_size"), call(RES, "rs", "get"), call(RES, "rs", "ready"),
              # the same request object again: Python passes a copy to predict, the original is intact
              call("BatchSort", "t", "predict", batch=R("rq"), bind="rs2"),
              call(RES, "rs2", "batch_size"), call(RES, "rs2", "get"), call(RES, "rs2", "ready"),
              call("BatchSort", "t", "shard_stats"), call("BatchSort", "t", "current_epoch")]
    out.add("f-batchresult", pre.steps + steps)

    pre = Prelude()
    VR = "VisualSortPredictionBatchRequest"
    steps = [new(OPT, "o"), new("BatchVisualSort", "t", 1, 1, R("o")), new(VR, "rq")]
    for k in range(len(VIS_LISTS["l1"])):
        steps.append(call(VR, "rq", "add", 0, pre.obs("l1", k)))
    steps += [call("BatchVisualSort", "t", "predict", R("rq"), bind="rs"),
              {"op": "wait_ready", "on": "rs", "timeout_ms": 5000, "api": f"{RES}.ready"},
              call(RES, "rs", "batch_size"), call(RES, "rs", "get"), call(RES, "rs", "ready"),
              call(VR, "rq", "prediction", bind="p1"), call(RES, "p1", "batch_size"), call(RES, "p1", "ready"),
              call(VR, "rq", "prediction"),
              call("BatchVisualSort", "t", "shard_stats")]
    out.add("f-batchresult", pre.steps + steps)
    # different numbers of distance shards and voting threads: each lands in its own slot (one statistics entry
    # per distance shard)
    for ctor in (new("BatchVisualSort", "t", 2, 3, R("o")), new("BatchVisualSort", "t", voting_shards=2, distance_shards=3, opts=R("o"))):
        out.add("f-batchresult", pre.steps + [steps[0], ctor] + steps[2:])

    # the handle taken from the request before predict() is where the Rust API delivers the results
    pre = Prelude()
    steps = [new(OPT, "o"), new("BatchVisualSort", "t", 1, 1, R("o")), new(VR, "rq")]
    for k in range(len(VIS_LISTS["l1"])):
        steps.append(call(VR, "rq", "add", 0, pre.obs("l1", k)))
    steps += [call(VR, "rq", "prediction", bind="p1"), call(RES, "p1", "batch_size"),
              call("BatchVisualSort", "t", "predict", R("rq"), bind="rs"),
              {"op": "wait_ready", "on": "p1", "timeout_ms": 1500, "api": f"{VR}.prediction"}]
    out.add("f-batchresult", pre.steps + steps)

    # repr / str of single track records
    pre = Prelude()
    steps = [static(PM, "iou", "pm", 0.3), new("Sort", "t", 1, 3, 1, R("pm"), 0.05, None, 0.05, 0.00625),
             call("Sort", "t", "predict", pre.sort_list("l1"), bind="r"),
             item("SortTrack", "r", 0, "t0"), repr_("SortTrack", "t0"), str_("SortTrack", "t0"),
             call("Sort", "t", "predict", pre.sort_list("l2")),
             call("Sort", "t", "skip_epochs", 4), call("Sort", "t", "wasted", bind="w", unordered=True)]
    out.add("f-records", pre.steps + steps)
    pre = Prelude()
    steps = [static(PM, "iou", "pm", 0.3), new("Sort", "t", 1, 3, 1, R("pm"), 0.05, None, 0.05, 0.00625),
             call("Sort", "t", "predict", [T(pre.box("A"), 4)]),
             call("Sort", "t", "predict", [T(pre.box("A2"), 5)]),
             call("Sort", "t", "skip_epochs", 4), call("Sort", "t", "wasted", bind="w"),
             item("WastedSortTrack", "w", 0, "w0"), repr_("WastedSortTrack", "w0"), str_("WastedSortTrack", "w0")]
    out.add("f-records", pre.steps + steps)
    pre = Prelude()
    steps = [new(OPT, "o"), call(OPT, "o", "max_idle_epochs", 1), new("VisualSort", "t", 1, R("o")),
             new(OBS, "x1", [1.0, 0.0], 0.9, pre.box("A"), 4), new(OSET, "s1"), call(OSET, "s1", "add", R("x1")),
             new(OBS, "x2", None, None, pre.box("A2"), 5), new(OSET, "s2"), call(OSET, "s2", "add", R("x2")),
             call("VisualSort", "t", "predict", R("s1")), call("VisualSort", "t", "predict", observation_set=R("s2")),
             call("VisualSort", "t", "skip_epochs", 4), call("VisualSort", "t", "wasted", bind="w"),
             item("WastedVisualSortTrack", "w", 0, "w0"), repr_("WastedVisualSortTrack", "w0"),
             str_("WastedVisualSortTrack", "w0")]
    out.add("f-records", pre.steps + steps)


# ------------------------------------------------------------------------------------------------
# defaults: one probe history per constructor, each parameter omitted in turn
# ------------------------------------------------------------------------------------------------
def sort_probe(pre, cls, batch):
    """a history whose records depend on every constructor parameter"""
    l1 = [("A", None), ("E", 1), ("D", 2)]
    l2 = [("A2", None), ("E2", 1), ("D", 2)]
    if not batch:
        def p(l):
            return [call(cls, "t", "predict", [T(pre.box(b), c) for b, c in l])]
        idle = [call(cls, "t", "idle_tracks", unordered=True)]
    else:
        cnt = [0]

        def p(l):
            cnt[0] += 1
            rq, rs = f"rq{cnt[0]}", f"rs{cnt[0]}"
            s = [new("SortPredictionBatchRequest", rq)]
            for b, c in l:
                s.append(call("SortPredictionBatchRequest", rq, "add", 0, pre.box(b), c))
            s += [call(cls, "t", "predict", R(rq), bind=rs),
                  {"op": "collect", "on": rs, "n": 1, "api": "PredictionBatchResult.get"}]
            return s
        idle = [call(cls, "t", "idle_tracks", 0, unordered=True)]
    return (p(l1) + p(l2) + p(l2) + [call(cls, "t", "shard_stats")] + idle +
            [call(cls, "t", "skip_epochs", 2), call(cls, "t", "wasted", unordered=True),
             call(cls, "t", "skip_epochs", 3), call(cls, "t", "wasted", unordered=True),
             call(cls, "t", "skip_epochs", 1), call(cls, "t", "wasted", unordered=True),
             call(cls, "t", "current_epoch"), call(cls, "t", "shard_stats")])


def group_defaults(out, tier):
    for cls, batch in (("Sort", False), ("BatchSort", True)):
        shard_params = ["distance_shards", "voting_shards"] if batch else ["shards"]
        names = shard_params + ["bbox_history", "max_idle_epochs", "method", "min_confidence",
                                "spatio_temporal_constraints", "kalman_position_weight", "kalman_velocity_weight"]
        bases = {
            # the documented defaults, all passed explicitly
            "doc": dict(zip(names, ([4, 4] if batch else [4]) + [1, 5, R("pm_maha"), 0.05, None, 0.05, 0.00625])),
            # a configuration in which min_confidence decides an association (IoU 1.0 x 0.05 against 0.04)
            "alt": dict(zip(names, ([1, 1] if batch else [1]) + [3, 2, R("pm_iou"), 0.05, None, 0.1, 0.01])),
            # every numeric argument different from every other one: an argument that lands in a neighbour's slot
            # shows (the shard statistics have one entry per distance shard)
            "asym": dict(zip(names, ([2, 3] if batch else [3]) + [4, 6, R("pm_maha"), 0.07, None, 0.08, 0.009])),
        }
        metric_steps = [static(PM, "maha", "pm_maha"), static(PM, "iou", "pm_iou", 0.04)]
        for bname, base in bases.items():
            pre = Prelude()
            probe = sort_probe(pre, cls, batch)
            control = out.add("g-defaults", metric_steps + [new(cls, "t", **base)] + pre.steps + probe,
                              variant=f"{cls}:{bname}:explicit")
            if bname == "asym":
                out.add("g-defaults", metric_steps + [new(cls, "t", *[base[n] for n in names])] + pre.steps + probe,
                        variant=f"{cls}:{bname}:positional")
                continue
            for omit in names:
                kw = {k: v for k, v in base.items() if k != omit}
                if bname == "alt" and base[omit] != bases["doc"][omit] and omit != "method":
                    # omitting a non-default value changes the configuration: only meaningful against "doc"
                    continue
                if bname == "alt" and omit == "method":
                    continue
                out.add("g-defaults", metric_steps + [new(cls, "t", **kw)] + pre.steps + probe,
                        control=control, focus=f"{cls}.__init__/default:{omit}", defaults_of=cls,
                        variant=f"{cls}:{bname}:omit-{omit}")
            if bname == "doc":
                out.add("g-defaults", metric_steps + [new(cls, "t")] + pre.steps + probe,
                        control=control, focus=f"{cls}.__init__/defaults", defaults_of=cls,
                        variant=f"{cls}:noargs")
                # positional prefix forms: Sort(4), Sort(4, 1), ...
                vals = [base[n] for n in names]
                for k in range(1, len(names)):
                    out.add("g-defaults", metric_steps + [new(cls, "t", *vals[:k])] + pre.steps + probe,
                            control=control, focus=f"{cls}.__init__/defaults", defaults_of=cls,
                            variant=f"{cls}:positional-{k}")
    # SortPredictionBatchRequest.add(custom_object_id=None)
    pre = Prelude()
    RQ = "SortPredictionBatchRequest"
    tail = [call("BatchSort", "t", "predict", R("rq"), bind="rs"),
            {"op": "collect", "on": "rs", "n": 1, "api": "PredictionBatchResult.get"}]
    head = [new("BatchSort", "t", 1, 1, 1, 5, None, 0.05, None, 0.05, 0.00625), new(RQ, "rq")]
    c = out.add("g-defaults", head + [DET_BOXES["A"], call(RQ, "rq", "add", 0, R("A"), None)] + tail)
    out.add("g-defaults", head + [DET_BOXES["A"], call(RQ, "rq", "add", 0, R("A"))] + tail, control=c,
            focus=f"{RQ}.add/default:custom_object_id", defaults_of=RQ)
    # VisualSortOptions() against VisualSortOptions::default()
    out.add("g-defaults", [new(OPT, "o"), repr_(OPT, "o"), str_(OPT, "o")])


# ------------------------------------------------------------------------------------------------
# h) argument validation: values the Rust API rejects or accepts
# ------------------------------------------------------------------------------------------------
def group_validation(out, tier):
    probes = [
        ("max_idle_epochs", [0, -1]), ("kept_history_length", [0, -1]), ("visual_min_votes", [0, -1]),
        ("visual_minimal_track_length", [0, -1]), ("visual_max_observations", [0, -1]),
        ("visual_minimal_area", [-1.0]), ("visual_minimal_quality_use", [-1.0]),
        ("visual_minimal_quality_collect", [-1.0]), ("positional_min_confidence", [0.0, 1.5]),
        ("visual_minimal_own_area_percentage_use", [1.5, -0.5]),
        ("visual_minimal_own_area_percentage_collect", [1.5, -0.5]),
    ]
    for name, vals in probes:
        for v in vals:
            out.add("h-validation", [new(OPT, "o"), call(OPT, "o", name, v), repr_(OPT, "o")])
    out.add("h-validation", [static(PM, "iou", "m", 0.0)])
    out.add("h-validation", [static(PM, "iou", "m", 1.0)])
    out.add("h-validation", [static(PM, "iou", "m", 1.5), repr_(PM, "m")])
    for cls, extra in (("Sort", []), ("BatchSort", [])):
        head = [static(PM, "iou", "pm", 0.3)]
        ctor = (new(cls, "t", 1, 2, 1, R("pm"), 0.05, None, 0.05, 0.00625) if cls == "Sort" else
                new(cls, "t", 1, 1, 2, 1, R("pm"), 0.05, None, 0.05, 0.00625))
        for m, a in (("skip_epochs", [0]), ("skip_epochs", [-1]), ("skip_epochs_for_scene", [3, 0]),
                     ("skip_epochs_for_scene", [-1, 2]), ("current_epoch_with_scene", [-1])):
            out.add("h-validation", head + [ctor, call(cls, "t", m, *a), call(cls, "t", "current_epoch"),
                                            call(cls, "t", "current_epoch_with_scene", 3)])
    for cls in ("VisualSort", "BatchVisualSort"):
        ctor = new(cls, "t", 1, R("o")) if cls == "VisualSort" else new(cls, "t", 1, 1, R("o"))
        for m, a in (("skip_epochs", [0]), ("skip_epochs_for_scene", [3, 0]), ("current_epoch_with_scene", [-1])):
            out.add("h-validation", [new(OPT, "o"), ctor, call(cls, "t", m, *a), call(cls, "t", "current_epoch"),
                                     call(cls, "t", "current_epoch_with_scene", 3)])
    out.add("h-validation", [static(PM, "iou", "pm", 0.3), new("Sort", "t", 1, 0, 1, R("pm"), 0.05, None, 0.05, 0.00625)])
    out.add("h-validation", [static(PM, "iou", "pm", 0.3), new("Sort", "t", -1, 1, 1, R("pm"), 0.05, None, 0.05, 0.00625)])
    out.add("h-validation", [new(OPT, "o"), new("VisualSort", "t", -1, R("o"))])
    # wrong argument shapes are rejected by both sides
    out.add("h-validation", [DET_BOXES["A"], static(PM, "iou", "pm", 0.3),
                             new("Sort", "t", 1, 1, 1, R("pm"), 0.05, None, 0.05, 0.00625),
                             call("Sort", "t", "predict", [[R("A"), None]]),        # list instead of tuple
                             call("Sort", "t", "predict", [T(R("A"))]),             # 1-tuple
                             call("Sort", "t", "predict", [T(R("pm"), None)]),      # not a box
                             call("Sort", "t", "current_epoch")])
    out.add("h-validation", [new(B, "b", 1.0, 2.0, 3.0), new(B, "b", 1.0, 2.0, 3.0, 4.0, 5.0),
                             new(U, "u", 1.0, 2.0, 3.0, 4.0), new(U, "u", 1.0, 2.0, None, 1.0, 1.0, nonsense=1)])


def group_rejected_calls(out, tier):
    """A setter call that BOTH layers reject (a negative number where a count is expected: the binding refuses to
    convert it, the Rust API cannot even be handed one) leaves the options object as it was: what was configured
    before is still there, for repr() and for a tracker built from the object afterwards."""
    counts = ["max_idle_epochs", "kept_history_length", "visual_minimal_track_length",
              "visual_max_observations"]
    for bad in counts:
        steps = [new(OPT, "o"), call(OPT, "o", "max_idle_epochs", 3), call(OPT, "o", "kept_history_length", 4),
                 call(OPT, "o", "visual_minimal_area", 2.5), call(OPT, "o", "positional_min_confidence", 0.2),
                 call(OPT, "o", bad, -1), repr_(OPT, "o"),
                 call(OPT, "o", "visual_max_observations", 5), repr_(OPT, "o"),
                 new("VisualSort", "t", 1, R("o")), call("VisualSort", "t", "current_epoch"),
                 call("VisualSort", "t", "shard_stats")]
        out.add("h-rejected", steps, variant=f"{bad}(-1)")


def generate(tier):
    out = Out()
    group_a(out, tier)
    group_b(out, tier)
    group_c(out, tier)
    group_d(out, tier)
    group_e(out, tier)
    group_f(out, tier)
    group_defaults(out, tier)
    group_rejected_calls(out, tier)
    # Out-of-domain arguments (negative counts, thresholds outside (0,1), n = 0 ...) are NOT part of the
    # enumeration: the Python layer validates its signed / untyped arguments differently from the Rust
    # builders on purpose, and C18 speaks about the values returned for the same *valid* inputs. The probes
    # remain available for exploration with C18_VALIDATION=1 (they then show up as disagreements).
    if os.environ.get("C18_VALIDATION") == "1":
        group_validation(out, tier)
    for s in out.scripts:
        s["steps"] = uniq(s["steps"])
    return out.scripts


RULE = (
    "Exhaustive enumeration, no random draws: the scripts are all words up to a fixed length over fixed small menus. "
    "a) every constructor / static constructor of Universal2DBox and BoundingBox x 4-6 argument tuples (keyword form "
    "included), followed by every getter and non-mutating method, and by every word of mutators (each setter x 2 values, "
    "rotate x 3, gen_vertices) of length 1 (quick) or <= 2 (thorough) followed by a full dump; b) nms over every ordered "
    "list of <= 3 distinct boxes of a 5-box menu x 4 score patterns x 2 nms thresholds x score_threshold {None, 0.5, 5.0 (above every score and every box height)}; "
    "sutherland_hodgman_clip and intersection_area over all 36 ordered pairs of a 6-box menu; c) the three Kalman filters: "
    "every word of length <= 2 (quick) / <= 3 (thorough) over {predict, update(m1), update(m2), distance(m1)} after initiate, "
    "x 5 constructor forms (no arguments, each weight omitted, explicit defaults, custom) x the initial values; "
    "calculate_cost over 6 distances x {True, False}; d) every sequence of <= 3 add_constraints calls over 3 tables, then "
    "validate on a 6 x 6 probe grid; e) every word of VisualSortOptions setters (16 setters x 2 values) of length 1 (quick) "
    "/ <= 2 (thorough), repr/str of the options, then a VisualSort built from them runs one fixed history with every record "
    "dumped; metric type and observation objects; f) Sort, VisualSort, BatchSort, BatchVisualSort: every word of length "
    "<= 2 (quick) / <= 3 (thorough) over {predict with 4 detection lists (one through predict_with_scene / a two-scene "
    "batch), skip_epochs, skip_epochs_for_scene, idle tracks of scene 0 and 3, wasted, clear_wasted, current_epoch, "
    "current_epoch_with_scene, shard_stats} followed by a fixed observation suffix, for 2-3 constructor forms each; "
    "g) one probe history per constructor with each defaulted parameter omitted in turn (paired with a control script "
    "that passes the documented default explicitly). Arguments outside the documented domains are not enumerated. "
    "Every step is executed through the Python module and through the Rust driver and the canonical outputs are compared. "
    "A script is non-trivial when it has >= 2 steps; distinct = distinct step lists."
)

if __name__ == "__main__":
    if len(sys.argv) != 3 or sys.argv[1] not in ("quick", "thorough"):
        sys.stderr.write(__doc__)
        sys.exit(2)
    scripts = generate(sys.argv[1])
    with open(sys.argv[2], "w") as f:
        for s in scripts:
            f.write(json.dumps(s, separators=(",", ":")))
            f.write("\n")
    print(len(scripts))
