#!/bin/bash
# extra offline set-up steps (python-facing build for C18 is done lazily by its check)
exit 0
