#!/bin/bash
# extra offline set-up: pre-build the two cfg-off builds of C18 (Python extension + Rust reference driver)
# so that the first quick run is incremental. A failure here is not fatal: the check reports it itself.
C18_BUILD_ONLY=1 /verif/pybind/run_c18.sh quick || true
exit 0
