#!/bin/bash
# tools/verify_seeded.sh <OUT-dir with patch.diff + demo.rs> [demo test name]
# Independent confirmation of a seeded change in a scratch worktree (/tmp/vfy, shared target dir):
#  (1) demo passes on the unchanged tree, (2) demo fails with the patch, (3) the 81-test suite passes with the patch.
set -u
OUT="$1"; NAME="${2:-seeded_demo}"
export CARGO_TARGET_DIR=/tmp/vfy_target CARGO_NET_OFFLINE=true RUST_BACKTRACE=0
if [ ! -d /tmp/vfy ]; then git -C /repo worktree add --detach /tmp/vfy HEAD >/dev/null 2>&1 || exit 2; fi
cd /tmp/vfy || exit 2
git checkout -q --detach "$(git -C /repo rev-parse HEAD)" && git checkout -q -- . && git clean -fdq
mkdir -p tests && cp "$OUT/demo.rs" "tests/$NAME.rs"
echo "--- demo on the unchanged tree"
cargo test --offline --test "$NAME" 2>&1 | grep -E "^test result|^error|panicked|FAILED|failed" | head -6
git apply "$OUT/patch.diff" || { echo "patch does not apply"; exit 2; }
echo "--- demo with the patch"
timeout -k 5 400 cargo test --offline --test "$NAME" > /tmp/vfy_demo_patched.log 2>&1 || echo "(demo with the patch: non-zero exit or killed after 400 s)"
grep -E "^test result" /tmp/vfy_demo_patched.log | head -3
grep -E "^error|panicked|FAILED|failed" /tmp/vfy_demo_patched.log | head -6
rm -f "tests/$NAME.rs"
echo "--- suite with the patch"
cargo nextest run --workspace --no-fail-fast --offline 2>&1 | grep -E "Summary|FAIL" | head -5
echo "--- builds without default features"
cargo build --offline --no-default-features --lib 2>&1 | tail -1
git checkout -q -- . && git clean -fdq
