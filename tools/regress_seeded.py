#!/usr/bin/env python3
"""tools/regress_seeded.py [--workers N] [--only <substring>] [--out DIR]

Regression of the checks against every kept seeded change (/verif/seeded/*/patch.diff): each change is applied in
a scratch worktree of /repo (never in /repo itself), the quick tier of the check of its property is run from a
scratch copy of /verif whose engine depends on that worktree, and the verdict is recorded. N workers, each with
its own worktree / copy / target directory under /tmp/reg/w<k>. Nothing is committed anywhere.
Output: <out>/results.jsonl and a summary; exit 1 if some change is no longer reported."""
import glob, json, os, re, subprocess, sys, threading

REPO, ROOT = "/repo", "/tmp/reg"


def sh(cmd, cwd=None, env=None, timeout=1800):
    p = subprocess.Popen(cmd, shell=True, cwd=cwd, env=env, stdout=subprocess.PIPE, stderr=subprocess.STDOUT, text=True, start_new_session=True)
    try:
        out, _ = p.communicate(timeout=timeout)
        return p.returncode, out
    except subprocess.TimeoutExpired:
        import signal
        try:
            os.killpg(p.pid, signal.SIGKILL)
        except ProcessLookupError:
            pass
        out, _ = p.communicate()
        return 124, (out or "") + "\nTIMEOUT"


def setup(k):
    base = f"{ROOT}/w{k}"
    wt, vf, out = base + "/wt", base + "/verif", base + "/out"
    os.makedirs(base, exist_ok=True)
    if not os.path.isdir(wt):
        sh(f"git -C {REPO} worktree add --detach {wt} HEAD")
    head = sh(f"git -C {REPO} rev-parse HEAD")[1].strip()
    sh(f"git checkout -q --detach {head} && git checkout -q -- . && git clean -fdq", cwd=wt)
    sh(f"rm -rf {vf}/engine/src {vf}/check {vf}/pybind; mkdir -p {vf}/engine {out} && cp -r /verif/check /verif/known_findings.json {vf}/ && cp -r /verif/engine/src /verif/engine/Cargo.toml /verif/engine/Cargo.lock /verif/engine/.cargo {vf}/engine/ && cp /verif/known_findings.json {out}/ && mkdir -p {vf}/pybind && cp -r /verif/pybind/*.py /verif/pybind/*.sh /verif/pybind/pydrv {vf}/pybind/ && rm -rf {vf}/pybind/pydrv/target")
    sh(f"sed -i 's#path = \"/repo\"#path = \"{wt}\"#' {vf}/engine/Cargo.toml && sed -i 's#/verif/target#{vf}/target#' {vf}/engine/.cargo/config.toml")
    return wt, vf, out


def worker(k, items, results, lock, resf):
    wt, vf, out = setup(k)
    env = dict(os.environ, VERIF_DIR=out, C18_REPO=wt, CARGO_NET_OFFLINE="true", RUST_BACKTRACE="0")
    for sid, prop, patch in items:
        sh("git checkout -q -- . && git clean -fdq", cwd=wt)
        rc, o = sh(f"git apply {patch}", cwd=wt)
        if rc != 0:
            rec = {"seeded": sid, "property": prop, "status": "patch-does-not-apply", "detail": o[-300:]}
        else:
            rc, o = sh(f"./check {prop} quick 2>/dev/null", cwd=vf, env=env)
            keys = " ".join(re.findall(r"^  key=(\S+)", o, re.M))[:300]
            rec = {"seeded": sid, "property": prop, "rc": rc, "keys": keys, "status": "reported" if rc == 1 else ("machinery-error" if rc not in (0, 1) else "NOT-REPORTED")}
            if rc not in (0, 1):
                rec["detail"] = o[-400:]
        with lock:
            results.append(rec)
            with open(resf, "a") as fh:
                fh.write(json.dumps(rec) + "\n")
            print(f"w{k} {sid} -> {rec['status']} {rec.get('keys','')[:100]}", flush=True)
    sh("git checkout -q -- . && git clean -fdq", cwd=wt)


def main():
    n, only, out = 3, None, ROOT + "/out"
    a = sys.argv[1:]
    while a:
        x = a.pop(0)
        if x == "--workers":
            n = int(a.pop(0))
        elif x == "--only":
            only = a.pop(0)
        elif x == "--out":
            out = a.pop(0)
    os.makedirs(out, exist_ok=True)
    resf = out + "/results.jsonl"
    done = set()
    if os.path.exists(resf):
        for l in open(resf):
            done.add(json.loads(l)["seeded"])
    items = []
    for d in sorted(glob.glob("/verif/seeded/*/")):
        sid = os.path.basename(d.rstrip("/"))
        if sid in done or (only and only not in sid):
            continue
        meta = json.load(open(d + "meta.json"))
        if meta.get("not_detected"):
            # kept for the record: a change no check reports (reason in the meta file and in DESIGN.md)
            print(f"{sid}: recorded as not detected - skipped", flush=True)
            continue
        prop = meta.get("property", sid[:3])
        items.append((sid, prop, d + "patch.diff"))
    print(f"{len(items)} seeded changes, {n} workers", flush=True)
    results, lock = [], threading.Lock()
    ts = [threading.Thread(target=worker, args=(k, items[k::n], results, lock, resf)) for k in range(n)]
    for t in ts:
        t.start()
    for t in ts:
        t.join()
    bad = [r for r in results if r["status"] != "reported"]
    print(f"reported {len(results) - len(bad)} / {len(results)}")
    for r in bad:
        print("  ", r["seeded"], r["status"], r.get("detail", "")[:200])
    sys.exit(1 if bad else 0)


main()
