NB = "check not built yet in this round; planned per DESIGN.md section 7 (model checking applies)"
prop("C01", True, "A",
     "exhaustive enumeration of all call histories up to depth 3 (quick) / 4 (thorough) over a 19-symbol alphabet (2 scenes x 9 detection lists + skip) on the real Sort / BatchSort / VisualSort / BatchVisualSort, 32+ configurations, with a per-call invariant monitor and a reference model of epochs / issued ids / lengths",
     "Every history of the bounded space is executed on a fresh real tracker (inside the shuttle runtime under the default schedule); each call is checked for one record per detection in order, echoed box / custom id / scene, scene epoch, distinct ids within the call, never-reissued ids, length bookkeeping, and agreement of the record with the stored track.",
     "Trusted: the monitor's bookkeeping model (engine/src/props/c01.rs). Sequential use only (schedules: C05/C06). Detection lists off the menu and deeper histories are not covered.",
     "7/C01")
prop("C02", True, "A+C",
     '(a) exhaustive enumeration of complete weight-matrix grids (<= 3x3 over 7 values straddling the threshold, all arrival orders for <= 2x2, permutation / greedy-trap families to 8x8) on the real SortVoting against an exact DP optimum; (b) exhaustive enumeration of all relative-motion words for approaching / crossing / jumping objects on the real trackers with gate, weights and the optimum re-derived in f64 from the observable store before every call',
     "Every matrix of the finite grids and every word of the bounded motion alphabet is executed on the implementation; the assignment's total must equal the brute-force optimum in the implementation's own micro-units (a) / within a 1e-3 margin (b), and no ungated, expired or out-of-reach pair may be continued. The number of calls where row-wise greedy differs from the optimum is reported as vacuity guard.",
     "Trusted: reference clipper, own Mahalanobis, brute-force assignment (engine/src/props/assoc.rs, hung.rs). Matrices above 3x3 only along enumerated families (the statement's 'randomly up to 8x8' is replaced by them). Near-ties are accepted either way and counted.",
     "7/C02")
prop("C03", True, "A",
     "exhaustive enumeration of all operation histories (predict incl. empty, skip, wasted, clear_wasted, set_auto_waste; idle / epochs / shard statistics / both store dumps observed after every step) up to depth 4 (5 thorough) on the real trackers against a reference model of track places, run in lock-step on three instances with collection period 100 / 0 / 1 (differential oracle)",
     "Every history of the bounded space is executed on three real tracker instances; each is compared with the model (continuation of unexpired tracks only, exact wasted set delivered once, idle set, epochs, conservation through the shard statistics, every held track in exactly one store) and the three transcripts must be identical.",
     "Trusted: the reference model (engine/src/props/c03.rs). Identical / disjoint boxes make association unambiguous. Sequential use under the default schedule.",
     "7/C03")
prop("C04", True, "A",
     "exhaustive enumeration of all multi-scene call histories up to depth 4 (5 thorough) over 3 scenes x 7 tie-free detection lists on the real trackers (plus multi-scene batches and an expiry family with collection period 1/2/3), with a differential oracle: interleaved run versus a fresh tracker fed each scene's projection",
     'Every history of the bounded space is executed interleaved and per scene on real trackers (4 kinds x 2 metrics); per scene the records must be bit-identical up to an incrementally built id bijection and no track id may appear in two scenes.',
     "Trusted: nothing beyond the harness (no hand-written expectation). Tie-free inputs only; sequential use under the default schedule; scene symmetry is used to fix the first call's scene.",
     "7/C04")
prop("C05", True, "A+B",
     '(1) exhaustive enumeration of call histories for shard counts 2..8 against the 1-shard transcript; (2) stateless exhaustive exploration of all interleavings of the real store workers and the caller at command granularity during each call (all schedules for 2 shards, preemption bound 2/3 for 3 shards, plus a one-deviation fine tier at every synchronisation operation) under a controlled scheduler',
     'Records (ids included) and the canonical store dump after every call must equal the 1-shard default-schedule reference in every explored schedule; windows (one call each) are joined by that checked state equality; the number of distinct worker orders is reported as vacuity guard.',
     'Trusted: shuttle facade / channel shim (hooks H1-H3). Preemptions inside lock-protected sections beyond the fine tier are not explored; more than 3 shards only under the default schedule.',
     "7/C05")
prop("C06", True, "B",
     "stateless bounded-exhaustive exploration of all interleavings of the real batch predict loop, store workers, voting threads and result consumer under a controlled scheduler (shuttle runtime, own explorer with prefix replay): preemption-bounded for the 1x1 configuration, delay-bounded (every departure from the deterministic default schedule counts) elsewhere, bounds iterated 0,1,2,3..; plus a fine tier in which every synchronisation operation is a decision point (two voting threads, two batches of two scenes, deviation bound 1 complete quick / up to 4 thorough); deadlocks reported by the runtime",
     "Every schedule within the completed bound is executed on the real BatchSort / BatchVisualSort for 3-4 worker configurations x batch sequences x two consumer disciplines; each must deliver one result per submitted scene with one record per detection in order, equal per scene to the simple tracker up to an id bijection, and terminate (submission, retrieval, drop). A discipline that violates the proviso is shown to deadlock (built-in detection demo).",
     "Trusted: shuttle facade / channel shim (hooks H1-H3, H5 fixed-key hasher for the dispatch order). The evidence reports the largest bound completed per scenario; deeper bounds are cut by the wall cap. No separate protocol model for more workers / scenes than explored directly.",
     "7/C06")
prop("C07", True, "A+C",
     "exhaustive enumeration of all step words (predict / update with 6 kinds of measurement, incl. angle-less measurements on rotated tracks) up to a depth and of all periodic words of length <= 4 unrolled to 300 steps on the real filters, each step compared with an f64 textbook step from the implementation's own pre-state; complete f32 bit-pattern sweep of the cost conversions",
     "Bounded exhaustive search over filter histories (depth 5 quick / 7 thorough, 36+9 configurations) with a per-step reference, so no drift accumulates in the oracle; the cost functions are unary f32 functions and are checked on every non-negative bit pattern in the thorough tier.",
     "Trusted: the f64 reference recurrence in engine/src/props/c07.rs and the H4 accessor. Measurements follow a filter-independent object trajectory with heights within [h0/4, 4*h0]; states whose predicted height collapses to ~0 (noise model degenerates) are outside the explored space.",
     "7/C07")
prop("C08", True, "C",
     'exhaustive enumeration of complete box-pair grids (centre lattice x sizes x angle menu for both boxes, degenerate families, far-from-origin copies) on the real intersection / IoU / too_far code against an independent f64 convex clipper',
     'Every pair of the stated finite product (2.3M quick, 87M thorough incl. deep invariance checks) is executed; area, range, symmetry, identity, absent-iff-disjoint, rigid-motion invariance and closed-form agreement are asserted with decisions only outside a 1e-6 margin. Right level: a universally quantified statement about a pure function of two boxes.',
     "Trusted: engine/src/geom.rs reference clipper (computed relative to the first box's centre). Boxes off the lattice / menu are not covered.",
     "7/C08")
prop("C09", True, "A+B",
     'explicit-state breadth-first search over store operation sequences (55-symbol alphabet, ids {1,2,3}, classes {0,1}, shard counts 1..5) with exact state de-duplication, every transition executed on the real TrackStore in lock-step with a BTreeMap reference model; plus exhaustive schedule exploration of the non-blocking merge at command granularity and with every synchronisation operation as a decision point (deviation bound 2 quick / 4 thorough)',
     'All operation sequences up to depth 3 (quick) / 4 (thorough) from every reachable distinct state are executed on the implementation and compared with the model on return value, notifications, shard statistics and the contents of every shard; the non-blocking merge is run under every command-level schedule and its observations must be explained by one linearisation point.',
     'Trusted: the reference model (engine/src/props/tmodel.rs, c09.rs) and the shuttle facade (hooks H1/H2). Sequential part runs under the deterministic default schedule. Histories deeper than the bound are not covered.',
     "7/C09")
prop("C10", True, "B",
     'stateless exhaustive exploration of all thread interleavings at command granularity (plus a fine tier: every synchronisation operation a decision point, two (thorough: three) departures from the default schedule) of the real store workers and the caller under a controlled scheduler (shuttle runtime, own DFS explorer with prefix replay), result multiset compared with a reference cartesian product',
     'Every schedule of every scenario (store contents x candidate batch x only_baked x consumption through all() / into_iter() x fresh store / after an abandoned or half-read earlier query x shards 1..2 quick / 1..3 thorough) is executed on the real code; the oracle demands the reference multiset, the error count and an unchanged store in every one, and counts distinct arrival orders as vacuity guard.',
     "Trusted: shuttle facade and channel shim (src/verif.rs), schedule-point placement (hook H3). Interleavings at synchronisation-operation granularity beyond the fine tier's deviation bound are not explored.",
     "7/C10")
prop("C11", True, "A",
     'exhaustive fault enumeration: every operation x track shape x class list x history flag x every fault position of the user callbacks, executed on the real Track / TrackStore against a transactional reference model',
     'The complete finite product (10k cases quick, more shard counts thorough) is executed; on Err the track/store must equal its pre-image with no notification, on Ok the model state with exactly one notification and the stated history rule.',
     'Trusted: the reference model and the harness callbacks (mutate-then-fail, so a missing rollback is visible). Metric state is read through a muted probe on a clone.',
     "7/C11")
prop("C12", True, "A",
     "exhaustive enumeration of all call histories up to depth 4 over a 13-list detection alphabet on the real VisualSort (and BatchVisualSort on a sub-grid) for an option grid (16-point covering subset quick, all 512 combinations thorough; plus single-threshold own-area and low-cosine-threshold configurations); every decision re-derived independently from the observable galleries of the pre-call store",
     "Every history of the bounded space is executed; per call the oracle recomputes usable features, collected counts, in-threshold votes, vote weights, contests and the positional fallback (own f64 feature distances, own clipper / Mahalanobis, brute-force assignment) and checks: visual attachments only with a qualifying claim and never against a heavier claimant, the heaviest claimant gets the track, losers are not attached to the contested track, claim-less detections are associated positionally and optimally among tracks not taken by appearance, new tracks are not reported visual.",
     "Trusted: the re-derivation in engine/src/props/c12.rs and assoc.rs. Decisions within 1e-3 of a threshold / weights within 1e-4 of each other are accepted either way and counted. Only what the statement fixes is demanded (e.g. the fate of a contest loser beyond 'not on the contested track' is not).",
     "7/C12")
prop("C13", True, "A",
     'exhaustive enumeration of all quality words up to length 6 (8 thorough) and all periodic words of length <= 4 unrolled to 60 (300) updates on the real VisualSort / BatchVisualSort (galleries) and all four trackers (histories), for visual_max_observations 1..4 (1..8) x history lengths, with the gallery and the histories read from the live store after every update',
     'Every word of the bounded alphabet is executed; after each update: entries and stored features <= max and equal to the reported count, newcomer stored iff collectable, at most one eviction and only of a lowest-quality feature and only at capacity, nothing else changes, histories = last min(len, H) entries in arrival order, record echoes the last entries, wasted conversion echoes the histories.',
     'Trusted: the oracle in engine/src/props/c13.rs. Eviction when the gallery is full and the newcomer carries no feature is accepted (the statement does not forbid it). One continuing object plus one distractor.',
     "7/C13")
prop("C14", True, "C",
     'exhaustive enumeration of all box lists up to n=4 (5 thorough) over an 11-box menu x score patterns x thresholds, plus chain/ladder/grid/fan families for every k<=40, plus an exact family (all lists of 2 (3) boxes from 60 axis-aligned boxes with dyadic corners and sizes x dyadic thresholds, decided with zero margin), on the real nms(); oracle straight from the statement with own coverage computation',
     'All lists of the finite product are executed and each clause of the statement (subset by reference identity, rank order, top kept, independence, justification of every drop, idempotence) is checked.',
     'Trusted: own coverage computation; keep/drop decisions asserted outside a 1e-4 margin around the threshold (zero margin on the exact dyadic family, where every correctly rounded computation is exact). Lists longer than 5 only along the enumerated families.',
     "7/C14")
prop("C15", True, "C",
     'exhaustive enumeration of all sets of <=3 integer boxes on a 5-point lattice and of 4 on a 4-point lattice (every ordering of sampled 3-sets by a fixed stride) against exact cell counting, plus enumerated degenerate/rotated families of 1..8 boxes against inclusion-exclusion',
     'Complete finite products executed on the real code under catch_unwind; exact integer reference where possible.',
     "Trusted: cell counting and the inclusion-exclusion reference. rayon's internal scheduling is not controlled (outputs are compared across input orders instead).",
     "7/C15")
prop("C16", True, "C",
     'exhaustive enumeration of every vector length 0..=130 x value menus, every same-length menu pair, every ordered pair of lengths, all triples of a 24-vector menu per length class, on the real packing and SIMD distance code against scalar f64 formulas',
     'All lengths (every residue modulo the lane width) are covered exhaustively; values come from fixed menus, not random draws.',
     'Trusted: scalar f64 formulas. Values off the menus are not covered.',
     "7/C16")
prop("C17", True, "C",
     'exhaustive enumeration of all stream multisets up to a size over small query/track/distance alphabets and of every permutation of streams of <=4 items, all parameter triples, on the real voting engines against independently computed counting rules',
     'Every stream of the bounded space and every arrival order (all permutations up to 4 items; rotations, reversal, adjacent swaps for 5-6) is executed; ties are accepted either way, tie-free results must be identical across orders.',
     'Trusted: the counting-rule reference in engine/src/props/c17.rs; dyadic distances make the f64 sums exact.',
     "7/C17")
prop("C18", True, "D",
     "exhaustive enumeration of all API scripts up to a depth over fixed argument menus (4.3k scripts / 44k steps quick, 33k / 495k thorough), each executed through the Python module built from the tree and through a Rust driver calling the wrapped Rust API directly, outputs compared step by step",
     "Every script of the bounded space is executed on both sides; every returned object is dumped through every getter (floats as f64 bit patterns), so a getter wired to the wrong field, a changed default, a wrong conversion or a transmute that breaks layout shows as a differing line. All 188 names the module exposes are exercised. Defaults: each defaulted parameter is omitted in turn and compared with a control that passes the documented value.",
     "Trusted: the table in pybind/pydrv/src/main.rs of which Rust call each Python name wraps and which default is documented (sources listed in the evidence assumptions). Arguments outside the documented domains are not enumerated (the bindings validate them differently on purpose). Both builds are cfg-off (real threads); compared results are schedule independent (shards=1 / voting_shards=1 or compared up to order).",
     "7/C18")
prop("C20", True, "A+C",
     "exhaustive enumeration of every ordered constraint table of <= 3 (4) entries over gaps 0..8 x 3 limits, every split into two add calls and every (gap, distance) probe on the real validate(); exhaustive enumeration of all motion words (still / hops / jump / missed frame) of length 5 (6) on the real Sort / VisualSort with slack and binding tables, admission re-derived from the pre-call store",
     "Tables: the complete finite product is executed against 'first configured limit of the smallest configured gap >= d', monotone in distance. Trackers: slack tables must give records identical to the unconstrained tracker (differential); with binding tables no continuation may violate the limit for its epoch gap and the association must be optimal among admitted pairs; the number of gated pairs actually removed by a table is reported as vacuity guard.",
     "Trusted: the table reference and engine/src/props/assoc.rs. One fast object plus a bystander; decisions within 1e-3 of a limit are accepted either way.",
     "7/C20")
prop("C19", True, "C",
     "exhaustive enumeration of complete input grids on the real code (every coordinate x base x delta x argument order; every f32 bit pattern in [-1000,1000] for normalize_angle in the thorough tier) and of every sequence of <= 4 (5) in-place changes / regenerations of the cached polygon against an f64 reference",
     "Every case of the stated finite grids is executed on the implementation and compared with the reference; equality decisions are asserted only outside a 0.1% margin around the library epsilon. This is the right level because the property is a universally quantified statement about pure functions of at most two boxes.",
     "Trusted: the f64 reference geometry in engine/src/geom.rs; boxes off the grids are not covered.",
     "7/C19")
