NB = "check not built yet in this round; planned per DESIGN.md section 7 (model checking applies)"
prop("C01", False, "A", "", "", NB, "7/C01")
prop("C02", False, "A+C", "", "", NB, "7/C02")
prop("C03", False, "A", "", "", NB, "7/C03")
prop("C04", False, "A", "", "", NB, "7/C04")
prop("C05", False, "A+B", "", "", NB, "7/C05")
prop("C06", False, "B", "", "", NB, "7/C06")
prop("C07", True, "A+C",
     "exhaustive enumeration of all step words (predict / update with 6 kinds of measurement) up to a depth and of all periodic words of length <= 4 unrolled to 300 steps on the real filters, each step compared with an f64 textbook step from the implementation's own pre-state; complete f32 bit-pattern sweep of the cost conversions",
     "Bounded exhaustive search over filter histories (depth 5 quick / 7 thorough, 36+9 configurations) with a per-step reference, so no drift accumulates in the oracle; the cost functions are unary f32 functions and are checked on every non-negative bit pattern in the thorough tier.",
     "Trusted: the f64 reference recurrence in engine/src/props/c07.rs and the H4 accessor. Measurements follow a filter-independent object trajectory with heights within [h0/4, 4*h0]; states whose predicted height collapses to ~0 (noise model degenerates) are outside the explored space.",
     "7/C07")
prop("C08", False, "C", "", "", NB, "7/C08")
prop("C09", False, "A+B", "", "", NB, "7/C09")
prop("C10", False, "B", "", "", NB, "7/C10")
prop("C11", False, "A", "", "", NB, "7/C11")
prop("C12", False, "A", "", "", NB, "7/C12")
prop("C13", False, "A", "", "", NB, "7/C13")
prop("C14", False, "C", "", "", NB, "7/C14")
prop("C15", False, "C", "", "", NB, "7/C15")
prop("C16", False, "C", "", "", NB, "7/C16")
prop("C17", False, "C", "", "", NB, "7/C17")
prop("C18", False, "D", "", "", NB, "7/C18")
prop("C20", False, "A+C", "", "", NB, "7/C20")
prop("C19", True, "C",
     "exhaustive enumeration of complete input grids on the real code (every coordinate x base x delta x argument order; every f32 bit pattern in [-1000,1000] for normalize_angle in the thorough tier) against an f64 reference",
     "Every case of the stated finite grids is executed on the implementation and compared with the reference; equality decisions are asserted only outside a 0.1% margin around the library epsilon. This is the right level because the property is a universally quantified statement about pure functions of at most two boxes.",
     "Trusted: the f64 reference geometry in engine/src/geom.rs; boxes off the grids are not covered.",
     "7/C19")
