#!/usr/bin/env python3
"""tools/mutate_sweep.py [--ops boundary|offbyone|eq|logic|compound|minmax|bool|stmt|arith|more|all] [--only <substring of file>] [--out DIR] [--worker k/N]

Systematic self-test of the checks ("demonstrate detection, not just silence"): enumerates small
syntactic changes of the library's non-test, non-Python-binding source (comparison strictness flips;
optionally +-1 constants), and for each one
  1. applies it in the scratch worktree /tmp/mut/w<k>/wt and runs the repository's own 81 tests there
     (a change the tests already catch is of no interest),
  2. if the tests still pass, runs the quick tier of the checks responsible for that file against the
     changed scratch worktree: a scratch copy of /verif (check, engine/, known_findings.json) under
     /tmp/mut/w<k>/verif whose engine depends on the scratch worktree /tmp/mut/w<k>/wt instead of /repo, so that /repo and /verif are never
     touched and ordinary work on them can go on meanwhile; records which checks report the change.
Nothing is committed anywhere. Output: <out>/results.jsonl (one line per change) and the patches of the
changes that no check reported (to be analysed by hand: equivalent change, or a gap).
"""
import glob, json, os, re, subprocess, sys

REPO = "/repo"
ROOT = "/tmp/mut"          # per worker k: ROOT/w<k>/{wt,target,verif,out}
VFY = MUTVERIF = MUTOUT = None
ENV = None


def set_worker(k):
    global VFY, MUTVERIF, MUTOUT, ENV
    base = f"{ROOT}/w{k}"
    VFY, MUTVERIF, MUTOUT = base + "/wt", base + "/verif", base + "/out"
    ENV = dict(os.environ, CARGO_TARGET_DIR=base + "/target", CARGO_NET_OFFLINE="true", RUST_BACKTRACE="0")

CHECKS = [
    ("src/track/utils.rs", "C16"),
    ("src/distance.rs", "C16"),
    ("src/track/voting/", "C17 C12"),
    ("src/trackers/epoch_db.rs", "C03 C01"),
    ("src/trackers/sort.rs", "C01 C02 C03 C04 C13 C20"),
    ("src/trackers/sort/batch_api.rs", "C06 C01 C03"),
    ("src/trackers/sort/metric.rs", "C02 C01 C13"),
    ("src/trackers/sort/simple_api.rs", "C01 C02 C05 C03"),
    ("src/trackers/sort/voting.rs", "C02 C17 C05"),
    ("src/trackers/spatio_temporal_constraints.rs", "C20"),
    ("src/trackers/visual_sort/batch_api.rs", "C06 C12 C04 C01"),
    ("src/trackers/visual_sort/metric", "C12 C13"),
    ("src/trackers/visual_sort/observation_attributes.rs", "C08 C12"),
    ("src/trackers/visual_sort/options.rs", "C12"),
    ("src/trackers/visual_sort/simple_api.rs", "C12 C01 C03"),
    ("src/trackers/visual_sort/track_attributes.rs", "C03 C12 C13 C20 C04"),
    ("src/trackers/visual_sort/voting.rs", "C12 C17"),
    ("src/trackers/visual_sort.rs", "C12 C13 C01"),
    ("src/trackers/tracker_api.rs", "C03 C01"),
    ("src/trackers/batch.rs", "C06"),
    ("src/utils/bbox.rs", "C08 C19 C14 C15"),
    ("src/utils/clipping.rs", "C08 C15"),
    ("src/utils/clipping/", "C15 C08"),
    ("src/utils/kalman.rs", "C07 C01"),
    ("src/utils/kalman/", "C07 C02"),
    ("src/utils/nms.rs", "C14"),
    ("src/track/store", "C09 C10 C11 C05"),
    ("src/track.rs", "C11 C09 C13"),
]


def checks_for(f):
    for pre, c in CHECKS:
        if f.startswith(pre):
            return c
    return "C01 C09"


def sh(cmd, cwd=None, env=None, timeout=3600):
    # own session, so that a hanging test binary or check can be killed together with its children
    p = subprocess.Popen(cmd, shell=True, cwd=cwd, env=env or ENV, stdout=subprocess.PIPE, stderr=subprocess.STDOUT, text=True, start_new_session=True)
    try:
        out, _ = p.communicate(timeout=timeout)
        return p.returncode, out
    except subprocess.TimeoutExpired:
        import signal
        try:
            os.killpg(p.pid, signal.SIGKILL)
        except ProcessLookupError:
            pass
        out, _ = p.communicate()
        return 124, (out or "") + "\nTIMEOUT"


def production_lines(path):
    """(index, line) of lines outside #[cfg(test)] modules, `pub mod python` blocks, comments and hooks"""
    src = open(path).read().split("\n")
    out = []
    skip_from = None
    depth = 0
    i = 0
    in_block = False
    while i < len(src):
        l = src[i]
        if not in_block and (re.search(r"#\[cfg\(test\)\]", l) or re.search(r'#\[cfg\(feature = "python"\)\]', l) or re.search(r"#\[cfg\(similari_verif\)\]", l)):
            # skip the item that follows: up to the end of its brace block (or the single statement)
            j = i + 1
            while j < len(src) and "{" not in src[j] and ";" not in src[j]:
                j += 1
            if j < len(src) and "{" in src[j] and (";" not in src[j] or src[j].index("{") < src[j].index(";")):
                depth = 0
                k = j
                while k < len(src):
                    depth += src[k].count("{") - src[k].count("}")
                    if depth <= 0:
                        break
                    k += 1
                i = k + 1
            else:
                i = j + 1
            continue
        if not re.match(r"\s*//", l):
            out.append((i, l))
        i += 1
    return src, out


def mutants(ops, only):
    files = [f for f in glob.glob(REPO + "/src/**/*.rs", recursive=True)]
    res = []
    for path in sorted(files):
        f = os.path.relpath(path, REPO)
        if f.endswith("_py.rs") or f.endswith("verif.rs") or f.startswith("src/examples") or f == "src/lib.rs" or "/test_stuff" in f or f.startswith("src/bin"):
            continue
        if only and only not in f:
            continue
        src, lines = production_lines(path)
        for i, l in lines:
            if ops in ("boundary", "all"):
                for m in re.finditer(r"(?<= )(<=|>=|<|>)(?= )", l):
                    op = m.group(1)
                    new = {"<=": "<", "<": "<=", ">=": ">", ">": ">="}[op]
                    res.append((f, i, m.start(), op, new, "boundary"))
            if ops in ("offbyone", "all"):
                for m in re.finditer(r"(?<= )([+-]) 1(?![0-9.])", l):
                    res.append((f, i, m.start(), m.group(0), "", "drop+-1"))
            if ops in ("eq", "all", "more"):
                for m in re.finditer(r"(?<= )(==|!=)(?= )", l):
                    res.append((f, i, m.start(), m.group(1), {"==": "!=", "!=": "=="}[m.group(1)], "eq"))
            if ops in ("logic", "all", "more"):
                for m in re.finditer(r"(?<= )(&&|\|\|)(?= )", l):
                    if "move ||" in l or re.search(r"\|\| \{", l) and "if " not in l and "while " not in l:
                        continue
                    res.append((f, i, m.start(), m.group(1), {"&&": "||", "||": "&&"}[m.group(1)], "logic"))
            if ops in ("compound", "all", "more"):
                for m in re.finditer(r"(?<= )(\+=|-=)(?= )", l):
                    res.append((f, i, m.start(), m.group(1), {"+=": "-=", "-=": "+="}[m.group(1)], "compound"))
            if ops in ("minmax", "all", "more"):
                for m in re.finditer(r"\.(min|max)\(", l):
                    res.append((f, i, m.start(1), m.group(1), {"min": "max", "max": "min"}[m.group(1)], "minmax"))
            if ops in ("bool", "all", "more"):
                for m in re.finditer(r"\b(true|false)\b", l):
                    if "const " in l or "struct " in l:
                        continue
                    res.append((f, i, m.start(1), m.group(1), {"true": "false", "false": "true"}[m.group(1)], "bool"))
            if ops in ("stmt", "all", "more"):
                m = re.match(r"^(\s+)([\w\.\*\[\]\(\)&:]+\.(push|push_back|push_front|insert|remove|clear|truncate|pop_front|pop_back|sort_by|retain|extend|notify_one|notify_all|dedup|reverse)\(.*\);)\s*$", l)
                if m:
                    res.append((f, i, len(m.group(1)), m.group(2), "{}", "drop-stmt"))
            if ops in ("arith", "all"):
                if re.search(r"\b(where|impl|dyn|fn)\b|^\s*[A-Z]\w*:|'static", l):
                    continue
                for m in re.finditer(r"(?<=[\w\)\]] )([+\-*/])(?= [\w\(\-])", l):
                    res.append((f, i, m.start(), m.group(1), {"+": "-", "-": "+", "*": "/", "/": "*"}[m.group(1)], "arith"))
    return res


def apply(root, f, i, col, old, new):
    path = os.path.join(root, f)
    src = open(path).read().split("\n")
    l = src[i]
    assert l[col:col + len(old)] == old, (f, i, l)
    src[i] = l[:col] + new + l[col + len(old):]
    open(path, "w").write("\n".join(src))


def main():
    ops = "boundary"
    only = None
    out = "/tmp/mutsweep"
    worker, nworkers = 0, 1
    a = sys.argv[1:]
    while a:
        k = a.pop(0)
        if k == "--ops":
            ops = a.pop(0)
        elif k == "--only":
            only = a.pop(0)
        elif k == "--out":
            out = a.pop(0)
        elif k == "--worker":
            worker, nworkers = [int(x) for x in a.pop(0).split("/")]
    set_worker(worker)
    os.makedirs(out, exist_ok=True)
    os.makedirs(os.path.dirname(VFY), exist_ok=True)
    if not os.path.isdir(VFY):
        sh(f"git -C {REPO} worktree add --detach {VFY} HEAD")
    # scratch copy of the checks, bound to the scratch worktree
    sh(f"rm -rf {MUTVERIF}/engine/src {MUTVERIF}/check; mkdir -p {MUTVERIF}/engine {MUTOUT} && cp -r /verif/check /verif/known_findings.json {MUTVERIF}/ && cp -r /verif/engine/src /verif/engine/Cargo.toml /verif/engine/Cargo.lock /verif/engine/.cargo {MUTVERIF}/engine/ && cp /verif/known_findings.json {MUTOUT}/")
    sh(f"sed -i 's#path = \"/repo\"#path = \"{VFY}\"#' {MUTVERIF}/engine/Cargo.toml && sed -i 's#/verif/target#{MUTVERIF}/target#' {MUTVERIF}/engine/.cargo/config.toml")
    head = sh(f"git -C {REPO} rev-parse HEAD")[1].strip()
    sh(f"git checkout -q --detach {head} && git checkout -q -- . && git clean -fdq", cwd=VFY)
    ms = mutants(ops, only)
    print(f"{len(ms)} changes", flush=True)
    done = set()
    resf = os.path.join(out, f"results_w{worker}.jsonl")
    for rf in glob.glob(os.path.join(out, "results*.jsonl")):
        for l in open(rf):
            r = json.loads(l)
            done.add((r["file"], r["line"], r["col"], r["old"]))
    for n, (f, i, col, old, new, kind) in enumerate(ms):
        if n % nworkers != worker or (f, i + 1, col, old) in done:
            continue
        rec = {"file": f, "line": i + 1, "col": col, "old": old, "new": new, "kind": kind}
        sh("git checkout -q -- .", cwd=VFY)
        apply(VFY, f, i, col, old, new)
        rec["text"] = open(os.path.join(VFY, f)).read().split("\n")[i].strip()
        rc, o = sh("cargo nextest run --workspace --no-fail-fast --offline 2>&1 | grep -E 'Summary|error(\\[|:)' | head -3", cwd=VFY, timeout=240)
        rec["suite"] = o.strip()
        if rc == 124:
            rec["status"] = "killed-by-the-repository-tests"
            rec["suite"] = "the suite hangs (killed after 240 s)"
        elif "81 passed" not in o:
            rec["status"] = "does-not-compile" if "error" in o and "Summary" not in o else "killed-by-the-repository-tests"
        else:
            patch = os.path.join(out, f"{ops}{n:03d}.diff")
            sh(f"git diff > {patch}", cwd=VFY)
            ids = checks_for(f)
            o = ""
            for cid in ids.split():
                rc, oo = sh(f"./check {cid} quick 2>/dev/null", cwd=MUTVERIF, env=dict(os.environ, VERIF_DIR=MUTOUT), timeout=900)
                keys = " ".join(re.findall(r"^  key=(\S+)", oo, re.M))[:300]
                o += f"{cid} rc={rc} {keys}\n"
            rec["checks_run"] = ids.split()
            rec["keys"] = o[:1500]
            caught = re.findall(r"^(C\d\d) rc=1", o, re.M)
            broken = re.findall(r"^(C\d\d) rc=(?!0|1)\d+", o, re.M)
            rec["reported_by"] = caught
            rec["machinery_errors"] = broken
            rec["status"] = "reported" if caught else "not-reported"
            rec["patch"] = patch
            if caught:
                os.remove(patch)
        with open(resf, "a") as fh:
            fh.write(json.dumps(rec) + "\n")
        print(n, rec["status"], f, i + 1, rec["text"][:90], rec.get("reported_by", ""), flush=True)
    sh("git checkout -q -- .", cwd=VFY)


main()
