#!/usr/bin/env python3
"""Regenerates the seeded-change table of DESIGN.md section 15 between its markers."""
import subprocess
p = '/verif/DESIGN.md'
s = open(p).read()
b, e = '<!-- SEEDED-TABLE-BEGIN -->\n', '<!-- SEEDED-TABLE-END -->'
i, j = s.index(b) + len(b), s.index(e)
t = subprocess.run(['python3', '/verif/tools/seeded_table.py'], capture_output=True, text=True).stdout
open(p, 'w').write(s[:i] + t + s[j:])
