#!/usr/bin/env python3
"""Prints the markdown table of /verif/seeded/*/meta.json (for DESIGN.md section 15)."""
import json, glob, os, re
rows = []
for d in sorted(glob.glob('/verif/seeded/*/')):
    m = json.load(open(d + 'meta.json'))
    sid = os.path.basename(d.rstrip('/'))
    what = re.sub(r'\s+', ' ', str(m.get('what', ''))).strip()
    trig = re.sub(r'\s+', ' ', str(m.get('needs_to_manifest', ''))).strip()
    def cut(s, n):
        return s if len(s) <= n else s[:n - 1].rsplit(' ', 1)[0] + ' …'
    rows.append((sid, m.get('property', sid[:3]), cut(what, 230), cut(trig, 170), ' '.join(m.get('checks_that_report_it', [])), ' '.join(m.get('checks_run_that_do_not', [])) or '-'))
print('| seeded change | what was changed | needs, to manifest | reported by | also run, silent |')
print('|---|---|---|---|---|')
for r in rows:
    print(f'| {r[0]} | {r[2]} | {r[3]} | {r[4]} | {r[5]} |'.replace('\n', ' '))
