#!/bin/bash
# tools/keep_seeded.sh <agent OUT dir> <seeded id e.g. C10_1> "<checks that catch it>" "<checks run that do not>"
set -u
OUT="$1"; ID="$2"; CAUGHT="$3"; MISSED="${4:-}"
D=/verif/seeded/$ID
mkdir -p "$D"
cp "$OUT/patch.diff" "$D/patch.diff"
for f in demo.rs demo.py demo.sh; do [ -f "$OUT/$f" ] && cp "$OUT/$f" "$D/$f"; done
if [ -f "$OUT/demo.py" ]; then /verif/tools/verify_seeded_py.sh "$OUT" > "$D/verify.log" 2>&1; else /verif/tools/verify_seeded.sh "$OUT" > "$D/verify.log" 2>&1; fi
python3 - "$OUT/meta.json" "$D" "$CAUGHT" "$MISSED" <<'PY'
import json,sys,re
src,d,caught,missed=sys.argv[1:5]
try: m=json.load(open(src))
except Exception as e: m={"note":"agent meta.json unreadable: %s"%e}
log=open(d+'/verify.log').read()
def section(name):
    i=log.find(name)
    if i<0: return ""
    j=log.find('\n---',i+1)
    return log[i:j if j>0 else None].strip()
m["confirmed_by_verifier"]={
  "how":"tools/verify_seeded.sh in a scratch worktree /tmp/vfy of /repo HEAD: demo on the unchanged tree, demo with the patch, the 81-test suite with the patch, --no-default-features build",
  "demo_unchanged_tree":section('--- demo on the unchanged tree'),
  "demo_with_patch":section('--- demo with the patch')[:600],
  "suite_with_patch":section('--- suite with the patch'),
}
m["checks_that_report_it"]=[c for c in caught.split() if c]
m["checks_run_that_do_not"]=[c for c in missed.split() if c]
m["how_checks_were_run"]="tools/run_on_patch.sh <patch> quick <ids>: git -C /repo apply, ./check <id> quick, git -C /repo checkout -- ."
json.dump(m,open(d+'/meta.json','w'),indent=1)
print(d, 'unchanged:', m["confirmed_by_verifier"]["demo_unchanged_tree"].splitlines()[-1:] , 'patched:', [l for l in m["confirmed_by_verifier"]["demo_with_patch"].splitlines() if 'test result' in l])
PY
