#!/bin/bash
# tools/process_round.sh <round dir e.g. /tmp/r5> <ID> [extra check ids...]
# verify a sub-agent's seeded change independently (scratch worktree /tmp/vfy), then run the property's quick check on it.
set -u
R="$1"; ID="$2"; shift 2
OUT="$R/$ID/out"
[ -f "$OUT/patch.diff" ] || { echo "$ID: no patch.diff"; exit 2; }
if [ -f "$OUT/demo.py" ]; then /verif/tools/verify_seeded_py.sh "$OUT" > "$OUT/verify.log" 2>&1; else /verif/tools/verify_seeded.sh "$OUT" > "$OUT/verify.log" 2>&1; fi
echo "== $ID verify:"; grep -E "^---|test result|exit status|Summary|Finished|does not apply" "$OUT/verify.log" | cut -c1-160
echo "== $ID checks:"; /verif/tools/run_on_patch.sh "$OUT/patch.diff" quick "$ID" "$@" | cut -c1-400
