#!/usr/bin/env python3
"""Regenerates /verif/MANIFEST.json from the table below and validates it against the schema."""
import json, subprocess, sys, os
ROOT = os.path.dirname(os.path.dirname(os.path.abspath(__file__)))

def hooks_commits():
    out = subprocess.run(["git", "-C", "/repo", "log", "--format=%h %s"], capture_output=True, text=True).stdout
    return [l.split()[0] for l in out.splitlines() if l.split(" ", 1)[1].startswith("verif hook")]

# id -> (built, engine, technique, level text, level note, design ref)
P = {}
def prop(id, built, engine, technique, text, note, ref):
    P[id] = dict(built=built, engine=engine, technique=technique, text=text, note=note, ref=ref)

exec(open(os.path.join(ROOT, "tools", "manifest_table.py")).read())

checks, na = [], []
for id in sorted(P):
    p = P[id]
    if not p["built"]:
        na.append({"property_id": id, "reason": p["note"]})
        continue
    checks.append({
        "property_id": id,
        "quick_cmd": f"./check {id} quick",
        "thorough_cmd": f"./check {id} thorough",
        "evidence_file": f"/verif/evidence/{id}.json",
        "replay_cmd_template": f"./check {id} quick --replay {{path}}",
        "engine": p["engine"],
        "level_claimed": {"category": "model_checking", "text": p["text"], "design_ref": p["ref"]},
        "level_note": p["note"],
        "technique": p["technique"],
    })

m = {
    "version": 1,
    "setup_cmd": "cd /verif/engine && CARGO_NET_OFFLINE=true cargo build --release --offline && cd /verif && ./tools/setup_extra.sh",
    "hooks": {
        "guard": "--cfg similari_verif",
        "enable": "RUSTFLAGS=\"--cfg similari_verif\" (set in /verif/engine/.cargo/config.toml; own target dir /verif/target, so /repo/target is untouched); the engine links /repo as a path dependency with default-features = false",
        "baseline_off_cmd": "cd /repo && (cargo nextest run --workspace --no-fail-fast --offline || cargo test --workspace --no-fail-fast --offline)",
        "source_commits": hooks_commits(),
        "add_only": True,
    },
    "engines": [
        {"name": "seqmc", "path": "/verif/engine/src/props", "serves_properties": [i for i in sorted(P) if P[i]["built"] and "A" in P[i]["engine"]],
         "kind_free_text": "breadth-first enumeration of all operation sequences up to a depth over a small alphabet, executed on the real objects (inside the shuttle runtime under the deterministic default schedule) in lock-step with a reference model"},
        {"name": "schedmc", "path": "/verif/engine/src/sched.rs", "serves_properties": [i for i in sorted(P) if P[i]["built"] and "B" in P[i]["engine"]],
         "kind_free_text": "stateless preemption-bounded exhaustive exploration (iterative context bounding, prefix replay) of the real store workers / voting threads / caller under a controlled scheduler (shuttle runtime, own explorer)"},
        {"name": "gridmc", "path": "/verif/engine/src/props", "serves_properties": [i for i in sorted(P) if P[i]["built"] and "C" in P[i]["engine"]],
         "kind_free_text": "complete cartesian products of input grids (whole f32 bit-pattern ranges for unary functions) for pure functions against independent f64 / brute-force references"},
        {"name": "pybind", "path": "/verif/pybind", "serves_properties": [i for i in sorted(P) if P[i]["built"] and "D" in P[i]["engine"]],
         "kind_free_text": "all API scripts up to a depth executed through the Python module built from the tree and through a Rust driver; outputs compared field by field"},
    ],
    "checks": checks,
    "not_applicable": na,
    "notes": "Every check rebuilds the engine from /repo's working tree. Exit 0/1/2 = held / unlisted violation / machinery error. Known findings: /verif/known_findings.json (never written at run time). Design: /verif/DESIGN.md.",
}
json.dump(m, open(os.path.join(ROOT, "MANIFEST.json"), "w"), indent=1)
try:
    import jsonschema
    jsonschema.validate(m, json.load(open("/root/.vp/MANIFEST.schema.json")))
    print("MANIFEST.json valid:", len(checks), "checks,", len(na), "not claimed")
except ImportError:
    print("jsonschema not importable; wrote MANIFEST.json unvalidated")
