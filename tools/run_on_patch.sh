#!/bin/bash
# tools/run_on_patch.sh <patch.diff> <tier> <ID> [<ID> ...]
# Applies a seeded change to /repo, runs the given checks, and ALWAYS reverts /repo afterwards.
set -u
PATCH="$1"; TIER="$2"; shift 2
cd /repo || exit 2
if [ -n "$(git status --short)" ]; then echo "refusing: /repo has uncommitted changes"; exit 2; fi
if ! git apply --check "$PATCH" 2>/dev/null; then echo "patch does not apply: $PATCH"; exit 2; fi
git apply "$PATCH"
trap 'git -C /repo checkout -- . >/dev/null 2>&1' EXIT
# evidence / replays of these runs go to a scratch tree, never to /verif/evidence
export VERIF_DIR=/tmp/verif_mut_out
mkdir -p "$VERIF_DIR" && cp /verif/known_findings.json "$VERIF_DIR/"
for id in "$@"; do
  out=$(cd /verif && ./check "$id" "$TIER" 2>/dev/null); rc=$?
  nviol=$(echo "$out" | grep -c "^VIOLATION")
  keys=$(echo "$out" | grep "^  key=" | sed 's/ cases=.*//' | sed 's/^  key=//' | tr '\n' ' ' | cut -c1-300)
  echo "$id rc=$rc violations_lines=$nviol keys: $keys"
done
