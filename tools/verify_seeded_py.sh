#!/bin/bash
# tools/verify_seeded_py.sh <OUT-dir with patch.diff + demo.py>
# Same as verify_seeded.sh for a Python demonstration: builds the extension in /tmp/vfy with and without the patch.
set -u
OUT="$1"
export CARGO_TARGET_DIR=/tmp/vfy_target CARGO_NET_OFFLINE=true RUST_BACKTRACE=0
if [ ! -d /tmp/vfy ]; then git -C /repo worktree add --detach /tmp/vfy HEAD >/dev/null 2>&1 || exit 2; fi
cd /tmp/vfy || exit 2
git checkout -q --detach "$(git -C /repo rev-parse HEAD)" && git checkout -q -- . && git clean -fdq
mkdir -p /tmp/vfy_py
build() { cargo build --offline --lib 2>&1 | tail -1; cp /tmp/vfy_target/debug/libsimilari.so /tmp/vfy_py/similari.so; }
echo "--- demo on the unchanged tree"
build
PYTHONPATH=/tmp/vfy_py python3 "$OUT/demo.py" 2>&1 | tail -3; echo "exit status: ${PIPESTATUS[0]}"
git apply "$OUT/patch.diff" || { echo "patch does not apply"; exit 2; }
echo "--- demo with the patch"
build
PYTHONPATH=/tmp/vfy_py python3 "$OUT/demo.py" 2>&1 | tail -4; echo "exit status: ${PIPESTATUS[0]}"
echo "--- suite with the patch"
cargo nextest run --workspace --no-fail-fast --offline 2>&1 | grep -E "Summary|FAIL" | head -5
echo "--- builds without default features"
cargo build --offline --no-default-features --lib 2>&1 | tail -1
git checkout -q -- . && git clean -fdq
